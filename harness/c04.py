"""C04 - a reply is attributed only to the request it answers, on every native transport.

Correspondence: Model/RxLoop.v evaluated in Coq (Corr/C04.v) against
Rmcp / IpmbDev / Aardvark .send_and_receive_raw driven with scripted transports
(harness/c04_util.py): exhaustive orderings of the alphabet
  0 match, 1 stale seq, 2 other cmd, 3 other netfn, 4 other LUN, 5 bad header checksum,
  6 bad payload checksum, 7 bridge acknowledgement, 8 short frame, 9 time-out
under retry budgets 0..3 and both settings of rmcp_ignore_rq_seq, then sequences of
1..4 requests on one interface object over an extended alphabet (OS error, bridged
reply, failing Send Message response, replies to earlier requests, pre-filled queue).
Compared: outcome, every frame written, queue length, unread events, sequence counter.

Oracle (independent of the model): the property text evaluated on each run - see judge().
"""
import itertools
import multiprocessing
import os
import random

from . import common as C
from . import c04_util as U
from .c09 import spec_reply_frame, spec_wrap_reply, spec_request_frame, spec_peel, csum

MODEL_MAP = [
    {'python': 'pyipmi/interfaces/rmcp.py:Rmcp._send_and_receive', 'coq': 'Model.RxLoop.rmcp_send_receive (rmcp_prepare, classify, rmcp_recv, rmcp_attempts)'},
    {'python': 'pyipmi/interfaces/rmcp.py:Rmcp._inc_sequence_number', 'coq': 'Model.RxLoop.inc_seq'},
    {'python': 'pyipmi/interfaces/ipmbdev.py:IpmbDev._send_and_receive/_send_raw/_receive_raw', 'coq': 'Model.RxLoop.ipmbdev_send_receive (i2c_recv, i2c_attempts, ipmbdev_view)'},
    {'python': 'pyipmi/interfaces/aardvark.py:Aardvark._send_and_receive/_send_raw/_receive_raw', 'coq': 'Model.RxLoop.aardvark_send_receive (aardvark_view, aardvark_wire)'},
    {'python': 'pyipmi/interfaces/ipmb.py:rx_filter', 'coq': 'Model.Ipmb.rx_filter'},
    {'python': 'pyipmi/interfaces/ipmb.py:decode_bridged_message', 'coq': 'Model.Bridge.decode_bridged'},
]
TRUSTED = ['scripted transports harness/c04_util.py (fake socket, os/select, pyaardvark, clock): only the ORDER of '
           'events is represented; real time-outs, UDP loss and OS buffering are not']
KINDS = ['rmcp', 'ipmbdev', 'aardvark']
# C04_MODEL_ORIGINAL=1 compares with the model of the code as found (re-queueing); used once to
# confirm that rmcp_send_receive_original, about which the C04_F4_* theorems speak, is that code
COQ_KIND = {'rmcp': 'KRmcpOriginal' if os.environ.get('C04_MODEL_ORIGINAL') else 'KRmcp',
            'ipmbdev': 'KIpmbDev', 'aardvark': 'KAardvark'}
F4_KEY = 'Rmcp._send_and_receive:unmatched-frame-requeued'
SYM_NAMES = ['match', 'stale-seq', 'other-cmd', 'other-netfn', 'other-lun', 'bad-hdr-csum', 'bad-payload-csum',
             'bridge-ack', 'short', 'timeout', 'oserror', 'bridged-match', 'bridge-cc-error',
             'echoed-request', 'request-netfn', 'netfn-bit1', 'netfn-bit2', 'netfn-bit3', 'netfn-bit4', 'netfn-bit5']
NSYM = len(SYM_NAMES)


def nl(xs):
    return C.c_list([C.c_N(x) for x in xs])


def c_res(r):
    if isinstance(r, Exception):
        return '(Err %s)' % C.c_err(C.exc_class(r))
    return '(Ok %s)' % C.c_hex(r)


def c_event(e):
    if e[0] == 'F':
        return '(Frame %s)' % C.c_hex(e[1])
    return 'Nothing' if e[0] == 'N' else 'OsError'


# ---------------------------------------------------------------------------
# alphabet (built here independently; compared with Corr.C04.sym_event by chk_sym)
# ---------------------------------------------------------------------------
def bump(f, i):
    f = bytearray(f)
    f[i] = (f[i] + 1) % 256
    return bytes(f)


def reply_frame_nf(h, nf, data):
    """reply layout with an arbitrary network function value"""
    rs_sa, rs_lun, rq_sa, rq_lun, seq, netfn, cmd = h
    a = [rq_sa, ((nf << 2) | rq_lun) % 256]
    a.append(csum(a))
    b = [rs_sa, (seq << 2) | rs_lun, cmd] + list(data)
    b.append(csum(b))
    return bytes(a + b)


def sym_event(h, k, p=b''):
    """h = [rs_sa, rs_lun, rq_sa, rq_lun, rq_seq, netfn, cmd] of the request, p its data"""
    d = bytes([0, 160 + k])
    rs_sa, rs_lun, rq_sa, rq_lun, seq, netfn, cmd = h
    if k == 0:
        return ('F', spec_reply_frame(h, d))
    if k == 1:
        return ('F', spec_reply_frame([rs_sa, rs_lun, rq_sa, rq_lun, (seq + 63) % 64, netfn, cmd], d))
    if k == 2:
        return ('F', spec_reply_frame([rs_sa, rs_lun, rq_sa, rq_lun, seq, netfn, (cmd + 1) % 256], d))
    if k == 3:
        return ('F', spec_reply_frame([rs_sa, rs_lun, rq_sa, rq_lun, seq, (netfn + 2) % 64, cmd], d))
    if k == 4:
        return ('F', spec_reply_frame([rs_sa, (rs_lun + 1) % 4, rq_sa, rq_lun, seq, netfn, cmd], d))
    if k == 5:
        return ('F', bump(spec_reply_frame(h, d), 2))
    if k == 6:
        return ('F', bump(spec_reply_frame(h, d), 8))
    if k == 7:
        return ('F', spec_wrap_reply([rq_sa, 0, rs_sa, 0, seq], 0, b''))
    if k == 8:
        return ('F', spec_reply_frame(h, d)[:5])
    if k == 9:
        return ('N',)
    if k == 10:
        return ('E',)
    if k == 11:
        return ('F', spec_wrap_reply([rq_sa, 0, 0x20, 0, seq], 0, spec_reply_frame(h, d)))
    if k == 12:
        return ('F', spec_wrap_reply([rq_sa, 0, 0x20, 0, seq], 0xc3, b''))
    if k == 13:   # the request itself, echoed / looped back
        return ('F', spec_request_frame(rs_sa, rs_lun, rq_sa, rq_lun, seq, netfn, cmd, p))
    if k == 14:   # everything matches, but the network function is the REQUEST's (bit 0 clear)
        return ('F', reply_frame_nf(h, netfn, d))
    return ('F', reply_frame_nf(h, (netfn | 1) ^ (1 << (k - 14)), d))      # 15..19: one netfn bit flipped


# ---------------------------------------------------------------------------
# the property, stated on one frame (written from the property text, no model)
# ---------------------------------------------------------------------------
def spec_unwrap(f):
    """Send Message responses around a reply -> ('reply', inner) | ('ack',) | ('error',) | ('plain', f)"""
    f = bytes(f)
    if len(f) < 6 or f[5] != 0x34:
        return ('plain', f)
    while len(f) >= 6 and f[5] == 0x34:
        if len(f) < 7:
            return ('error',)
        if f[6] != 0:
            return ('error',)
        f = f[7:-1]
        if len(f) == 0:
            return ('ack',)
    return ('reply', f)


def spec_answers(h, f, check_seq=True):
    """is frame f a reply with valid checksums whose command, network function, sequence
    number and responder LUN match the request with header h? -> its data or None"""
    f = bytes(f)
    if len(f) < 7:
        return None
    if sum(f[0:3]) % 256 or sum(f[3:]) % 256:
        return None
    if f[1] >> 2 != (h[5] | 1) or f[5] != h[6] or (f[4] & 3) != h[1]:
        return None
    if check_seq and f[4] >> 2 != h[4]:
        return None
    return f[6:-1]


def seen_frame(kind, f):
    """the frame as the interface can see it (I2C address byte of Aardvark has 7 bits)"""
    f = bytes(f)
    if kind == 'aardvark':
        return (bytes([f[0] & 0xfe]) + f[1:]) if f else b'\x00'
    return f


def frame_class(kind, h, f, ign):
    """('match', data) | ('ack',) | ('unrelated',) | ('hazard',)  - hazard: a frame on which
    the property allows an error (too short to be a frame, failing / malformed bridge response)"""
    f = seen_frame(kind, f)
    if len(f) < 6:
        return ('hazard',)
    if kind == 'rmcp':
        u = spec_unwrap(f)
        if u[0] == 'error':
            return ('hazard',)
        if u[0] == 'ack':
            return ('ack',)
        inner = u[1]
        if len(inner) < 6:
            return ('hazard',)
        d = spec_answers(h, inner, check_seq=not ign)
    else:
        d = spec_answers(h, f)
    return ('match', d) if d is not None else ('unrelated',)


def judge(kind, mr, ign, h, queue0, consumed, pending, result, carry_empty):
    """Evaluate the property on one served request.
    consumed: events read during the request; pending: consumed + the unread ones.
    Returns list of (key, message)."""
    bad = []
    frames = list(queue0) + [e[1] for e in consumed if e[0] == 'F']
    # safety: returned data is the data of a received frame that answers this request
    if not isinstance(result, Exception):
        ok = False
        for f in frames:
            c = frame_class(kind, h, f, ign)
            if c[0] == 'match' and c[1] == bytes(result):
                ok = True
        if not ok:
            bad.append(('%s:returned-data-of-no-matching-reply' % kind,
                        'returned %s although no received frame with valid checksums answers this request '
                        '(cmd/netfn/seq/LUN): frames %s' % (bytes(result).hex(), [bytes(f).hex() for f in frames])))
    # liveness: a matching reply preceded only by unrelated frames (at most max_retries of them on
    # the LAN transport; any number on I2C with at least one attempt) is found
    if not queue0:
        n_unrelated = 0
        for e in pending:
            if e[0] != 'F':
                break
            c = frame_class(kind, h, e[1], ign)
            if c[0] == 'ack':
                continue
            if c[0] == 'unrelated':
                n_unrelated += 1
                continue
            if c[0] == 'match':
                budget_ok = (n_unrelated <= mr) if kind == 'rmcp' else (mr >= 1)
                if budget_ok and (isinstance(result, Exception) or bytes(result) != c[1]):
                    key = F4_KEY if kind == 'rmcp' else '%s:matching-reply-not-found' % kind
                    bad.append((key, 'matching reply (data %s) preceded by %d unrelated frame(s), max_retries=%d, '
                                     'but the request gave %r' % (c[1].hex(), n_unrelated, mr, result)))
            break
    return bad


# ---------------------------------------------------------------------------
# running the implementation
# ---------------------------------------------------------------------------
def request_header(kind, slave, seq, rq, routing):
    """header of the request as the reply filter must see it: [rs_sa, rs_lun, rq_sa, rq_lun, seq, netfn, cmd]"""
    rs_sa, lun, netfn, cmd = rq
    rq_sa = slave
    if kind == 'rmcp' and routing:
        rs_sa, rq_sa = routing[-1][1], routing[-1][0]
    return [rs_sa, lun, rq_sa, 0, seq, netfn, cmd]


def run_sequence(inp):
    """inp: kind, mr, ign, slave, seq0, queue0 (hex list), reqs [{rq, routing, p, events}]
    -> per-request records + final seq + unread"""
    kind = inp['kind']
    script = U.Script([])
    kw = dict(max_retries=inp['mr'], next_seq=inp['seq0'], slave=inp['slave'])
    if kind == 'rmcp':
        kw['quirks'] = {'rmcp_ignore_rq_seq': True} if inp['ign'] else {}
        if inp.get('sdu_quirk'):
            kw['quirks']['rmcp_ignore_sdu_length'] = True
    intf = U.MAKERS[kind](script, **kw)
    queue0 = [bytes.fromhex(x) for x in inp.get('queue0', [])]
    if kind == 'rmcp' and queue0:
        U.rmcp_prefill(intf, queue0)        # optional: only if the interface has a receive queue
    recs = []
    targets = {}      # one Target object per (address, routing) for the whole history

    def resolve_last(e):
        sent = U.sent_of(kind, intf)
        return ('F', U.reply_to_wire(sent[-1], bytes.fromhex(e[1]))) if sent and len(sent[-1]) >= 6 else ('N',)
    script.resolver = resolve_last
    for j, r in enumerate(inp['reqs']):
        events = []
        for e in r['events']:
            if e[0] == 'F':
                events.append(['F', bytes.fromhex(e[1])])
            elif e[0] == 'R':      # late reply to the frame written in step e[1]
                if e[1] < len(recs) and recs[e[1]]['sent'] and len(recs[e[1]]['sent'][0]) >= 6:
                    events.append(['F', U.reply_to_wire(recs[e[1]]['sent'][0], bytes.fromhex(e[2])), 'late'])
            else:
                events.append(list(e))
        carry = script.unread()
        script.extend(events)
        U.clear_sent(kind, intf)
        q_before = U.rmcp_queue(intf) if kind == 'rmcp' else []
        if r.get('probe'):
            result = U.probe(intf, r['rq'][0], targets=targets)
        else:
            result = U.call(intf, r['rq'][0], r.get('routing') or None, r['rq'][1], r['rq'][2], r['rq'][3],
                            bytes.fromhex(r['p']), targets=targets)
        pending = list(script.events)           # lazily resolved events are resolved in place by now
        consumed = pending[:len(pending) - script.unread()]
        recs.append({'result': result, 'sent': U.sent_of(kind, intf),
                     'qlen': len(U.rmcp_queue(intf)) if kind == 'rmcp' else 0,
                     'q_before': q_before, 'carry': carry, 'pending': pending, 'consumed': consumed,
                     'own': events, 'seq': intf.next_sequence_number})
    return recs, intf.next_sequence_number, script.unread()


def judge_sequence(inp, recs):
    kind, mr, ign = inp['kind'], inp['mr'], inp['ign']
    bad = []
    prev_seq = None
    nstep = 0
    for j, (r, rec) in enumerate(zip(inp['reqs'], recs)):
        is_probe = bool(r.get('probe'))
        if not (is_probe and kind == 'rmcp'):      # class Rmcp has no probe: nothing written, no number taken
            nstep += 1
        seq = (inp['seq0'] + nstep) % 64
        h = request_header(kind, inp['slave'], seq, r['rq'], r.get('routing'))
        # consecutive requests - probes are requests of their own - carry different sequence numbers:
        # seq_{k+1} = seq_k + 1 mod 64
        for f in rec['sent']:
            got = f[4] >> 2
            if is_probe and prev_seq is not None and got == prev_seq:
                bad.append(('%s:probe-reuses-sequence-number' % kind,
                            'step %d: is_ipmc_accessible writes its Get Device ID with sequence number %d, the '
                            'number of the frame written before it' % (j, got)))
            elif got != seq or (prev_seq is not None and got == prev_seq):
                bad.append(('%s:sequence-number-not-incremented' % kind,
                            '%s %d written with sequence number %d, expected %d (previous frame: %r)'
                            % ('probe' if is_probe else 'request', j, got, seq, prev_seq)))
        if rec['sent']:
            prev_seq = rec['sent'][0][4] >> 2
        # data of a late reply to an EARLIER step is never the answer
        late = [e for e in rec['consumed'] if e[0] == 'F' and len(e) > 2]
        # (with rmcp_ignore_rq_seq the sequence number is not compared: accepting such a reply is the quirk)
        if not is_probe and not ign and not isinstance(rec['result'], Exception):
            for e in late:
                if bytes(e[1])[6:-1] == bytes(rec['result']):
                    bad.append(('%s:returned-late-reply-to-earlier-request' % kind,
                                'step %d returned %s, the data of the late reply %s to an earlier step'
                                % (j, bytes(rec['result']).hex(), bytes(e[1]).hex())))
        if is_probe:
            continue      # returns no data; its sequence number is judged above
        # frames the HARNESS put on the RMCP queue (to exercise the get path) count as received; frames the
        # code itself left there do not excuse anything
        prefilled = rec['q_before'] if inp.get('queue0') else []
        bad += judge(kind, mr, ign, h, prefilled, rec['consumed'], rec['pending'],
                     rec['result'], rec['carry'] == 0)
        # frames received during an earlier request never prevent a later one from succeeding:
        # nothing unread is left over, and this request's own matching reply arrives first
        if j > 0 and rec['carry'] == 0 and not prefilled and rec['pending'] and rec['pending'][0][0] == 'F':
            c = frame_class(kind, h, rec['pending'][0][1], ign)
            attempts = (mr + 1) if kind == 'rmcp' else mr
            if c[0] == 'match' and attempts >= 1 and (isinstance(rec['result'], Exception) or bytes(rec['result']) != c[1]):
                key = F4_KEY if kind == 'rmcp' else '%s:later-request-poisoned' % kind
                bad.append((key, 'request %d: its matching reply (data %s) arrived first, yet it gave %r - '
                                 'earlier requests left state behind' % (j, c[1].hex(), rec['result'])))
    return bad


def oracle_sequence(inp):
    recs, _, _ = run_sequence(inp)
    bad = judge_sequence(inp, recs)
    want = inp.get('only_key')
    if want:
        bad = [b for b in bad if b[0] == want]
    return bad[0][1] if bad else None


ORACLES = {'sequence': oracle_sequence}


def replay(data):
    r = data['replay']
    if 'oracle' not in r:
        return False
    return ORACLES[r['oracle']](r['input']) is None


# ---------------------------------------------------------------------------
# exhaustive sweep (worker processes)
# ---------------------------------------------------------------------------
def out_code(r):
    if isinstance(r, Exception):
        n = C.exc_class(r)
        return {'RetryError': 33, 'TimeoutError': 34, 'DecodingError': 35}.get(n, 36 if n.startswith('CCError') else 37)
    r = bytes(r)
    if len(r) == 2 and r[0] == 0 and 160 <= r[1] < 192:
        return r[1] - 160
    return 32


def _sweep_shard(job):
    """job = (shard_seed, alpha, prefix, n, budgets): all words prefix+t under the 4
    configurations x budgets 0..3; returns dict config -> (meta, codes), oracle failures, #runs"""
    seed, alpha, prefix, n, budgets, forced_seq0 = job
    rng = random.Random(seed)
    out = {}
    fails = {}
    runs = 0
    payload = bytes(rng.randrange(256) for _ in range(rng.choice([0, 1, 3])))
    for cfg in (('rmcp', False), ('rmcp', True), ('ipmbdev', False), ('aardvark', False)):
        kind, ign = cfg
        slave = rng.choice([0x20, 0x81, 0x10, rng.randrange(256)])
        if kind == 'aardvark' and rng.random() < 0.85:
            slave &= 0xfe
        seq0 = rng.choice([0, 62, 63, rng.randrange(64)])
        if forced_seq0 is not None:
            seq0 = forced_seq0
        cmd = rng.choice([1, 0x33, 0x35, rng.randrange(256)])
        if cmd == 0x34:
            cmd = 0x36
        rq = [rng.choice([0x20, 0x72, 0x82, rng.randrange(256)]), rng.randrange(4), rng.randrange(0, 64, 2), cmd]
        seq = (seq0 + 1) % 64
        h = request_header(kind, slave, seq, rq, None)
        evs = {k: sym_event(h, k, payload) for k in alpha}
        codes = []
        tx = None
        for t in itertools.product(alpha, repeat=n):
            w = list(prefix) + list(t)
            events = [evs[k] for k in w]
            for mr in range(4):
                if mr not in budgets:
                    codes.append(0)
                    continue
                script = U.Script(events)
                kw = dict(max_retries=mr, next_seq=seq0, slave=slave)
                if kind == 'rmcp' and ign:
                    kw['quirks'] = {'rmcp_ignore_rq_seq': True}
                try:
                    intf = U.MAKERS[kind](script, **kw)
                    result = U.call(intf, rq[0], None, rq[1], rq[2], rq[3], payload)
                except U.HarnessTimeout as e:
                    # a real sleep / blocking call escaped the substitution: harness limitation, not a hang
                    fails['__limit__'] = ('%s: %s word %s max_retries=%d' % (e, kind, [SYM_NAMES[k] for k in w], mr),
                                          {'kind': kind, 'word': [SYM_NAMES[k] for k in w], 'mr': mr, 'rq': rq})
                    return job, {}, fails, runs
                runs += 1
                sent = U.sent_of(kind, intf)
                if sent:
                    if tx is None:
                        tx = sent[0]
                    if any(s != tx for s in sent):
                        codes.append(999998)
                        continue
                qlen = len(U.rmcp_queue(intf)) if kind == 'rmcp' else 0
                unread = script.unread()
                codes.append(((out_code(result) * 16 + len(sent)) * 16 + qlen) * 16 + unread)
                consumed = events[:len(events) - unread]
                bad = judge(kind, mr, ign, h, [], consumed, events, result, True)
                if sent and (sent[0][4] >> 2) != seq:
                    bad.append(('%s:sequence-number-not-incremented' % kind,
                                'request written with sequence number %d, expected %d' % (sent[0][4] >> 2, seq)))
                for key, msg in bad:
                    if key not in fails:
                        fails[key] = (msg, {'kind': kind, 'mr': mr, 'ign': ign, 'slave': slave, 'seq0': seq0,
                                            'reqs': [{'rq': rq, 'routing': None, 'p': payload.hex(),
                                                      'events': [[e[0]] + ([e[1].hex()] if e[0] == 'F' else []) for e in events]}],
                                            'only_key': key, 'word': [SYM_NAMES[k] for k in w]})
        out[cfg] = ({'slave': slave, 'seq0': seq0, 'rq': rq, 'p': payload.hex(), 'tx': (tx or b'').hex(), 'h': h}, codes)
    return job, out, fails, runs


def sweep_jobs(rng, alpha, maxlen, budgets=(0, 1, 2, 3), tail=3, seq0=None):
    jobs = []
    for L in range(0, maxlen + 1):
        n = min(L, tail)
        for prefix in itertools.product(alpha, repeat=L - n):
            jobs.append((rng.randrange(1 << 30), tuple(alpha), tuple(prefix), n, tuple(budgets), seq0))
    return jobs


# ---------------------------------------------------------------------------
def rand_events(rng, h, hist, n, alpha, p=b''):
    """n events for a request with header h; hist = headers of earlier requests (their
    replies arrive late)"""
    ev = []
    for _ in range(n):
        if hist and rng.random() < 0.25:
            ev.append(sym_event(rng.choice(hist), rng.choice([0, 0, 11, 7])))
        else:
            ev.append(sym_event(h, rng.choice(alpha), p))
    return ev


def run(ctx):
    rng = ctx.rng
    q = ctx.quick
    res = C.Result(model_map=MODEL_MAP)
    D = C.Distinct()
    fails = {}
    terms, meta = [], []

    def add(term, info):
        terms.append(term)
        meta.append(info)

    def fail(key, msg, inp):
        if key not in fails:
            fails[key] = C.Violation(key=key, what=msg, replay={'oracle': 'sequence', 'input': inp})

    # ---- the alphabet itself: Python construction == Gallina construction
    for _ in range(12):
        h = [rng.randrange(256), rng.randrange(4), rng.randrange(256), 0, rng.randrange(64), rng.randrange(0, 64, 2),
             rng.randrange(256)]
        pl = bytes(rng.randrange(256) for _ in range(rng.randrange(0, 4)))
        for k in range(NSYM):
            e = sym_event(h, k, pl)
            add('chk_sym %s %s %d %s' % (nl(h), C.c_hex(pl), k, C.c_opt(C.c_hex(e[1]) if e[0] == 'F' else None)), ('sym', h, k))

    # ---- exhaustive orderings
    alpha10 = list(range(10))
    jobs = sweep_jobs(rng, alpha10, 5 if q else 6)
    # extended alphabet (OS error, bridged reply, failing bridge response), shorter words
    jobs += sweep_jobs(rng, list(range(NSYM)), 3 if q else 4, tail=2)
    # the wrap of the 6-bit sequence counter, deliberately: the request gets number 63, 0 or 1 (the stale
    # letter then carries 62, 63, 0) - every letter, every pair of letters, every kind, budgets 0..3
    for s0 in (62, 63, 0):
        jobs += sweep_jobs(rng, list(range(NSYM)), 2, tail=2, seq0=s0)
    if not q:
        # length 7 over the sub-alphabet that distinguishes the loop's behaviours, full budget range
        jobs += [j for j in sweep_jobs(rng, [0, 1, 5, 7, 8, 9], 7) if len(j[2]) + j[3] == 7]
    sweep_terms, sweep_meta = [], []
    nruns = 0
    limits = []      # wall-clock guard hits (harness limitation)
    with multiprocessing.get_context('fork').Pool(C.NCPU) as pool:
        for job, out, f, runs in pool.imap_unordered(_sweep_shard, jobs, chunksize=1):
            nruns += runs
            if '__limit__' in f:
                limits.append(f.pop('__limit__'))
                pool.terminate()
                break
            seed, alpha, prefix, n, budgets, _forced = job
            for ci, ((kind, ign), (m, codes)) in enumerate(out.items()):
                D.add(('sweep', kind, ign, alpha, prefix, n), True, 'sweep-%s-len%d' % (kind, len(prefix) + n))
                if len(prefix) + n >= (5 if q else 6) and (sum(prefix) + ci) % 2:
                    # the property oracle ran on every ordering; the model is compared on every second
                    # (shard, configuration) pair of the longest words (length 5 quick; 6 and 7 thorough)
                    continue
                sweep_terms.append('chk_sweep %s %s %d %d %s %s %s %s %s %s %s' % (
                    COQ_KIND[kind], C.c_bool(ign), m['slave'], m['seq0'], nl(m['rq']), C.c_hex(bytes.fromhex(m['p'])),
                    C.c_hex(bytes.fromhex(m['tx'])), nl(alpha), nl(prefix), C.c_nat(n), nl(codes)))
                sweep_meta.append({'kind': kind, 'ign': ign, 'alpha': list(alpha), 'prefix': list(prefix), 'n': n,
                                   'm': m, 'codes': codes})
            for key, (msg, inp) in f.items():
                fail(key, msg, inp)
    res.evaluations += nruns
    D.n += nruns
    import time as _t
    res.extra['t_sweep_py'] = _t.time()

    # ---- sequences of 1..4 requests on one interface object (explicit frames)
    nseq = 700 if q else 6000
    # the RMCP receive queue is an optional observation (private name): without it nothing is pre-filled
    has_queue = U.rmcp_prefill(U.make_rmcp(U.Script([])), [])
    res.extra['rmcp_queue_observable'] = has_queue
    ext = list(range(NSYM))
    for i in range(nseq):
        kind = KINDS[i % 3]
        mr = rng.randrange(4)
        ign = kind == 'rmcp' and rng.random() < 0.3
        slave = rng.choice([0x20, 0x81, rng.randrange(256)])
        if kind == 'aardvark' and rng.random() < 0.85:
            slave &= 0xfe
        seq0 = rng.choice([0, 61, 62, 63, rng.randrange(64)])
        nreq = 1 + i % 4
        bridged = kind == 'rmcp' and rng.random() < 0.3
        reqs, hist = [], []
        queue0 = []
        same_target = rng.random() < 0.6      # all requests of the history go through ONE Target object
        # histories with accessibility probes (is_ipmc_accessible) between the requests; answers to a probe or
        # to a request may arrive late, i.e. during a later step
        probes = (not bridged) and rng.random() < (0.45 if kind != 'rmcp' else 0.08)
        if probes:
            same_target = True
            nreq = rng.randrange(2, 7)
        rs_sa0, routing0 = None, None
        for j in range(nreq):
            if probes and j >= 0:
                if rs_sa0 is None:
                    rs_sa0 = rng.choice([0x20, 0x72, rng.randrange(1, 256)])
                tag = bytes([0, 0x40 + j, rng.randrange(256)])
                late = [['R', i, bytes([0, 0x80 + i, rng.randrange(256)]).hex()] for i in range(j)
                        if rng.random() < (0.6 if i == j - 1 else 0.15)]
                is_probe = rng.random() < 0.4
                if is_probe:
                    rq, p = [rs_sa0, 0, 6, 1], b''
                else:
                    rq = [rs_sa0, 0, 6, 1] if rng.random() < 0.6 else [rs_sa0, rng.randrange(4), rng.randrange(0, 64, 2),
                                                                      rng.choice([1, 2, 0x35])]
                    p = bytes(rng.randrange(256) for _ in range(rng.choice([0, 0, 1, 3])))
                style = rng.random()
                own = [] if style < 0.3 else [['N']] if style < 0.4 else [['L', tag.hex()]] if style < 0.85 else \
                    [['E']] if style < 0.9 else [['L', tag.hex()], ['L', tag.hex()]]
                if rng.random() < 0.2:
                    hx = request_header(kind, slave, (seq0 + j + 1) % 64, rq, None)
                    e = sym_event(hx, rng.choice([1, 2, 3, 5, 6, 8, 13, 14]), p)
                    own = [[e[0]] + ([e[1].hex()] if e[0] == 'F' else [])] + own
                reqs.append({'rq': rq, 'routing': None, 'p': p.hex(), 'probe': is_probe, 'events': late + own})
                continue
            cmd = rng.choice([1, 2, 0x33, 0x35, rng.randrange(256)])
            if cmd == 0x34:
                cmd = 0x30
            rq = [rng.choice([0x20, 0x72, rng.randrange(256)]), rng.randrange(4), rng.randrange(0, 64, 2), cmd]
            routing = None
            if bridged:
                depth = rng.randrange(1, 4)
                routing = [[rng.choice([0x81, 0x20, rng.randrange(256)]), rng.choice([0x20, 0x82, 0x72, rng.randrange(256)]),
                            rng.randrange(16)] for _ in range(depth)]
                routing[-1][2] = 0
            if same_target:
                if j == 0:
                    rs_sa0, routing0 = rq[0], routing
                rq[0], routing = rs_sa0, routing0
            h = request_header(kind, slave, (seq0 + j + 1) % 64, rq, routing)
            p = bytes(rng.randrange(256) for _ in range(rng.choice([0, 1, 2, 5, 17, 40])))
            style = rng.random()
            if style < 0.25:
                ev = [sym_event(h, 0)]                      # its matching reply arrives first
            elif style < 0.5:
                pre = [sym_event(h, rng.choice([1, 2, 3, 4, 5, 6, 7, 13, 14, 15, 16, 17, 18, 19]), p)
                       for _ in range(rng.randrange(0, 5))]
                ev = pre + [sym_event(h, rng.choice([0, 0, 11]))]
            else:
                ev = rand_events(rng, h, hist, rng.randrange(0, 7), ext, p)
            if bridged and routing and len(routing) > 1 and rng.random() < 0.7:
                # the reply comes back through the bridges of the path, after acknowledgements
                ws = [[x[0], 0, x[1], 0, h[4]] for x in routing[:-1]]
                f = spec_reply_frame(h, bytes([0, 0xee]))
                for w in reversed(ws):
                    f = spec_wrap_reply(w, 0, f)
                ev = [('F', spec_wrap_reply(ws[0], 0, b''))] * rng.randrange(0, 3) + ev[:rng.randrange(0, 3)] + [('F', f)]
            reqs.append({'rq': rq, 'routing': routing, 'p': p.hex(),
                         'events': [[e[0]] + ([e[1].hex()] if e[0] == 'F' else []) for e in ev]})
            hist.append(h)
        if kind == 'rmcp' and not probes and has_queue and rng.random() < 0.2:
            h0 = request_header(kind, slave, (seq0 + 1) % 64, reqs[0]['rq'], reqs[0]['routing'])
            queue0 = [sym_event(h0, rng.choice([0, 1, 2, 5, 7, 11, 8]))[1].hex() for _ in range(rng.randrange(1, 4))]
        inp = {'kind': kind, 'mr': mr, 'ign': ign, 'slave': slave, 'seq0': seq0, 'queue0': queue0, 'reqs': reqs,
               'sdu_quirk': kind == 'rmcp' and rng.random() < 0.3}
        if limits:
            break
        try:
            recs, fseq, unread = run_sequence(inp)
        except U.HarnessTimeout as e:
            limits.append(('%s: %s history of %d step(s)' % (e, kind, len(reqs)), inp))
            break
        res.evaluations += len(reqs)
        exp = C.c_list(['(%s, %s, %s)' % (c_res(r['result']), C.c_list([C.c_hex(s) for s in r['sent']]), C.c_nat(r['qlen']))
                        for r in recs])

        def ev_term(e):
            return '(Frame %s)' % C.c_hex(e[1]) if e[0] == 'F' else 'OsError' if e[0] == 'E' else 'Nothing'
        st_terms = C.c_list(['(%d, %s, %s, %s, %s)' % (1 if r.get('probe') else 0, nl(r['rq']),
                                                       C.c_list([nl(x) for x in (r['routing'] or [])]),
                                                       C.c_hex(bytes.fromhex(r['p'])),
                                                       C.c_list([ev_term(e) for e in rec['own']]))
                             for r, rec in zip(reqs, recs)])
        add('chk_steps %s %s %s %d %d %s %s %s %d %s' % (
            COQ_KIND[kind], C.c_nat(mr), C.c_bool(ign), slave, seq0, C.c_list([C.c_hex(bytes.fromhex(x)) for x in queue0]),
            st_terms, exp, fseq, C.c_nat(unread)), ('sequence', inp))
        D.add(('seq', repr(inp)), True, 'sequence-%s-%dreq%s' % (kind, nreq, '-bridged' if bridged else '-probes' if probes else ''))
        for key, msg in judge_sequence(inp, recs):
            if key in fails:
                continue
            full = dict(inp, only_key=key)
            if len(reqs) > 1:
                # the history is confirmed from a clean start and shrunk in fresh processes
                extra = {k: v for k, v in full.items() if k != 'reqs'}
                short = C.shrink_history('C04', 'sequence', reqs, key='reqs', extra=extra)
                if short is not None:
                    full = dict(extra, reqs=short)
                    msg = (oracle_sequence(full) or msg) + ' [history of %d request(s)]' % len(short)
            fail(key, msg, full)

    res.extra['t_seq_py'] = _t.time()
    # ---- evaluate the model in Coq
    failing, errors = C.coq_cases('C04_%d' % os.getpid(), 'Model.Ipmb Model.Bridge Model.RxLoop Corr.C04', terms)
    sf, serr = C.coq_cases('C04sweep_%d' % os.getpid(), 'Model.Ipmb Model.Bridge Model.RxLoop Corr.C04', sweep_terms,
                           shard=max(4, len(sweep_terms) // (4 * C.NCPU) + 1), timeout=1500)
    res.extra['t_coq'] = _t.time()
    res.mismatches = [{'case': meta[i], 'term': terms[i][:800]} for i in failing[:30]]
    res.corr_errors = errors + serr
    for msg, case in limits:
        res.corr_errors.append(('HARNESS LIMITATION (wall-clock guard, no failing input): ' + msg,
                                'a driven call did not return within %.0f s: a real sleep or blocking call escaped the '
                                'substituted clock / transport. case: %r' % (U.GUARD_S, case)))
    U.uninstall()
    # locate the first disagreeing words inside failing sweep shards
    if sf:
        wterms, wmeta = [], []
        for i in sf[:6]:
            sm = sweep_meta[i]
            words = [list(sm['prefix']) + list(t) for t in itertools.product(sm['alpha'], repeat=sm['n'])]
            for wi, w in enumerate(words):
                m = sm['m']
                wterms.append('chk_word %s %s %d %d %s %s %s %s %s' % (
                    COQ_KIND[sm['kind']], C.c_bool(sm['ign']), m['slave'], m['seq0'], nl(m['rq']),
                    C.c_hex(bytes.fromhex(m['p'])), C.c_hex(bytes.fromhex(m['tx'])), nl(w), nl(sm['codes'][4 * wi:4 * wi + 4])))
                wmeta.append({'kind': sm['kind'], 'ign': sm['ign'], 'word': [SYM_NAMES[k] for k in w], 'request': m,
                              'impl_codes(mr=0..3: outcome*4096+nsent*256+qlen*16+unread)': sm['codes'][4 * wi:4 * wi + 4]})
        wf, werr = C.coq_cases('C04words_%d' % os.getpid(), 'Model.Ipmb Model.Bridge Model.RxLoop Corr.C04', wterms)
        res.mismatches += [{'case': wmeta[i], 'term': wterms[i][:600]} for i in wf[:30]]
        if not wf:
            res.mismatches += [{'case': 'sweep shard %d' % i, 'term': sweep_terms[i][:300]} for i in sf[:5]]
    res.evaluations += len(terms)
    res.distinct_nontrivial = D.distinct + nruns
    res.histogram = D.hist
    res.exhaustive = True
    res.rule = ('exhaustive: every ordering of length 0..%d over the 10-symbol alphabet {match, stale seq, other cmd, other '
                'netfn, other LUN, bad header checksum, bad payload checksum, bridge ack, short frame, time-out} and of '
                'length 0..%d over 13 symbols (+ OS error, bridged reply, failing bridge response)%s, each under retry '
                'budgets 0..3 on Rmcp (rmcp_ignore_rq_seq off/on), IpmbDev, Aardvark; plus all words of length 0..2 over the 20 '
                'symbols with the sequence counter forced to 62, 63 and 0 (wrap) (one random request per shard of 1000 '
                'words; the model is compared on all orderings up to length 4 (thorough 5) and on every second (shard, '
                'configuration) pair of the longer ones, the property oracle runs on all); then %d random sequences of 1..4 requests on one interface object (late replies to earlier '
                'requests, pre-filled queue, bridged targets, rmcp_ignore_sdu_length). distinct_nontrivial counts each '
                '(ordering, budget, configuration) run once plus distinct sequences; every run has >= 1 request'
                % (5 if q else 6, 3 if q else 4, '' if q else ', length 7 over {match, stale, bad checksum, ack, short, time-out}',
                   nseq))
    res.samples = [{'term': terms[i][:500], 'case': str(meta[i])[:300]} for i in (0, len(terms) // 2, len(terms) - 1)]
    res.samples += [{'term': sweep_terms[i][:300]} for i in (0, len(sweep_terms) - 1)]
    res.oracle_failures = list(fails.values())
    res.extra['sweep_runs'] = nruns
    res.extra['sweep_shards'] = len(sweep_terms)
    res.assumptions = ['only the order of events is modelled: time-outs are script events; real timing, UDP loss and '
                       'OS buffering are outside the theorems (partial on the timing side)']
    return res
