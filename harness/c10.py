"""C10 - FRU data transfer is exact and addresses the named FRU.

Correspondence: the real Ipmi object (Fru mix-in of pyipmi/fru.py) is driven through
harness/fakeif.py against a small Python FRU device; every exchange is recorded.  In
Coq (Corr/C10.v) the model progs of Model/FruIO.v are replayed against the recorded
replies and must issue the same requests and end with the same outcome; the Gallina
device fru_dev must give the recorded replies on the recorded requests.

Oracle (independent of the model): returned bytes == the device's memory slice of the
named FRU, every request seen by the device carries the named id, written memory ==
expected, a wrongly acknowledged chunk raises.
"""
import os

from . import common as C
from . import fakeif as F

MODEL_MAP = [
    {'python': 'pyipmi/fru.py:Fru.get_fru_inventory_area_info', 'coq': 'Model.FruIO.get_fru_inventory_area_info'},
    {'python': 'pyipmi/fru.py:Fru.read_fru_data', 'coq': 'Model.FruIO.read_fru_data/read_loop'},
    {'python': 'pyipmi/fru.py:Fru.read_fru_data_full', 'coq': 'Model.FruIO.read_fru_data_full'},
    {'python': 'pyipmi/fru.py:Fru.write_fru_data', 'coq': 'Model.FruIO.write_fru_data/write_chunks'},
    {'python': 'pyipmi/utils.py:chunks', 'coq': 'Model.FruIO.chunks'},
    {'python': 'pyipmi/fru.py:Fru.get_fru_inventory_header + InventoryCommonHeader._from_data',
     'coq': 'Model.FruIO.get_fru_inventory_header/common_header'},
    {'python': 'pyipmi/fru.py:Fru._read_fru_area', 'coq': 'Model.FruIO.read_fru_area'},
    {'python': 'pyipmi/fru.py:Fru.get_fru_chassis_area/get_fru_board_area/get_fru_product_area',
     'coq': 'Model.FruIO.get_fru_info_area'},
    {'python': 'pyipmi/fru.py:Fru.get_fru_multirecord_area', 'coq': 'Model.FruIO.get_fru_multirecord_area/mr_scan'},
    {'python': 'pyipmi/fru.py:Fru.get_fru_inventory', 'coq': 'Model.FruIO.get_fru_inventory'},
    {'python': 'pyipmi/msgs/fru.py:GetFruInventoryAreaInfo/ReadFruData/WriteFruData Req+Rsp',
     'coq': 'Model.FruIO.info_req/read_req/write_req/dec_info/dec_read/dec_write'},
]
TRUSTED = ['harness/c10.py:FruDevice (Python twin of the Gallina device fru_dev; every recorded exchange is '
           're-answered by fru_dev inside Coq and compared)',
           'area parsers of pyipmi/fru.py enter the model only as "raises / does not raise" (property C15)']

NETFN_STORAGE, CMD_INFO, CMD_READ, CMD_WRITE = 0x0a, 0x10, 0x11, 0x12
REJ = (0xc8, 0xc9, 0xca)


class FruDevice:
    """Reference FRU device: per-id memories, read limit, rejection code, write acknowledgement
    overrides {write index: acknowledged count}; script {request index: bytes | Exception}
    overrides the reply of single requests (non-conforming devices for the decoding tie)."""

    def __init__(self, mems, limit=255, rej=0xca, acks=None, script=None, max_requests=200000, trunc=False):
        self.mems = {int(k): bytearray(v) for k, v in mems.items()}
        self.limit, self.rej = limit, rej
        self.acks = {int(k): v for k, v in (acks or {}).items()}
        self.script = script or {}
        self.writes = 0
        self.n = 0
        self.max_requests = max_requests
        self.trunc = trunc      # serve min(count, limit) bytes instead of rejecting (also legal IPMI)

    def mem(self, i):
        return self.mems.get(i, bytearray())

    def __call__(self, netfn, cmd, lun, data, req):
        k = self.n
        self.n += 1
        if self.n > self.max_requests:
            raise RuntimeError('harness: request budget exceeded (client loops)')
        if k in self.script:
            r = self.script[k]
            if isinstance(r, Exception):
                raise r
            return bytes(r)
        if netfn != NETFN_STORAGE or lun != 0:
            return b'\xc1'
        if cmd == CMD_INFO:
            if len(data) != 1:
                return b'\xc7'
            n = len(self.mem(data[0]))
            return bytes([0, n & 0xff, (n >> 8) & 0xff, 0])
        if cmd == CMD_READ:
            if len(data) != 4:
                return b'\xc7'
            i, off, cnt = data[0], data[1] | data[2] << 8, data[3]
            if cnt > self.limit:
                if not self.trunc:
                    return bytes([self.rej])
                cnt = self.limit
            if off + cnt > len(self.mem(i)):
                return b'\xc9'
            return bytes([0, cnt]) + bytes(self.mem(i)[off:off + cnt])
        if cmd == CMD_WRITE:
            if len(data) < 3:
                return b'\xc7'
            i, off, dat = data[0], data[1] | data[2] << 8, data[3:]
            if off + len(dat) > len(self.mem(i)):
                return b'\xc9'
            w = self.acks.get(self.writes, len(dat))
            self.writes += 1
            st = dat[:w]
            m = self.mems.setdefault(i, bytearray())
            m[off:off + len(st)] = st
            return bytes([0, w & 0xff])
        return b'\xc1'


# ---------------------------------------------------------------------------
# independent FRU image builder (IPMI Platform Management FRU Information Storage Definition)
def _tl(s):
    return bytes([0xc0 | len(s)]) + s


def _area(body):
    raw = bytearray([1, 0]) + body + b'\xc1'
    n = (len(raw) + 1 + 7) // 8 * 8
    raw += bytes(n - len(raw) - 1)
    raw[1] = n // 8
    raw.append((-sum(raw)) % 256)
    return bytes(raw)


def _word(rng, lo=1, hi=14):
    return bytes(rng.choice(b'ABCDEFGHIJKLMNOPQRSTUVWXYZ0123456789-') for _ in range(rng.randrange(lo, hi)))


def build_image(rng, chassis=True, board=True, product=True, nrec=3, pad=0, corrupt=None):
    parts, offs = [], {}
    pos = 8
    if chassis:
        a = _area(bytes([rng.randrange(1, 24)]) + _tl(_word(rng)) + _tl(_word(rng)) + _tl(_word(rng)))
        offs['chassis'] = pos; parts.append(a); pos += len(a)
    if board:
        a = _area(bytes([25]) + bytes(rng.randrange(256) for _ in range(3)) + b''.join(_tl(_word(rng)) for _ in range(5)))
        offs['board'] = pos; parts.append(a); pos += len(a)
    if product:
        a = _area(bytes([25]) + b''.join(_tl(_word(rng, 1, 20)) for _ in range(7)))
        offs['product'] = pos; parts.append(a); pos += len(a)
    if nrec:
        offs['multirecord'] = pos
        for k in range(nrec):
            dat = bytes(rng.randrange(256) for _ in range(rng.choice([0, 1, 3, 8, 27, 40, 100, 255]) if k else rng.randrange(0, 60)))
            h = [rng.choice([1, 2, 3, 4, 5, 0xd0]), 0x02 | (0x80 if k == nrec - 1 else 0), len(dat), (-sum(dat)) % 256]
            h.append((-sum(h)) % 256)
            parts.append(bytes(h) + dat); pos += 5 + len(dat)
        padn = (-pos) % 8
        parts.append(bytes(padn)); pos += padn
    hdr = [1, 0, offs.get('chassis', 0) // 8, offs.get('board', 0) // 8, offs.get('product', 0) // 8,
           offs.get('multirecord', 0) // 8, 0]
    hdr.append((-sum(hdr)) % 256)
    img = bytearray(bytes(hdr) + b''.join(parts) + bytes(rng.randrange(256) for _ in range(pad)))
    if corrupt == 'header':
        img[7] ^= 0x10
    elif corrupt and corrupt in offs:
        img[offs[corrupt] + 2] ^= 0x55     # breaks the area checksum
    return bytes(img)


def image_layout(img):
    """Independent reading of the image: area name -> (offset, length) as the FRU spec defines them."""
    out = {}
    if len(img) < 8:
        return out
    for name, ix in (('chassis', 2), ('board', 3), ('product', 4)):
        off = img[ix] * 8
        if off and off + 2 <= len(img):
            out[name] = (off, img[off + 1] * 8)
    off = img[5] * 8
    if off:
        pos = off
        for _ in range(20000):
            if pos + 5 > len(img):
                break
            ln, last = img[pos + 2], img[pos + 1] & 0x80
            pos += 5 + ln
            if last:
                out['multirecord'] = (off, pos - off)
                break
    return out


# ---------------------------------------------------------------------------
def _connect(dev):
    ipmi, itf = F.connect(dev)
    return ipmi, itf


def _run(dev, fn):
    """Run fn(ipmi) against dev; returns (outcome, exchanges); outcome = ('ok', value) | ('err', exc)."""
    ipmi, itf = _connect(dev)
    try:
        v = fn(ipmi)
        return ('ok', v), itf.log
    except Exception as e:  # noqa
        return ('err', e), itf.log


def _req_id(x):
    """FRU id a recorded request addresses, read from its bytes (independent of the model)."""
    if x.netfn == NETFN_STORAGE and x.cmd in (CMD_INFO, CMD_READ, CMD_WRITE) and len(x.data) >= 1:
        return x.data[0]
    return None


def _mems_in(inp):
    return {int(k): bytes.fromhex(v) for k, v in inp['mems'].items()}


def _dev_in(inp):
    return FruDevice(_mems_in(inp), inp.get('limit', 255), inp.get('rej', 0xca), inp.get('acks'),
                     trunc=inp.get('trunc', False))


def oracle_read(inp):
    """read_fru_data(offset, count, fru_id) / whole area: exactly the stored bytes; every request names the id"""
    dev = _dev_in(inp)
    i, off, cnt = inp['id'], inp.get('off'), inp.get('cnt')
    out, log = _run(dev, lambda ipmi: ipmi.read_fru_data(offset=off, count=cnt, fru_id=i)
                    if off is not None else ipmi.read_fru_data(fru_id=i))
    mem = _mems_in(inp).get(i, b'')
    want = mem[off:off + cnt] if off is not None else mem
    bad = [x for x in log if _req_id(x) != i]
    if bad:
        return 'request %s addresses FRU %s, caller named %d' % (bad[0].data.hex(), _req_id(bad[0]), i)
    if out[0] == 'err':
        return 'raised %r although limit %d %s and the range is stored' % (
            out[1], inp.get('limit', 255), 'is served by short reads' if inp.get('trunc') else '>= 2')
    if bytes(out[1]) != want:
        return 'returned %d bytes differing from the stored range (first difference at %d)' % (
            len(out[1]), next((k for k, (a, b) in enumerate(zip(out[1], want)) if a != b), min(len(out[1]), len(want))))
    return None


def oracle_write(inp):
    """write_fru_data: bytes stored contiguously from the offset, others untouched; wrong acknowledgement -> error"""
    dev = _dev_in(inp)
    i, off, data, wl = inp['id'], inp['off'], bytes.fromhex(inp['data']), inp['wl']
    before = {k: bytes(v) for k, v in dev.mems.items()}

    def go(ipmi):
        ipmi.write_length = wl
        return ipmi.write_fru_data(data, offset=off, fru_id=i)
    out, log = _run(dev, go)
    bad = [x for x in log if _req_id(x) != i]
    if bad:
        return 'request %s addresses FRU %s, caller named %d' % (bad[0].data.hex(), _req_id(bad[0]), i)
    chunks = [data[k:k + wl] for k in range(0, len(data), wl)]
    wrong = [k for k, c in enumerate(chunks) if k in (inp.get('acks') or {}) and (inp['acks'][k] & 0xff) != len(c)]
    wrong = [k for k in wrong if True]
    acks = {int(k): v for k, v in (inp.get('acks') or {}).items()}
    wrong = [k for k, c in enumerate(chunks) if k in acks and acks[k] != len(c)]
    if wrong:
        if out[0] != 'err':
            return 'device acknowledged %d of %d bytes for chunk %d but no error was reported' % (
                acks[wrong[0]], len(chunks[wrong[0]]), wrong[0])
        if len(log) != wrong[0] + 1:
            return 'transfer went on after the wrongly acknowledged chunk %d (%d requests)' % (wrong[0], len(log))
        return None
    if out[0] == 'err':
        return 'raised %r although the device acknowledged every chunk' % (out[1],)
    for k, v in before.items():
        want = v[:off] + data + v[off + len(data):] if k == i else v
        if bytes(dev.mems[k]) != want:
            return 'memory of FRU %d after the write differs from the expected content' % k
    return None


AREAS = ('chassis', 'board', 'product', 'multirecord')


def _inv_canon(inv):
    out = []
    for name in ('chassis_info_area', 'board_info_area', 'product_info_area'):
        a = getattr(inv, name)
        out.append(None if a is None else bytes(getattr(a, 'data', b'')))
    m = inv.multirecord_area
    if m is None:
        out.append(None)
    else:
        recs = getattr(m, 'records', None)
        out.append(bytes(recs[0].data) if recs else b'')
    return out


def _area_of(img, off):
    """which part of the inventory a read offset belongs to, from the common header alone"""
    name, best = 'header', -1
    if len(img) >= 8:
        for k, ix in (('chassis', 2), ('board', 3), ('product', 4), ('multirecord', 5)):
            o = img[ix] * 8
            if o and best < o <= off:
                name, best = k, o
    return name


def oracle_inventory(inp):
    """get_fru_inventory(fru_id): every request names the id; the areas handed to the parsers are the stored ones"""
    dev = _dev_in(inp)
    i = inp['id']
    out, log = _run(dev, lambda ipmi: ipmi.get_fru_inventory(fru_id=i))
    img = _mems_in(inp).get(i, b'')
    bad = [x for x in log if _req_id(x) != i]
    if bad:
        x = bad[0]
        off = (x.data[1] | x.data[2] << 8) if len(x.data) >= 3 else 0
        return ('request %s (offset %d, in the %s part) addresses FRU %s, caller named %d'
                % (x.data.hex(), off, _area_of(img, off), _req_id(x), i))
    if inp.get('expect_ok'):
        if out[0] == 'err':
            return 'raised %r on a well-formed inventory' % (out[1],)
        lay = image_layout(img)
        got = _inv_canon(out[1])
        for name, g in zip(AREAS, got):
            want = None if name not in lay else img[lay[name][0]:lay[name][0] + lay[name][1]]
            if g != want:
                return '%s area bytes handed to the parser differ from the stored area' % name
    return None



# ---------------------------------------------------------------------------
# history stage: sequences of steps in ONE process on reused Ipmi objects (and on objects
# created after others) against controllers whose FRU memories persist.  Client steps: read
# (range / whole), write, inventory, info - some relying on the defaults (fru_id=0, offset=0,
# write_length as last set on the object) -, 'target' (ipmi.target switched to another
# controller).  Device-side steps: 'dev_set' (the FRU behind an id is replaced / resized).
# Every client step is judged against the state of the addressed controller AT THAT MOMENT,
# which the oracle keeps itself (so a shrunk history is judged as correctly as the original).
class NoProgress(RuntimeError):
    pass


class Controllers:
    """routes a request to the FRU device of the controller the request's target names"""

    def __init__(self, ctrl, limit, rej):
        self.devs = {int(a): FruDevice({int(k): bytes.fromhex(v) for k, v in c['mems'].items()}, limit, rej,
                                       max_requests=300000) for a, c in ctrl.items()}

    budget = None       # requests the current client step may still issue (None: unlimited)

    def __call__(self, netfn, cmd, lun, data, req):
        if self.budget is not None:
            self.budget -= 1
            if self.budget < 0:
                raise NoProgress('step issued more requests than any correct transfer of this size needs')
        addr = getattr(getattr(req, 'target', None), 'ipmb_address', None)
        dev = self.devs.get(addr)
        if dev is None:
            return b'\xc3'
        return dev(netfn, cmd, lun, data, req)


def _apply_call(ipmi, c):
    op = c['op']
    kw = {}
    if c.get('id') is not None:
        kw['fru_id'] = c['id']
    if op == 'read':
        if c.get('off') is not None:
            kw.update(offset=c['off'], count=c['cnt'])
        return ipmi.read_fru_data(**kw)
    if op == 'write':
        if c.get('wl') is not None:
            ipmi.write_length = c['wl']
        if c.get('off') is not None:
            kw['offset'] = c['off']
        return ipmi.write_fru_data(bytes.fromhex(c['data']), **kw)
    if op == 'inventory':
        return ipmi.get_fru_inventory(**kw)
    if op == 'info':
        return ipmi.get_fru_inventory_area_info(**kw)
    if op == 'full':
        return ipmi.read_fru_data_full(**kw)
    raise ValueError(op)


def exec_history(inp):
    """Run the steps; yields per client call: (n, call, outcome, exchanges, memories of the addressed
    controller before the call, its device, effective write_length)"""
    import pyipmi
    net = Controllers(inp['ctrl'], inp.get('limit', 255), inp.get('rej', 0xca))
    objs, wls, tgt = {}, {}, {}
    for n, c in enumerate(inp['calls']):
        if c['op'] == 'dev_set':
            d = net.devs.get(int(c['addr']))
            if d is not None:
                d.mems[int(c['id'])] = bytearray(bytes.fromhex(c['mem']))
            continue
        if c['op'] == 'dev_ack':
            # the k-th chunk of the NEXT write to this controller is acknowledged with w bytes
            d = net.devs.get(int(c['addr']))
            if d is not None:
                d.acks = {d.writes + int(k): w for k, w in c['acks'].items()}
            continue
        o = c.get('obj', 'A')
        if o not in objs:
            objs[o] = F.connect(net)
            wls[o], tgt[o] = 16, 0x20
        ipmi, itf = objs[o]
        if c['op'] == 'target':
            ipmi.target = pyipmi.Target(c['addr'])
            tgt[o] = c['addr']
            continue
        if c['op'] == 'write' and c.get('wl') is not None:
            wls[o] = c['wl']
        dev = net.devs.get(tgt[o])
        before = {k: bytes(v) for k, v in dev.mems.items()} if dev else {}
        acks = {k - dev.writes: w for k, w in dev.acks.items()} if dev and c['op'] == 'write' else {}
        start = len(itf.log)
        # no correct step needs more than ~ (bytes/1 + back-off) requests per transfer, five transfers
        net.budget = 6 * (max([len(v) for v in before.values()] + [0]) + 100)
        try:
            out = ('ok', _apply_call(ipmi, c))
        except Exception as e:  # noqa
            out = ('err', e)
        net.budget = None
        if dev and c['op'] == 'write':
            dev.acks = {}
        yield n, c, out, itf.log[start:], before, dev, wls[o], tgt[o], acks


def image_well_formed(img):
    """independent structural validation of a FRU image: header and area checksums, areas and
    the multi-record chain inside the image (then get_fru_inventory is expected to succeed)"""
    if len(img) < 8 or sum(img[:8]) % 256 or (img[0] & 0x0f) != 1:
        return False
    for ix in (2, 3, 4):
        off = img[ix] * 8
        if off:
            if off + 2 > len(img):
                return False
            n = img[off + 1] * 8
            if n < 8 or off + n > len(img) or (img[off] & 0x0f) != 1 or sum(img[off:off + n]) % 256:
                return False
    off = img[5] * 8
    if off:
        pos = off
        while True:
            if pos + 5 > len(img) or sum(img[pos:pos + 5]) % 256:
                return False
            ln = img[pos + 2]
            if pos + 5 + ln > len(img) or (sum(img[pos + 5:pos + 5 + ln]) + img[pos + 3]) % 256:
                return False
            last = img[pos + 1] & 0x80
            pos += 5 + ln
            if last:
                break
    return True


def judge_fru_call(c, out, seg, ref, dev, wl, acks=None):
    """(failure class, message) or None; ref = the oracle's own copy of the addressed controller's
    memories, updated here by writes"""
    from pyipmi.errors import CompletionCodeError
    i = c['id'] if c.get('id') is not None else 0
    if out[0] == 'err' and isinstance(out[1], NoProgress):
        return 'no-progress', 'no progress: %d requests issued and still not finished (last: %s)' % (
            len(seg), seg[-1].data.hex() if seg else '-')
    bad = [x for x in seg if _req_id(x) != i]
    if bad:
        return 'wrong-fru-id', 'request %s addresses FRU %s, not %d' % (bad[0].data.hex(), _req_id(bad[0]), i)
    mem = bytes(ref.get(i, b''))
    op = c['op']
    if op == 'info':
        if out[0] == 'err' or out[1] != len(mem):
            return 'wrong-size', 'area size %r, FRU %d stores %d bytes' % (out[1], i, len(mem))
    elif op in ('read', 'full'):
        whole = op == 'full' or c.get('off') is None
        off, cnt = (0, len(mem)) if whole else (c['off'], c['cnt'])
        if off + cnt > len(mem):
            if out[0] != 'err' or not isinstance(out[1], CompletionCodeError):
                return 'range-not-refused', 'range %d+%d lies outside the %d bytes FRU %d stores, got %r' % (off, cnt, len(mem), i, out[1])
        elif out[0] == 'err':
            return ('whole-raises' if whole else 'range-raises'), 'raised %r, FRU %d stores %d bytes' % (out[1], i, len(mem))
        elif bytes(out[1]) != mem[off:off + cnt]:
            return (('whole' if whole else 'range') + '-wrong-bytes',
                    'returned %d bytes, FRU %d stores %d in that range now (equal prefix: %s)'
                    % (len(out[1]), i, cnt, bytes(out[1]) == mem[off:off + len(out[1])]))
    elif op == 'write':
        data, off = bytes.fromhex(c['data']), c.get('off') or 0
        m = ref.setdefault(i, bytearray())
        fail = False
        for j, k in enumerate(range(0, len(data), wl)):
            ch = data[k:k + wl]
            if off + k + len(ch) > len(m):
                fail = True
                break
            w = (acks or {}).get(j, len(ch))
            st = ch[:w]
            m[off + k:off + k + len(st)] = st
            if w != len(ch):        # acknowledged another count: must be reported, nothing further sent
                fail = True
                break
        if fail != (out[0] == 'err'):
            return 'write-outcome', ('raised %r although every chunk fits and is acknowledged in full' % (out[1],)
                                     if out[0] == 'err' else
                                     'no error although a chunk lies outside the %d bytes of FRU %d or was acknowledged short' % (len(m), i))
        for k, v in ref.items():
            if bytes(dev.mems.get(k, b'')) != bytes(v):
                return 'write-memory', 'memory of FRU %d differs from the expected content' % k
    elif op == 'inventory':
        if image_well_formed(mem):
            if out[0] == 'err':
                return 'inventory-raises', 'raised %r on a well-formed inventory' % (out[1],)
            lay = image_layout(mem)
            for name, g in zip(AREAS, _inv_canon(out[1])):
                want = None if name not in lay else mem[lay[name][0]:lay[name][0] + lay[name][1]]
                if g != want:
                    return 'inventory-area', '%s area handed to the parser differs from the area FRU %d stores' % (name, i)
    return None


def oracle_fru_seq(inp):
    """every client step behaves as if it were the only one, on the state the controllers are in then"""
    ref = {int(a): {int(k): bytearray(bytes.fromhex(v)) for k, v in c['mems'].items()} for a, c in inp['ctrl'].items()}
    pending = {}

    def settle(upto):
        for n, c in enumerate(inp['calls'][:upto]):
            if c['op'] == 'dev_set' and n not in pending:
                pending[n] = True
                if int(c['addr']) in ref:
                    ref[int(c['addr'])][int(c['id'])] = bytearray(bytes.fromhex(c['mem']))
    for n, c, out, seg, before, dev, wl, addr, acks in exec_history(inp):
        settle(n)
        try:
            r = judge_fru_call(c, out, seg, ref.get(addr, {}), dev, wl, acks)
        except Exception as e:  # noqa
            r = ('unjudgeable', 'result could not be examined: %r' % (e,))
        if r and inp.get('only_key') in (None, r[0]):
            return 'step %d (%s) of the sequence: %s' % (n, {k: v for k, v in c.items() if k not in ('data', 'mem')}, r[1]), r[0]
    return None


def _fru_seq(inp):
    r = oracle_fru_seq(inp)
    return r[0] if r else None


ORACLES = {'read': oracle_read, 'write': oracle_write, 'inventory': oracle_inventory, 'fru_seq': _fru_seq}


def _safe(f):
    def g(inp):
        try:
            return f(inp)
        except Exception as e:  # noqa  (an oracle never crashes on what the implementation returned)
            return 'the result could not be examined: %r' % (e,)
    return g


ORACLES = {k: _safe(v) for k, v in ORACLES.items()}


def replay(data):
    r = data['replay']
    if 'oracle' not in r:
        print('replay file names a broken proof obligation / correspondence, not an input')
        return False
    return ORACLES[r['oracle']](r['input']) is None


# ---------------------------------------------------------------------------
# Coq literals
def c_ex(log):
    return C.c_list(['(%s, %s)' % (F.c_request(x), F.c_reply(x)) for x in log])


def c_mems(mems):
    return C.c_list(['(%d, %s)' % (k, C.c_hex(v)) for k, v in sorted(mems.items())])


def c_res(out, okfmt):
    return '(Ok %s)' % okfmt(out[1]) if out[0] == 'ok' else '(Err %s)' % F.c_outcome_err(out[1])


def c_rng(off, cnt):
    return 'None' if off is None else '(Some (%d, %d))' % (off, cnt)


def c_acks(acks):
    return C.c_list(['(%s, %d)' % (C.c_nat(k), v) for k, v in sorted((acks or {}).items())])


def run(ctx):
    import pyipmi.fru as pf
    import pyipmi.errors as PE
    rng = ctx.rng
    q = ctx.quick
    res = C.Result(model_map=MODEL_MAP)
    D = C.Distinct()
    terms, meta, fails = [], [], {}

    def add(term, info):
        terms.append(term)
        meta.append(info)

    def oracle(name, inp, key):
        res.evaluations += 1
        msg = ORACLES[name](inp)
        if msg and key not in fails:
            fails[key] = C.Violation(key=key, what=msg, replay={'oracle': name, 'input': inp})
        return msg

    def hexmems(mems):
        return {str(k): bytes(v).hex() for k, v in mems.items()}

    def rnd(n):
        return bytes(rng.getrandbits(8) for _ in range(n))

    # ---------------------------------------------------------------- reads
    def read_case(mems, limit, rej, i, off, cnt, corr=True, kind='read', trunc=False):
        inp = {'mems': hexmems(mems), 'limit': limit, 'rej': rej, 'id': i, 'off': off, 'cnt': cnt}
        if trunc:
            inp['trunc'] = True
        msg = oracle('read', inp, 'read_fru_data:%s%s' % ('range' if off is not None else 'whole',
                                                          '-short-reads' if trunc else ''))
        if corr and trunc:
            dev = FruDevice(mems, limit, rej, trunc=True)
            out, log = _run(dev, lambda ipmi: ipmi.read_fru_data(offset=off, count=cnt, fru_id=i)
                            if off is not None else ipmi.read_fru_data(fru_id=i))
            add('chk_read %s %d %s %s' % (c_rng(off, cnt), i, c_ex(log), c_res(out, C.c_hex)),
                {'kind': kind, 'limit': limit, 'id': i, 'off': off, 'cnt': cnt, 'trunc': True})
        elif corr:
            dev = FruDevice(mems, limit, rej)
            out, log = _run(dev, lambda ipmi: ipmi.read_fru_data(offset=off, count=cnt, fru_id=i)
                            if off is not None else ipmi.read_fru_data(fru_id=i))
            ex = c_ex(log)
            add('(let ex := %s in chk_read %s %d ex %s && chk_dev %s %d %d [] ex [])'
                % (ex, c_rng(off, cnt), i, c_res(out, C.c_hex), c_mems(mems), limit, rej),
                {'kind': kind, 'limit': limit, 'rej': rej, 'id': i, 'off': off, 'cnt': cnt, 'size': len(mems.get(i, b''))})
        D.add((kind, len(mems.get(i, b'')), limit, rej, i, off, cnt), True,
              '%s limit=%s' % (kind, 'small' if limit < 32 else 'large'))

    limits = list(range(2, 41)) + [63, 64, 255]
    # (a) exhaustive small ranges: counts 0..40 x limits 2..9 x three offsets x rejection codes (oracle);
    #     a third of them also through the correspondence
    small = {3: rnd(96), 0: rnd(96), 255: rnd(96)}
    n = 0
    for cnt in range(0, 41):
        for limit in range(2, 10):
            for off in (0, 7, 96 - cnt):
                rej = REJ[n % 3]
                read_case(small, limit, rej, (3, 0, 255)[n % 3], off, cnt, corr=(n % 3 == 0) or not q, kind='read-small')
                n += 1
    # (b) every limit, sizes around chunk boundaries, whole-area and range forms
    sizes = [0, 1, 2, 31, 32, 33, 63, 64, 65, 100, 255, 256, 257, 1000]
    for limit in limits:
        for rej in REJ:
            size = rng.choice(sizes)
            ids = rng.sample(range(256), 3)
            mems = {j: rnd(size + 5 * k) for k, j in enumerate(ids)}
            i = ids[1]
            read_case(mems, limit, rej, i, None, None, kind='read-whole')
            sz = len(mems[i])
            off = rng.choice([0, 1, sz // 2, max(0, sz - 1), sz])
            cnt = rng.choice([0, 1, 2, 3, 5, 8, 31, 32, 33, 64, sz - off])
            cnt = max(0, min(cnt, sz - off))
            read_case(mems, limit, rej, i, off, cnt, kind='read-range')
    # (c) large contents: 4 KiB quick, up to 64 KiB thorough; 256 ids with distinct contents
    big = [4096] if q else [4096, 20000, 65535]
    for size in big:
        for limit, rej in ((2, 0xc8), (17, 0xc9), (255, 0xca)):
            mems = {j: rnd(size if j == 9 else 40) for j in (0, 9, 200)}
            # whole-area reads of the large contents go through Coq only for limits >= 17 (the model's
            # accumulating append is quadratic under vm_compute); the oracle runs on all of them
            read_case(mems, limit, rej, 9, None, None, kind='read-big', corr=(size <= 4096 or limit >= 17))
            read_case(mems, limit, rej, 9, size - 1000 if size > 1000 else 0, min(size, 1000), kind='read-big')
    if not q:
        mems = {9: rnd(65536)}
        read_case(mems, 32, 0xca, 9, 65536 - 4000, 4000, kind='read-64k-end')
        read_case(mems, 5, 0xc8, 9, 65536 - 100, 100, kind='read-64k-end')
    allids = {j: bytes([j]) * 3 + rnd(37) for j in range(256)}
    for j in (range(0, 256, 5) if q else range(256)):
        read_case(allids, rng.choice(limits), rng.choice(REJ), j, rng.randrange(0, 20), rng.randrange(0, 20),
                  corr=(j % 25 == 0), kind='read-ids')

    # (c') a device that serves short reads (count returned < count requested) instead of rejecting:
    #      outside the property's quantifier, legal IPMI; pins the use of rsp.count
    for limit in (1, 2, 3, 7, 16, 31):
        mems = {6: rnd(100), 0: rnd(100)}
        read_case(mems, limit, 0xca, 6, None, None, kind='read-short-reads', trunc=True)
        read_case(mems, limit, 0xca, 6, 11, 70, kind='read-short-reads', trunc=True)
    # (d) non-conforming replies (decoding tie only; the property assumes a conforming device)
    scripts = [
        {0: b''}, {0: b'\x00'}, {0: b'\x00\x05abc'}, {0: b'\x00\x02abcd'}, {1: b'\xc0'}, {0: b'\xc3'},
        {0: b'\xff'}, {1: PE.IpmiTimeoutError()}, {0: b'\x00\x01Z'}, {2: b'\x00\x03xyz'},
        {0: b'\xca', 1: b'\xca', 2: b'\x00\x02ab'}, {0: b'\xc9'}, {0: b'\xc8', 1: b'\xd5'},
    ]
    for sc in scripts:
        for (off, cnt) in ((0, 40), (3, 2), (None, None)):
            mems = {4: rnd(64)}
            dev = FruDevice(mems, 255, 0xca, script=dict(sc), max_requests=300)
            out, log = _run(dev, lambda ipmi: ipmi.read_fru_data(offset=off, count=cnt, fru_id=4)
                            if off is not None else ipmi.read_fru_data(fru_id=4))
            add('chk_read %s 4 %s %s' % (c_rng(off, cnt), c_ex(log), c_res(out, C.c_hex)),
                {'kind': 'read-script', 'script': {k: (v.hex() if isinstance(v, bytes) else repr(v)) for k, v in sc.items()},
                 'off': off, 'cnt': cnt})
            D.add(('script', repr(sc), off, cnt), True, 'read-nonconforming-device')
    for sc in ({0: b'\x00\x00\x01'}, {0: b'\x00\x40\x00\x00\x00'}, {0: b'\xc1'}, {0: b'\x00\x10\x00\x00'}):
        dev = FruDevice({4: rnd(64)}, 255, 0xca, script=dict(sc), max_requests=300)
        out, log = _run(dev, lambda ipmi: ipmi.read_fru_data(fru_id=4))
        add('chk_read None 4 %s %s' % (c_ex(log), c_res(out, C.c_hex)), {'kind': 'info-script', 'script': repr(sc)})
        D.add(('iscript', repr(sc)), True, 'read-nonconforming-device')

    # ---------------------------------------------------------------- writes
    def write_case(mems, i, off, data, wl, acks=None, corr=True):
        inp = {'mems': hexmems(mems), 'id': i, 'off': off, 'data': data.hex(), 'wl': wl,
               'acks': {str(k): v for k, v in (acks or {}).items()}}
        oracle('write', inp, 'write_fru_data:%s' % ('mismatch-not-reported' if acks else 'stored-content'))
        if corr:
            dev = FruDevice(mems, 255, 0xca, acks=acks)

            def go(ipmi):
                ipmi.write_length = wl
                return ipmi.write_fru_data(data, offset=off, fru_id=i)
            out, log = _run(dev, go)
            add('(let ex := %s in chk_write %d %s %d %d ex %s && chk_dev %s 255 202 %s ex %s)'
                % (c_ex(log), wl, C.c_hex(data), off, i, c_res(out, lambda v: 'tt'), c_mems(mems), c_acks(acks),
                   c_mems({k: bytes(v) for k, v in dev.mems.items()})),
                {'kind': 'write', 'id': i, 'off': off, 'len': len(data), 'wl': wl, 'acks': acks})
        D.add(('write', i, off, data, wl, repr(acks)), True, 'write-mismatch' if acks else 'write')

    for wl in list(range(1, 33)) + [40, 64, 200, 255]:
        for rep in range(1 if q else 4):
            size = rng.choice([64, 300, 1000])
            ids = rng.sample(range(256), 2)
            mems = {ids[0]: rnd(size), ids[1]: rnd(50)}
            ln = rng.choice([0, 1, wl - 1, wl, wl + 1, 2 * wl, 2 * wl + 1, 3 * wl - 1, rng.randrange(0, 5 * wl + 1)])
            ln = max(0, min(ln, size))
            off = rng.choice([0, min(1, size - ln), size - ln, rng.randrange(0, size - ln + 1)])
            write_case(mems, ids[0], off, rnd(ln), wl)
            # one wrongly acknowledged chunk at each position (first, middle, last)
            data = rnd(min(size, 3 * wl + 2))
            nch = (len(data) + wl - 1) // wl
            for k in sorted({0, nch // 2, nch - 1}):
                clen = len(data[k * wl:(k + 1) * wl])
                w = rng.choice([x for x in (0, clen - 1, clen + 1, 255) if 0 <= x <= 255 and x != clen])
                write_case(mems, ids[0], 0, data, wl, acks={k: w})
    if not q:
        mems = {1: rnd(65536)}
        write_case(mems, 1, 65536 - 5000, rnd(5000), 16)
        write_case(mems, 1, 0, rnd(65536), 255)
    # write_length 0 and decoding of non-conforming acknowledgements
    for sc, wl in (({}, 0), ({0: b'\x00'}, 16), ({0: b'\x00\x10\x00'}, 16), ({1: b'\xd5'}, 4), ({0: b''}, 16),
                   ({1: PE.IpmiTimeoutError()}, 4)):
        dev = FruDevice({2: rnd(64)}, script=dict(sc), max_requests=300)
        data = rnd(16)

        def go(ipmi):
            ipmi.write_length = wl
            return ipmi.write_fru_data(data, offset=5, fru_id=2)
        out, log = _run(dev, go)
        add('chk_write %d %s 5 2 %s %s' % (wl, C.c_hex(data), c_ex(log), c_res(out, lambda v: 'tt')),
            {'kind': 'write-script', 'wl': wl, 'script': repr(sc)})
        D.add(('wscript', repr(sc), wl), True, 'write-nonconforming-device')

    # ---------------------------------------------------------------- inventory
    images = []
    fb = C.REPO / 'tests' / 'fru_bin'
    for p in sorted(fb.glob('*.bin')) if fb.is_dir() else []:
        images.append((p.name, p.read_bytes(), True))
    for k in range(6 if q else 40):
        images.append(('synth%d' % k,
                       build_image(rng, chassis=rng.random() < .8, board=rng.random() < .8, product=rng.random() < .8,
                                   nrec=rng.choice([0, 1, 2, 3, 6]), pad=rng.choice([0, 16, 100])), True))
    for cor in ('header', 'chassis', 'board', 'product'):
        images.append(('corrupt-' + cor, build_image(rng, corrupt=cor), False))
    images.append(('garbage', rnd(512), False))
    images.append(('no-end-of-list', build_image(rng, nrec=2)[:-8].replace(b'\x82', b'\x02'), False))
    kinds = {'chassis': (1, 'InventoryChassisInfoArea'), 'board': (2, 'InventoryBoardInfoArea'),
             'product': (3, 'InventoryProductInfoArea'), 'multirecord': (4, 'InventoryMultiRecordArea')}

    def parse_table(img):
        tbl = []
        for name, (o, n) in image_layout(img).items():
            d = img[o:o + n]
            if not d:
                continue
            try:
                getattr(pf, kinds[name][1])(d)
            except Exception as e:  # noqa
                tbl.append('(%d, %s)' % (kinds[name][0], C.c_err(C.exc_class(e))))
        return C.c_list(tbl)

    def fmt_inv(v):
        return C.c_list([C.c_opt(None if b is None else C.c_hex(b)) for b in _inv_canon(v)])

    idsets = [(0, 1, 2), (5, 0, 77), (255, 254, 0), (17, 18, 19)]
    for k, (name, img, ok) in enumerate(images):
        for rep in range(2 if q else 4):
            ids = idsets[(k + rep) % len(idsets)]
            i = ids[rep % 3]
            others = [im for (_, im, good) in images if good and im != img]
            mems = {j: (img if j == i else rng.choice(others)) for j in ids}
            limit, rej = rng.choice([2, 3, 8, 16, 25, 32, 255]), rng.choice(REJ)
            inp = {'mems': hexmems(mems), 'limit': limit, 'rej': rej, 'id': i, 'expect_ok': ok}
            msg = oracle('inventory', inp, 'get_fru_inventory:ids-and-areas')
            if msg and 'addresses FRU' in msg:
                # canonical call-site key: which part of the inventory read named another FRU
                part = msg.split('in the ')[1].split(' part')[0]
                v = fails.pop('get_fru_inventory:ids-and-areas', None)
                key = 'get_fru_inventory:wrong-fru-id:' + part
                if v is not None and key not in fails:
                    v.key = key
                    fails[key] = v
            dev = FruDevice(mems, limit, rej, max_requests=5000)
            out, log = _run(dev, lambda ipmi: ipmi.get_fru_inventory(fru_id=i))
            add('(let ex := %s in chk_inv %s %d ex %s && chk_dev %s %d %d [] ex [])'
                % (c_ex(log), parse_table(img), i, c_res(out, fmt_inv), c_mems(mems), limit, rej),
                {'kind': 'inventory', 'image': name, 'id': i, 'limit': limit, 'rej': rej, 'requests': len(log)})
            D.add(('inv', name, i, limit, rej), True, 'inventory id=%s' % ('0' if i == 0 else 'non-zero'))
            # each info area of well-formed images alone: through the public get_fru_<area>_area methods, and
            # (optional fast path, only while the library has it) through the private helper they use
            if ok and rep == 0:
                public = {'chassis': ('get_fru_chassis_area', 1), 'board': ('get_fru_board_area', 2),
                          'product': ('get_fru_product_area', 3)}
                for nm, (o, n) in image_layout(img).items():
                    if nm not in public:
                        continue
                    meth, kind = public[nm]
                    dev = FruDevice(mems, limit, rej)
                    out, log = _run(dev, lambda ipmi: getattr(ipmi, meth)(fru_id=i))
                    got = ('ok', bytes(getattr(out[1], 'data', b''))) if out[0] == 'ok' else out
                    add('chk_infoarea %s %d %d %s %s' % (parse_table(img), kind, i, c_ex(log), c_res(got, C.c_hex)),
                        {'kind': 'info-area', 'image': name, 'area': nm})
                    res.evaluations += 1
                    if got[0] != 'ok' or got[1] != img[o:o + n] or any(_req_id(x) != i for x in log):
                        vkey = '%s:wrong-bytes-or-id' % meth
                        fails.setdefault(vkey, C.Violation(key=vkey, what='area %s of %s read wrongly' % (nm, name),
                                                        replay={'oracle': 'inventory', 'input': inp}))
                    dev = FruDevice(mems, limit, rej)
                    ipmi0, _ = F.connect(dev)
                    if not callable(getattr(ipmi0, '_read_fru_area', None)):
                        continue
                    out, log = _run(dev, lambda ipmi: ipmi._read_fru_area(o, fru_id=i))
                    if out[0] == 'err' and isinstance(out[1], (TypeError, AttributeError)):
                        continue          # private helper present but reshaped: not part of any interface
                    add('chk_area (Some %d) %d %s %s' % (o, i, c_ex(log), c_res(out, C.c_hex)),
                        {'kind': 'area', 'image': name, 'area': nm})
                    res.evaluations += 1
                    if out[0] != 'ok' or bytes(out[1]) != img[o:o + n] or any(_req_id(x) != i for x in log):
                        fails.setdefault('_read_fru_area:wrong-bytes-or-id', C.Violation(
                            key='_read_fru_area:wrong-bytes-or-id', what='area %s of %s read wrongly' % (nm, name),
                            replay={'oracle': 'inventory', 'input': inp}))

    # ---------------------------------------------------------------- history stage
    good = [im for (_, im, ok) in images if ok and len(im) <= 1200] or [im for (_, im, ok) in images if ok]
    for hno in range(5 if q else 30):
        ids = [0] + rng.sample(range(1, 256), 2)
        addrs = [0x20, rng.choice([0x82, 0x84, 0x72])]
        cur = {a: {j: rng.choice(good) for j in ids} for a in addrs}      # generator's view of the memories
        ctrl = {str(a): {'mems': hexmems(m)} for a, m in cur.items()}
        tgt = {'A': 0x20, 'B': 0x20}
        limit, rej = rng.choice([2, 5, 16, 31, 255]), rng.choice(REJ)
        calls = []

        def client_call(op=None, obj=None, i='rand'):
            obj = obj or rng.choice('AAB')
            i = rng.choice(ids + [None, None]) if i == 'rand' else i    # None: rely on the default fru_id=0
            mem = cur[tgt[obj]][i if i is not None else 0]
            size = len(mem)
            op = op or rng.choice(['read', 'read', 'whole', 'full', 'write', 'inventory', 'info'])
            c = {'op': op, 'id': i, 'obj': obj}
            if op == 'whole':
                c.update(op='read', off=None)
            elif op == 'read':
                c['off'] = rng.randrange(0, size)
                c['cnt'] = rng.randrange(0, min(90, size - c['off']) + 1)
            elif op == 'write':
                lay = image_layout(mem)            # write behind the areas: inventories stay well-formed
                end = max([8] + [o + n for (o, n) in lay.values()])
                if size - end < 4:
                    c.update(op='read', off=None)
                else:
                    off = rng.randrange(end, size - 1)
                    data = rnd(rng.randrange(1, min(70, size - off) + 1))
                    c.update(off=off, data=data.hex(), wl=rng.choice([None, None, 1, 7, 16, 32, 200]))
                    if c['wl'] is not None:
                        wlnow[obj] = c['wl']
                    m = bytearray(mem)
                    m[off:off + len(data)] = data
                    cur[tgt[obj]][i if i is not None else 0] = bytes(m)
            calls.append(c)

        def dev_set(addr, i):
            old = cur[addr][i]
            new = rng.choice([im for im in good if len(im) != len(old)] or good)
            if rng.random() < 0.3:
                new = new + rnd(rng.choice([8, 64]))                       # same layout, other size
            cur[addr][i] = new
            calls.append({'op': 'dev_set', 'addr': addr, 'id': i, 'mem': new.hex()})

        def switch(obj):
            tgt[obj] = addrs[1] if tgt[obj] == addrs[0] else addrs[0]
            calls.append({'op': 'target', 'obj': obj, 'addr': tgt[obj]})

        def failing_step(obj=None, kind=None):
            """a step that must fail, from the state the controllers are in"""
            obj = obj or rng.choice('AAB')
            kind = kind or rng.choice(['range-past-end', 'range-past-end', 'unknown-id', 'write-past-end', 'short-ack'])
            i = rng.choice(ids + [None])
            mem = cur[tgt[obj]][i if i is not None else 0]
            size = len(mem)
            if kind == 'range-past-end':          # rejected with 0xC9 at every request size
                off = rng.choice([size, size + 1, size + 40, max(0, size - 3)])
                calls.append({'op': 'read', 'id': i, 'obj': obj, 'off': off, 'cnt': rng.choice([4, 5, 17, 32, 33, 60])})
            elif kind == 'unknown-id':            # a FRU id the controller does not have: empty area
                j = rng.choice([x for x in range(1, 256) if x not in ids])
                calls.append({'op': 'read', 'id': j, 'obj': obj, 'off': rng.choice([0, 8]), 'cnt': rng.choice([1, 8, 40])})
            elif kind == 'write-past-end':
                calls.append({'op': 'write', 'id': i, 'obj': obj, 'off': max(0, size - 5), 'data': rnd(40).hex(),
                              'wl': rng.choice([None, 4, 16])})
                # chunks that fit are stored before the refused one: the generator's view follows the oracle's rule
                wl_eff = calls[-1]['wl']
                if wl_eff is not None:
                    wlnow[obj] = wl_eff
                m = bytearray(mem)
                data = bytes.fromhex(calls[-1]['data'])
                for k in range(0, len(data), wlnow[obj]):
                    ch = data[k:k + wlnow[obj]]
                    if size - 5 + k + len(ch) > size:
                        break
                    m[size - 5 + k:size - 5 + k + len(ch)] = ch
                cur[tgt[obj]][i if i is not None else 0] = bytes(m)
            else:                                 # the device acknowledges one chunk short / long
                lay = image_layout(mem)
                end = max([8] + [o + n for (o, n) in lay.values()])
                if size - end < 40:
                    return failing_step(obj, 'range-past-end')
                wl_eff = rng.choice([4, 16])
                wlnow[obj] = wl_eff
                data = rnd(3 * wl_eff + 2)
                k = rng.randrange(0, 4)
                clen = len(data[k * wl_eff:(k + 1) * wl_eff])
                w = rng.choice([x for x in (0, clen - 1, clen + 1) if x != clen and x >= 0])
                calls.append({'op': 'dev_ack', 'addr': tgt[obj], 'acks': {str(k): w}})
                calls.append({'op': 'write', 'id': i, 'obj': obj, 'off': end, 'data': data.hex(), 'wl': wl_eff})
                m = bytearray(mem)
                for j in range(0, k):
                    m[end + j * wl_eff:end + (j + 1) * wl_eff] = data[j * wl_eff:(j + 1) * wl_eff]
                st = data[k * wl_eff:(k + 1) * wl_eff][:w]
                m[end + k * wl_eff:end + k * wl_eff + len(st)] = st
                cur[tgt[obj]][i if i is not None else 0] = bytes(m)

        wlnow = {'A': 16, 'B': 16}
        for _ in range(rng.randrange(8, 16)):
            r = rng.random()
            if r < 0.12:
                dev_set(rng.choice(addrs), rng.choice(ids))
            elif r < 0.3:
                failing_step()
            elif r < 0.22:
                switch(rng.choice('AB'))
            else:
                client_call()
        # write, read the same range back, read the whole area (C10_write_then_read / _whole)
        for pat in range(2):
            obj, i = rng.choice('AB'), rng.choice(ids + [None])
            client_call('write', obj, i)
            w = calls[-1]
            if w['op'] == 'write':
                calls.append({'op': 'read', 'id': i, 'obj': obj, 'off': w['off'], 'cnt': len(w['data']) // 2})
                calls.append({'op': 'full', 'id': i, 'obj': rng.choice('AB')})
        # a step that must fail, then ordinary operations on the SAME object
        for pat in range(2):
            obj = rng.choice('AB')
            failing_step(obj)
            client_call(rng.choice(['read', 'whole', 'full']), obj)
            client_call(None, obj)
        # directed patterns on ONE object: full read / size / inventory of an id, then the FRU behind that
        # id changes on the device side (replaced, or the target is switched), then the same again
        for pat in range(2):
            obj, i = rng.choice('AB'), rng.choice(ids + [None])
            first = rng.choice(['whole', 'info', 'inventory'])
            client_call(first, obj, i)
            if rng.random() < 0.5:
                dev_set(tgt[obj], i if i is not None else 0)
            else:
                switch(obj)
            client_call(rng.choice(['whole', 'inventory', 'whole']), obj, i)
            client_call()
        inp = {'ctrl': ctrl, 'limit': limit, 'rej': rej, 'calls': calls}
        res.evaluations += len(calls)
        r = oracle_fru_seq(inp)
        if r:
            key = 'fru-history:' + r[1]
            if key not in fails:
                extra = {'ctrl': ctrl, 'limit': limit, 'rej': rej, 'only_key': r[1]}
                seq = C.shrink_history('C10', 'fru_seq', calls, extra=extra) or calls
                inp2 = dict(extra, calls=seq)
                fails[key] = C.Violation(key=key, what=(_fru_seq(inp2) or r[0]) + ' [history of %d step(s)]' % len(seq),
                                         replay={'oracle': 'fru_seq', 'input': inp2})
        # correspondence: every client step of the history against the stateless model and the Gallina device
        for n, c, out, seg, before, dev, wl, addr, acks in exec_history(inp):
            i = c['id'] if c.get('id') is not None else 0
            after = c_mems({k: bytes(v) for k, v in dev.mems.items()})
            devt = 'chk_dev %s %d %d %s ex %s' % (c_mems(before), limit, rej, c_acks(acks), after)
            if c['op'] == 'read':
                t = 'chk_read %s %d ex %s' % (c_rng(c.get('off'), c.get('cnt')), i, c_res(out, C.c_hex))
            elif c['op'] == 'full':
                t = 'chk_read None %d ex %s' % (i, c_res(out, C.c_hex))
            elif c['op'] == 'write':
                t = 'chk_write %d %s %d %d ex %s' % (wl, C.c_hex(bytes.fromhex(c['data'])), c.get('off') or 0, i,
                                                    c_res(out, lambda v: 'tt'))
            elif c['op'] == 'info':
                t = 'chk_info %d ex %s' % (i, c_res(out, str))
            else:
                t = 'chk_inv %s %d ex %s' % (parse_table(before.get(i, b'')), i, c_res(out, fmt_inv))
            add('(let ex := %s in %s && %s)' % (c_ex(seg), t, devt), {'kind': 'history', 'history': hno, 'step': n,
                                                                      'op': c['op'], 'id': c.get('id'), 'obj': c.get('obj')})
            D.add(('hist', hno, n, c['op'], c.get('id'), c.get('off'), c.get('cnt'), c.get('wl')), True,
                  'history %s%s' % (c['op'], ' default-id' if c.get('id') is None else ''))

    # the 64 KiB cases are 100k-character literals: give the coqc children the full stack
    try:
        import resource
        soft, hard = resource.getrlimit(resource.RLIMIT_STACK)
        resource.setrlimit(resource.RLIMIT_STACK, (hard, hard))
    except Exception:  # noqa
        pass
    # large cases get a case file each, the rest is sharded
    small_ix = [i for i, t in enumerate(terms) if len(t) < 200000]
    big_ix = [i for i, t in enumerate(terms) if len(t) >= 200000]
    f1, errors = C.coq_cases('C10_p%d' % os.getpid(), 'Lib.Prog Model.FruIO Corr.C10', [terms[i] for i in small_ix], shard=60 if q else 40)
    failing = [small_ix[i] for i in f1]
    if big_ix:
        f2, e2 = C.coq_cases('C10big_p%d' % os.getpid(), 'Lib.Prog Model.FruIO Corr.C10', [terms[i] for i in big_ix], shard=1, timeout=1100)
        failing += [big_ix[i] for i in f2]
        errors += e2
    failing.sort()
    res.mismatches = [{'case': meta[i], 'term': terms[i][:400]} for i in failing[:50]]
    res.corr_errors = errors
    res.evaluations += len(terms)
    res.distinct_nontrivial = D.distinct
    res.histogram = D.hist
    res.rule = ('reads: counts 0..40 x limits 2..9 x offsets {0,7,end} x the three rejection codes (oracle on all, '
                'correspondence on a third in quick); every limit 2..40,63,64,255 x rejection code with sizes at chunk '
                'boundaries in whole-area and range form; contents 4 KiB (thorough: 20000, 65535, 65536 bytes); all 256 '
                'ids with distinct contents; non-conforming replies; writes: chunk sizes 1..32,40,64,200,255 with lengths '
                'around multiples of the chunk size, one wrongly acknowledged chunk at first/middle/last position; '
                'inventories: the three images of tests/fru_bin, synthesized images with/without each area, corrupted '
                'and garbage images, ids zero and non-zero, other images on the neighbouring ids. distinct = distinct '
                'canonical (kind, parameters); all cases are non-trivial (each drives the loop against a device)')
    pick = [0, len(terms) // 3, len(terms) // 2, len(terms) - 1]
    res.samples = [{'case': meta[i], 'term': terms[i][:300]} for i in pick]
    res.oracle_failures = list(fails.values())
    return res
