"""C01 - message codec lossless for every defined message.

Obligations: Props/C01.v over the registry REGENERATED from $VERIF_REPO (gen_layouts).
Correspondence: the generic interpreter Model/Codec.v on the generated layouts vs. the
real classes, on the same assignments (evaluated inside Coq).  Oracle: construct /
round trip / pairing stated directly on the implementation.
"""
from . import common as C
from . import codec_util as U

GENS = ['layouts']
MODEL_MAP = [
    {'python': 'pyipmi/msgs/message.py: field classes, Message._create_fields/_encode/_decode, Bitfield.BitWrapper',
     'coq': 'Model.Codec (create/encode/decode, enc_base/dec_base, eval_cond)'},
    {'python': 'pyipmi/utils.py: ByteBuffer.push_unsigned_int/pop_unsigned_int/push_string/pop_string',
     'coq': 'Lib.Bytes.le_bytes/le_val, Model.Codec.take'},
    {'python': 'pyipmi/msgs/*.py: every @register_message_class layout', 'coq': 'Gen.Layouts (GENERATED each run)'},
]
TRUSTED = ['translator gen/gen_layouts.py (fail-closed; every generated layout is executed against its class in this run)']


def oracle_construct(inp):
    cls = U.cls_of(inp['cls'])
    r = U.attempt(lambda: cls())
    if isinstance(r, Exception):
        return '%s cannot be constructed: %s: %s' % (inp['cls'], type(r).__name__, r)
    return None


def _env_from_json(e):
    return [tuple([v[0]] + ([bytes.fromhex(v[1])] if v[0] == 'bytes' else v[1:])) for v in e]


def _env_to_json(e):
    return [[v[0]] + ([v[1].hex()] if v[0] == 'bytes' else list(v[1:])) for v in e]


def oracle_roundtrip(inp):
    cls = U.cls_of(inp['cls'])
    env = _env_from_json(inp['env'])
    bs = U.attempt(lambda: U.encode_env(cls, env))
    if isinstance(bs, Exception):
        return 'in-range assignment does not encode: %s: %s' % (type(bs).__name__, bs)
    back = U.attempt(lambda: U.decode_bytes(cls, bs))
    if isinstance(back, Exception):
        return 'own encoding %s does not decode: %s: %s' % (bs.hex(), type(back).__name__, back)
    if back != env:
        return 'decode(encode(v)) != v: bytes %s give %s' % (bs.hex(), _env_to_json(back))
    tp = U.attempt(lambda: U.decoded_types_problem(cls, bs))
    if tp:
        return 'decoding %s: %s' % (bs.hex(), tp)
    again = U.attempt(lambda: U.encode_env(cls, back))
    if isinstance(again, Exception) or again != bs:
        return 're-encoding differs: %s vs %r' % (bs.hex(), again)
    # "the bytes" in the forms the library itself hands around (pack_message returns array('B')): the same
    # field values from each, the caller's wire image left as it was, and the same again from a second decode
    from array import array
    for mk in (lambda: array('B', bs), lambda: bytearray(bs), lambda: list(bs)):
        wire = mk()
        for attempt_no in (1, 2):
            back2 = U.attempt(lambda: U.decode_bytes(cls, wire))
            if isinstance(back2, Exception) or back2 != env:
                return 'decoding %s given as %s (decode #%d of the same object): %s' % (
                    bs.hex(), type(wire).__name__, attempt_no,
                    '%s: %s' % (type(back2).__name__, back2) if isinstance(back2, Exception) else 'other field values')
            if bytes(wire) != bs:
                return 'decoding modified the caller\'s wire image (%s): %s -> %s' % (
                    type(wire).__name__, bs.hex(), bytes(wire).hex())
    return None


def oracle_pairing(inp):
    from pyipmi.msgs.registry import DEFAULT_REGISTRY as R
    cls = U.cls_of(inp['cls'])
    name = inp['cls']
    if name.endswith('Req'):
        if cls.__netfn__ & 1:
            return 'request with odd netfn'
        rsps = [n for n in U.registry_names()
                if (U.cls_of(n).__netfn__, U.cls_of(n).__cmdid__, U.cls_of(n).__group_extension__) ==
                (cls.__netfn__ + 1, cls.__cmdid__, cls.__group_extension__)]
        if len(rsps) != 1:
            return 'request has %d response counterparts %s' % (len(rsps), rsps)
        if not rsps[0].endswith('Rsp'):
            return 'counterpart %s is not a response' % rsps[0]
    elif name.endswith('Rsp'):
        if not cls.__netfn__ & 1:
            return 'response with even netfn'
    else:
        return 'name does not end in Req/Rsp'
    if R.registry.get((cls.__netfn__, cls.__cmdid__, cls.__group_extension__)) is not cls:
        return 'id tuple maps to another class'
    # the same through the registry's public functions (what the interfaces and the emulation use)
    import pyipmi.msgs as MS
    try:
        got = MS.create_message(cls.__netfn__, cls.__cmdid__, cls.__group_extension__)
        if type(got) is not cls:
            return 'create_message(%d, %d, %r) gives a %s' % (cls.__netfn__, cls.__cmdid__, cls.__group_extension__,
                                                             type(got).__name__)
        by_name = (MS.create_request_by_name if name.endswith('Req') else MS.create_response_by_name)(name[:-3])
        if type(by_name) is not cls:
            return 'create_%s_by_name(%r) gives a %s' % ('request' if name.endswith('Req') else 'response', name[:-3],
                                                         type(by_name).__name__)
        if name.endswith('Req'):
            rsp = MS.create_response_message(cls())
            want = U.cls_of(rsps[0])
            if type(rsp) is not want:
                return 'create_response_message(%s()) gives a %s, the counterpart is %s' % (name, type(rsp).__name__, rsps[0])
    except Exception as e:  # noqa
        return 'the registry functions fail for %s: %s: %s' % (name, type(e).__name__, e)
    return None


ORACLES = {'construct': oracle_construct, 'roundtrip': oracle_roundtrip, 'pairing': oracle_pairing}


def _untranslated_names():
    """names listed in Gen/Layouts.v's registry_untranslated (written by this run's translator)"""
    import re
    txt = (C.COQ / 'Gen' / 'Layouts.v').read_text()
    m = re.search(r'Definition registry_untranslated : list msgdef := \[(.*?)\]\.', txt, flags=re.S)
    return set(re.findall(r'mkMsg "(\w+)"', m.group(1))) if m else set()


def replay(data):
    r = data['replay']
    return ORACLES[r['oracle']](r['input']) is None


def run(ctx):
    from pyipmi.msgs import message as M
    rng = ctx.rng
    res = C.Result(model_map=MODEL_MAP)
    D = C.Distinct()
    terms, meta, fails = [], [], {}
    k_random = 8 if ctx.quick else 120

    def add(t, info):
        terms.append(t)
        meta.append(info)

    judged = set()

    def oracle(name, inp, key):
        judged.add(key)
        msg = ORACLES[name](inp)
        if msg and key not in fails:
            fails[key] = C.Violation(key=key, what='%s: %s' % (inp['cls'], msg), replay={'oracle': name, 'input': inp})

    names = U.registry_names()
    for name in names:
        cls = U.cls_of(name)
        L = 'L_' + name
        grp = cls.__group_extension__
        add('chk_entry %s %d %d %s %d' % (C.c_str(name), cls.__netfn__, cls.__cmdid__,
                                          C.c_opt(None if grp is None else str(grp)), cls.__default_lun__),
            ('entry', name))
        oracle('pairing', {'cls': name}, 'pairing:' + name)
        obj = U.attempt(lambda: cls())
        add('chk_create %s %s' % (L, U.xres(obj, lambda o: U.c_env(U.canon_env(o)))), ('create', name))
        oracle('construct', {'cls': name}, 'construct:' + name)
        D.add(('create', name), True, 'create')
        if isinstance(obj, Exception):
            continue
        fs = U.fields_of(cls)
        if fs is None:
            add('chk_enc %s [] %s' % (L, U.xres(U.attempt(lambda: U.encode_env(cls, [])), C.c_hex)), ('enc-nofields', name))
            add('chk_dec %s %s %s' % (L, C.c_hex(b''), U.xres(U.attempt(lambda: U.decode_bytes(cls, b'')), U.c_env)),
                ('dec-nofields', name))
            continue
        nopt = U.n_optional(cls)
        assigns = []
        for mode in ('zeros', 'ones', 'topbit'):
            for p in range(nopt + 1):
                assigns.append((mode, U.gen_in_range(cls, rng, mode, p)))
        for _ in range(k_random):
            assigns.append(('random', U.gen_in_range(cls, rng, 'random', None)))
        for mode, env in assigns:
            bs = U.attempt(lambda: U.encode_env(cls, env))
            add('chk_enc %s %s %s' % (L, U.c_env(env), U.xres(bs, C.c_hex)), ('enc', name, mode))
            if not isinstance(bs, Exception):
                back = U.attempt(lambda: U.decode_bytes(cls, bs))
                add('chk_dec %s %s %s' % (L, C.c_hex(bs), U.xres(back, U.c_env)), ('dec', name, mode))
            oracle('roundtrip', {'cls': name, 'env': _env_to_json(env)}, 'roundtrip:' + name)
            D.add((name, repr(env)), len(env) > 0, 'in-range-' + mode)
        # instances must not share state: after all those assignments a new object has the defaults
        obj2 = U.attempt(lambda: cls())
        add('chk_create %s %s' % (L, U.xres(obj2, lambda o: U.c_env(U.canon_env(o)))), ('create-again', name))
        # malformed stream: as-created object, a field set to None, an out-of-range integer,
        # a fixed array of the wrong length
        created = U.canon_env(obj)
        bs = U.attempt(lambda: U.encode_env(cls, created))
        add('chk_enc %s %s %s' % (L, U.c_env(created), U.xres(bs, C.c_hex)), ('enc-created', name))
        if fs:
            env = U.gen_in_range(cls, rng, 'random', nopt)
            i = rng.randrange(len(fs))
            bad = list(env)
            f = U.inner(fs[i])
            if U.kind(f) in (M.UnsignedInt, M.CompletionCode):
                bad[i] = ('int', 256 ** f.length + rng.randrange(1000))
                kind = 'int-too-large'
            elif U.kind(f) is M.ByteArray:
                bad[i] = ('bytes', b'\x01' * (f.length + 1))
                kind = 'array-wrong-length'
            elif U.kind(f) is M.Bitfield:
                bad[i] = ('bits', [2 ** b.width + 1 for b in U.P.bits_of(U.inner(f), M)])
                kind = 'bit-too-large'
            else:
                bad[i] = ('none',)
                kind = 'none'
            bs = U.attempt(lambda: U.encode_env(cls, bad))
            add('chk_enc %s %s %s' % (L, U.c_env(bad), U.xres(bs, C.c_hex)), ('enc-malformed', name, kind))
            D.add((name, repr(bad)), True, 'malformed-' + kind)
            if type(fs[i]) is not M.Optional:
                bad2 = list(env)
                bad2[i] = ('none',)
                bs = U.attempt(lambda: U.encode_env(cls, bad2))
                add('chk_enc %s %s %s' % (L, U.c_env(bad2), U.xres(bs, C.c_hex)), ('enc-malformed', name, 'none'))
                D.add((name, repr(bad2)), True, 'malformed-none')
    # downgrade rule: classes the translator could not express in this run are not in [registry];
    # no model term exists for them (their terms are dropped) and the oracle must have judged them
    untranslated = _untranslated_names()
    res.extra['classes_untranslated'] = sorted(untranslated)
    if untranslated:
        keep = [i for i, m in enumerate(meta) if not (len(m) > 1 and m[1] in untranslated)]
        terms[:] = [terms[i] for i in keep]
        meta[:] = [meta[i] for i in keep]
        for n in sorted(untranslated):
            if 'roundtrip:' + n not in judged and 'construct:' + n not in judged:
                fails['downgraded-without-oracle:' + n] = C.Violation(
                    key='downgraded-without-oracle:' + n, found_input=False,
                    what='%s is outside the translator fragment and was not judged by the oracle' % n,
                    replay={'class': n})
    failing, errors = C.coq_cases('C01', 'Model.Codec Gen.Layouts Corr.C01', terms)
    res.mismatches = [{'case': meta[i], 'term': terms[i][:400]} for i in failing[:50]]
    res.corr_errors = errors
    res.evaluations = len(terms)
    res.distinct_nontrivial = D.distinct
    res.histogram = D.hist
    res.extra['classes'] = len(names)
    res.rule = ('every class in the live registry: construction, registry entry, and assignments zeros / ones / top-bit '
                'x every prefix-closed presence pattern of the optional tail + %d random in-range assignments '
                '(conditions evaluated by the implementation, variable arrays 0/1/2/16/255 long), encode and decode '
                'compared with the model; malformed stream: created defaults, None, too-large ints/bits, wrong array '
                'length (error class compared). non-trivial = class has at least one field' % k_random)
    pick = [i for i, m in enumerate(meta) if m[0] in ('enc', 'dec')]
    res.samples = [{'term': terms[i][:300], 'case': meta[i]} for i in pick[:2] + pick[len(pick) // 2:len(pick) // 2 + 2]]
    res.oracle_failures = list(fails.values())
    return res
