"""Helpers shared by the C01/C02 harnesses: walk the live registry, canonicalise message
objects to the model's positional value lists, print Coq literals, generate in-range
assignments from the implementation's own field objects (independent of the translator)."""
from array import array

from . import common as C
from gen import fieldprobe as P


def registry_names():
    from pyipmi.msgs.registry import DEFAULT_REGISTRY as R
    return sorted(k for k in R.registry if isinstance(k, str))


def cls_of(name):
    from pyipmi.msgs.registry import DEFAULT_REGISTRY as R
    return R.registry[name]


def inner(f):
    from pyipmi.msgs import message as M
    return P.wrapped(f, M)


def kind(f):
    """known base class whose codec methods the (possibly subclassed) field object uses, or None"""
    from pyipmi.msgs import message as M
    f = inner(f)
    for K in (M.CompletionCode, M.UnsignedInt, M.Bitfield, M.VariableByteArray, M.ByteArray, M.String,
              M.RemainingBytes):
        if isinstance(f, K):
            return K
    return None


def fields_of(cls):
    """tuple of field objects, or None (no __fields__), or 'malformed'"""
    if '__fields__' not in dir(cls):
        return None
    fs = cls.__fields__
    if not isinstance(fs, (tuple, list)):
        return 'malformed'
    return fs


def canon_val(v, f):
    """attribute value -> ('int', n) | ('bits', [..]) | ('bytes', b'..') | ('none',)"""
    from pyipmi.msgs import message as M
    if v is None:
        return ('none',)
    if isinstance(v, M.Bitfield.BitWrapper):
        return ('bits', [getattr(v, b.name) for b in P.bits_of(inner(f), M)])
    if isinstance(v, bool):
        return ('int', int(v))
    if isinstance(v, int):
        return ('int', v)
    if isinstance(v, str):
        return ('bytes', v.encode())
    if isinstance(v, (bytes, bytearray, array, list, tuple)):
        return ('bytes', bytes(bytearray(v)))
    raise TypeError('uncanonicalisable %r' % (v,))


def canon_env(obj):
    fs = fields_of(type(obj))
    if fs is None:
        return []
    return [canon_val(getattr(obj, inner(f).name), f) for f in fs]


def c_val(v):
    if v[0] == 'none':
        return 'VNone'
    if v[0] == 'int':
        return '(VInt %d)' % v[1]
    if v[0] == 'bits':
        return '(VBits [%s])' % '; '.join(str(x) for x in v[1])
    return '(VBytes %s)' % C.c_hex(v[1])


def c_env(e):
    return '[' + '; '.join(c_val(v) for v in e) + ']'


def xres(r, ok):
    """exception or value -> Coq term of type xres"""
    import pyipmi.errors as E
    if isinstance(r, Exception):
        if isinstance(r, E.DecodingError):
            return 'XDec'
        if isinstance(r, E.EncodingError):
            return 'XEnc'
        if isinstance(r, E.DescriptionError):
            return 'XDesc'
        return 'XOther'
    return '(XOk %s)' % ok(r)


def attempt(f):
    try:
        return f()
    except Exception as e:  # noqa
        return e


def set_env(obj, e):
    """assign canonical values to a message object"""
    fs = fields_of(type(obj))
    if fs is None:
        return
    set_env_prefix(obj, fs, e)


def gen_in_range(cls, rng, mode='random', n_present=None):
    """An in-range assignment for cls as a canonical env, built from the implementation's
    own field objects.  mode: 'random' | 'zeros' | 'ones' | 'topbit'.
    n_present = number of Optional fields that are present (prefix-closed); None = random."""
    from pyipmi.msgs import message as M
    fs = fields_of(cls)
    obj = cls()
    nopt = sum(1 for f in fs if isinstance(f, M.Optional))
    if n_present is None:
        n_present = rng.randrange(nopt + 1) if nopt else 0
    seen_opt = 0
    var_fixups = []

    def base_val(f):
        t = kind(f)
        if t is M.CompletionCode:
            return ('int', 0)
        if t is M.UnsignedInt:
            top = 256 ** f.length
            if top == 1:
                return ('int', 0)
            if mode == 'zeros':
                return ('int', 0)
            if mode == 'ones':
                return ('int', top - 1)
            if mode == 'topbit':
                return ('int', top >> 1)
            return ('int', rng.choice([0, 1, top - 1, top >> 1, rng.randrange(top), rng.randrange(top)]))
        if t is M.Bitfield:
            vs = []
            for b in P.bits_of(f, M):
                mx = 2 ** b.width - 1
                vs.append(0 if mode == 'zeros' else mx if mode in ('ones', 'topbit') else rng.choice([0, mx, rng.randrange(mx + 1)]))
            return ('bits', vs)
        if t is M.ByteArray:
            return ('bytes', bytes(rng.randrange(256) for _ in range(f.length)))
        if t is M.VariableByteArray:
            return ('var',)
        if t is M.String:
            # boundary-biased content: escape-looking text, NULs, high bytes, format directives
            pats = [b'\\u0031', b'\\U0001F600', b'\\x41\\n', b'%s{0}', b'\x00', b'\xff\xfe', b'admin', b'\\\\']
            k = rng.randrange(4)
            if mode == 'zeros':
                return ('bytes', bytes(f.length))
            if mode in ('ones', 'topbit'):
                return ('bytes', b'\xff' * f.length)
            if k == 0:
                pat = rng.choice(pats)
                return ('bytes', (pat * (f.length // len(pat) + 1))[:f.length])
            return ('bytes', bytes(rng.randrange(256) for _ in range(f.length)))
        if t is M.RemainingBytes:
            return ('bytes', bytes(rng.randrange(256) for _ in range(rng.choice([0, 1, 2, 7, 20]))))
        raise TypeError('unknown field class %s' % type(f).__name__)

    env = []
    for i, f in enumerate(fs):
        if isinstance(f, M.Optional):
            seen_opt += 1
            if seen_opt > n_present:
                env.append(('none',))
                continue
            v = base_val(inner(f))
            if kind(f) is M.RemainingBytes and v[1] == b'':
                v = ('bytes', bytes([rng.randrange(256)]))
        elif isinstance(f, M.Conditional):
            set_env_prefix(obj, fs, env)
            if P.condition_fn(f, M)(obj):
                v = base_val(inner(f))
            else:
                v = canon_val(inner(f).create(), f)
        else:
            v = base_val(f)
        if v == ('var',):
            # length field: the (earlier) UnsignedInt the length function reads
            ln = rng.choice([0, 1, 2, 16, 255])
            data = bytes(rng.randrange(256) for _ in range(ln))
            probe = cls()
            # find which earlier field the length function reads by probing
            target = None
            for j, g in enumerate(fs[:i]):
                if kind(g) is M.UnsignedInt and not P.is_wrapper(g, M):
                    setattr(probe, g.name, 0)
            for j, g in enumerate(fs[:i]):
                if kind(g) is M.UnsignedInt and not P.is_wrapper(g, M):
                    setattr(probe, g.name, 77)
                    if P.length_fn(inner(f), M)(probe) == 77:
                        target = j
                    setattr(probe, g.name, 0)
            if target is None:
                raise TypeError('cannot find the length field of %s.%s' % (cls.__name__, f.name))
            ln = min(ln, 256 ** fs[target].length - 1)
            data = data[:ln]
            env[target] = ('int', ln)
            v = ('bytes', data)
        env.append(v)
    return env


def set_env_prefix(obj, fs, env):
    from pyipmi.msgs import message as M
    for f, v in zip(fs, env):
        name = inner(f).name
        if v[0] == 'none':
            setattr(obj, name, None)
        elif v[0] == 'int':
            setattr(obj, name, v[1])
        elif v[0] == 'bits':
            w = getattr(obj, name)
            for b, x in zip(P.bits_of(inner(f), M), v[1]):
                setattr(w, b.name, x)
        else:
            setattr(obj, name, array('B', v[1]))


def n_optional(cls):
    from pyipmi.msgs import message as M
    fs = fields_of(cls)
    return sum(1 for f in fs if isinstance(f, M.Optional))


def encode_env(cls, env):
    from pyipmi.msgs import encode_message
    obj = cls()
    set_env(obj, env)
    return bytes(encode_message(obj))


def decode_bytes(cls, data):
    from pyipmi.msgs import decode_message
    obj = cls()
    decode_message(obj, data)
    return canon_env(obj)


def decoded_types_problem(cls, data):
    """after decoding, every present byte-array field holds an array of bytes (not a str left over
    from construction, not a list of something else); returns a description or None"""
    from pyipmi.msgs import decode_message, message as M
    obj = cls()
    decode_message(obj, data)
    for f in fields_of(cls) or ():
        g = inner(f)
        v = getattr(obj, g.name)
        if v is None:
            continue
        if kind(g) in (M.ByteArray, M.VariableByteArray, M.RemainingBytes) and not isinstance(v, (array, bytes, bytearray)):
            return 'field %s holds %r (%s) after decoding, not a byte array' % (g.name, v, type(v).__name__)
        if isinstance(g, M.UnsignedInt) and (not isinstance(v, int) or isinstance(v, bool)):
            return 'field %s holds %r (%s) after decoding, not an int' % (g.name, v, type(v).__name__)
    return None
