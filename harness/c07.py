"""C07 - high-level API operations mean what they say to a conforming BMC.

Obligations: Props/C07.v over the operation CONTENT regenerated from $VERIF_REPO
(gen/gen_api.py + gen/apifrag.py -> Gen/ApiContent.v), the generated layouts and the Gallina
reference BMC (Model/Bmc.v).

Oracle (independent of the model): random call histories over one or two connections and BMC
instances against the Python twin of the reference BMC (harness/bmc_ref.py, by byte position);
after every call the request the library sent is compared with the independent encoder and the
value it returned with the independent decoder of the BMC's answer (harness/c07_spec.py); reads are
issued twice and on a second connection to the same BMC (results must not depend on history or
connection); connections created with default arguments must not share state.

Correspondence: every call is replayed in Coq by the generated operation (requests byte for byte,
result value), and every recorded history is replayed through the Gallina BMC.
"""
import json
import re

from . import common as C
from . import fakeif as F
from . import api_util as A
from . import bmc_ref as B
from .c07_spec import SPEC, Bag
from gen.fieldprobe import wrapper_bit_names

GENS = ['layouts', 'api']
MODEL_MAP = [
    {'python': 'pyipmi/{bmc,chassis,lan,messaging,sensor,event,picmg,hpm,dcmi}.py: straight-line API methods, their '
               'helpers, State._from_response bodies, CONVERT_* tables', 'coq': 'Gen.ApiContent (GENERATED each run)'},
    {'python': 'pyipmi/__init__.py:Ipmi.send_message_with_name (form verified by the translator)', 'coq': 'Model.ApiSem.exec (SNewReq/SSetField/SSend/SCheck)'},
    {'python': 'pyipmi/msgs/message.py codec', 'coq': 'Model.Codec over Gen.Layouts (C01/C02)'},
    {'python': 'pyipmi/fields.py:VersionField((major, minor)); lan.py string conversions (join/split)', 'coq': 'Model.ApiSem.builtin (hand-written)'},
    {'python': '(specification) IPMI 2.0 / PICMG 3.0 command tables', 'coq': 'Model.Bmc.bmc_handle (reference BMC, by byte position)'},
]
TRUSTED = ['translators gen/gen_api.py + gen/apifrag.py (ast, fail-closed; every generated operation is replayed against '
           'the real method on every call of this run)',
           'reference BMC (Model/Bmc.v = harness/bmc_ref.py, compared on every recorded history) and the independent '
           'encoders/decoders of harness/c07_spec.py: models of the specifications as the author knows them']

IGNORE_ATTRS = {'LedState': {'fru_id', 'led_id'}}
# operations whose result construction is a hand-written builtin of Model/ApiSem.v (guarded by an ast fingerprint
# in the translator), the exchange itself being generated
HAND_OPS = ['get_component_property']


# ---------------------------------------------------------------------------------------------
# values
# ---------------------------------------------------------------------------------------------
def canon(v):
    """implementation value -> comparable plain structure"""
    from enum import Enum
    from array import array
    from pyipmi.msgs.message import Message, Bitfield
    if isinstance(v, Enum):
        return str.__str__(v) if isinstance(v, str) else int(v)
    if v is None or isinstance(v, (bool, int, str)):
        return v
    if isinstance(v, (bytes, bytearray)):
        return bytes(v)
    if isinstance(v, array):
        return bytes(bytearray(v.tolist()))
    if isinstance(v, (list, tuple)):
        return [canon(x) for x in v]
    if isinstance(v, dict):
        return {k: canon(x) for k, x in v.items()}
    if isinstance(v, Message):
        d = {'__class__': type(v).__name__[:-3]}
        for f in type(v).__fields__:
            f = _inner(f)
            x = getattr(v, f.name)
            if isinstance(x, Bitfield.BitWrapper):
                d[f.name] = {'__class__': 'bits', **{n: getattr(x, n) for n in wrapper_bit_names(x)}}
            else:
                d[f.name] = canon(x)
        return d
    if isinstance(v, Bag):
        d = {k: canon(x) for k, x in vars(v).items() if k != '_cls'}
        d['__class__'] = v._cls
        return d
    if hasattr(v, '__dict__'):
        d = {}
        for klass in reversed(type(v).__mro__):
            for k, x in vars(klass).items():
                if k.startswith('_') or k != k.lower() or callable(x) or isinstance(x, (staticmethod, classmethod, property)):
                    continue
                d[k] = canon(x)
        for k, x in vars(v).items():
            d[k] = canon(x)
        if type(v).__name__ == 'VersionField':
            d = {k: d.get(k) for k in ('major', 'minor')}
        d['__class__'] = type(v).__name__
        return d
    raise TypeError('uncanonicalisable %r' % (v,))


def _inner(f):
    from pyipmi.msgs import message as M
    from gen import fieldprobe
    return fieldprobe.wrapped(f, M)


def c_string(s):
    if all(32 <= ord(ch) < 127 for ch in s):
        return C.c_str(s)
    parts = []
    for ch in s:
        if 32 <= ord(ch) < 127:
            parts.append(C.c_str(ch))
        elif ord(ch) < 256:
            parts.append('(String (Ascii.ascii_of_N %d) "")' % ord(ch))
        else:
            raise ValueError('non latin-1 string')
    return '(%s)' % ' ++ '.join(parts) if parts else '""'


def c_pv(v):
    if isinstance(v, bool):
        return '(PBool %s)' % C.c_bool(v)
    if isinstance(v, int):
        return '(PInt %s)' % C.c_Z(v)
    if v is None:
        return 'PNone'
    if isinstance(v, str):
        return '(PStr %s)' % c_string(v)
    if isinstance(v, bytes):
        return '(PBytes %s)' % C.c_hex(v)
    if isinstance(v, list):
        return '(PList %s)' % C.c_list([c_pv(x) for x in v])
    if isinstance(v, dict):
        cls = v.get('__class__', 'dict')
        return '(PObj %s %s)' % (C.c_str(cls), C.c_list(['(%s, %s)' % (C.c_str(k), c_pv(x))
                                                         for k, x in v.items() if k != '__class__']))
    raise TypeError('no pv literal for %r' % (v,))


def c_args(a):
    return C.c_list(['(%s, %s)' % (C.c_str(k), c_pv(canon(v))) for k, v in a.items()])


def c_exchange(x):
    return '(%s, %s)' % (F.c_request(x), F.c_reply(x))


def c_store(init):
    return C.c_list(['((%d, %d, %d), %s)' % (k[0], k[1], k[2], C.c_hex(bytes(v))) for k, v in sorted(init.items())])


def same(a, b, cls=None):
    """expected (spec) vs actual (implementation), both canonical"""
    if isinstance(a, dict) and isinstance(b, dict):
        ign = IGNORE_ATTRS.get(a.get('__class__'), set())
        ka, kb = set(a) - ign, set(b) - ign
        return ka == kb and all(same(a[k], b[k]) for k in ka)
    if isinstance(a, list) and isinstance(b, list):
        return len(a) == len(b) and all(same(x, y) for x, y in zip(a, b))
    if isinstance(a, bool) or isinstance(b, bool):
        return a is b or (type(a) is type(b) and a == b)
    return type(a) is type(b) and a == b


# ---------------------------------------------------------------------------------------------
# running calls
# ---------------------------------------------------------------------------------------------
def real_args(a):
    """argument bags -> what the library expects (a real LedState for set_led_state)"""
    out = {}
    for k, v in a.items():
        if isinstance(v, Bag) and v._cls == 'LedState':
            import pyipmi.picmg as p
            o = p.LedState()
            for kk, vv in vars(v).items():
                if kk != '_cls':
                    setattr(o, kk, vv)
            v = o
        out[k] = v
    return out


def call(conn, op, a):
    ipmi, itf = conn
    n0 = len(itf.log)
    try:
        v = getattr(ipmi, op)(**real_args(a))
        out = ('ok', canon(v))
    except Exception as e:  # noqa
        out = ('exc', C.exc_class(e), '%s: %s' % (type(e).__name__, str(e)[:120]))
    return out, itf.log[n0:]


def rand_state(rng):
    """an initial BMC state with non-default contents for the objects the histories address.  Stored bytes are
    drawn with ALL their bits at random (reserved and neighbour bits included): reads are judged on arbitrary
    reachable states - another client, the BIOS or a raw setter may have written them - not only on states that
    the library's own typed writes produce."""
    byte = lambda: rng.randrange(256)  # noqa
    s = {}
    if rng.random() < 0.7:
        s[(B.K_CHASSIS, 0, 0)] = [byte(), byte(), byte(), byte()]
    if rng.random() < 0.5:
        minor = rng.choice([0x00, 0x09, 0x10, 0x35, 0x99, 0xff])
        s[(B.K_DEVID, 0, 0)] = ([byte(), byte(), byte(), minor, rng.choice([0x51, 0x02, 0x20, 0x01]), byte()]
                                + [byte() for _ in range(5)] + ([] if rng.random() < 0.3 else [9, 8, 7, 6]))
    nums = [3, 0x80, 0xff]                       # the sensors the histories address (c07_spec.SENSOR_NUMS)
    for _ in range(rng.randrange(7)):
        s[(B.K_SENS, rng.randrange(4), rng.choice(nums))] = [byte(), byte(), byte(), byte()][:rng.choice([2, 3, 3, 4])]
    for _ in range(rng.randrange(5)):
        s[(B.K_THRMASK, rng.randrange(4), rng.choice(nums))] = [byte()]
    for _ in range(rng.randrange(5)):
        s[(B.K_THR, rng.randrange(4), rng.choice(nums))] = [byte() for _ in range(6)]
    for _ in range(rng.randrange(5)):
        st = rng.choice([0, 1, 2, 3, 3, 5, 7, byte()])
        s[(B.K_LED, rng.choice([0, 1, 255]), rng.choice([0, 1, 255]))] = \
            [st, rng.choice([0, 0xff, 5, 0xf9, byte()]), rng.choice([1, 2, 100, 0xf9, rng.randrange(1, 0xfa)]), byte(),
             rng.choice([0, 0xff, 7, 0xf9, byte()]), byte(), byte(), byte()]
    if rng.random() < 0.5:
        s[(B.K_LAN, rng.choice([0, 1, 2, 7, 14, 15]), 20)] = [byte(), byte()]
    if rng.random() < 0.3:
        s[(B.K_LAN, rng.choice([0, 1, 2]), 4)] = [rng.choice([rng.randrange(5), byte()])]
    if rng.random() < 0.6:
        # boot flags: valid device selector in bits 5:2, every other bit of all five bytes at random
        dev = rng.choice(list(range(10)) + [11, 15, rng.randrange(16)])
        s[(B.K_BOOT, 5, 0)] = [byte(), dev << 2 | (byte() & 0xc3), byte(), byte(), byte()]
        s[(B.K_BOOTINV, 5, 0)] = [rng.randrange(2)]
    if rng.random() < 0.4:
        s[(B.K_WD, 0, 0)] = [byte() & 0xbf, byte(), byte(), byte(), byte(), byte()]
        s[(B.K_WDRUN, 0, 0)] = [rng.randrange(2)]
        s[(B.K_WDPRES, 0, 0)] = [byte(), byte()]
        s[(B.K_WDINIT, 0, 0)] = [1]
    for _ in range(rng.randrange(3)):
        uid = rng.choice([0, 1, 2, 10, 62, 63])
        s[(B.K_UACC, uid, rng.choice([0, 1, 2, 7, 14, 15]))] = [16 * rng.randrange(16), rng.randrange(16), rng.randrange(16)]
        if rng.random() < 0.5:
            s[(B.K_UEN, uid, 0)] = [rng.randrange(2)]
    if rng.random() < 0.3:
        s[(B.K_EVRCV, 0, 0)] = [byte(), byte()]
    for _ in range(rng.randrange(2)):
        s[(B.K_FAN, rng.choice([0, 1, 2, 3, 254, 255]), 0)] = [byte(), byte()]
    if rng.random() < 0.3:
        s[(B.K_FANPROP, rng.choice([0, 1, 2, 3, 254, 255]), 0)] = [byte(), byte(), byte(), byte()]
    if rng.random() < 0.3:
        s[(B.K_PWRLVL, rng.choice([0, 1, 2, 3, 254, 255]), rng.randrange(4))] = [byte() for _ in range(rng.choice([3, 4, 8]))]
    for _ in range(rng.randrange(3)):
        ch, itf = rng.choice([0, 1, 15, 63]), rng.randrange(4)
        s[(B.K_PORT, itf, ch)] = [ch | itf << 6, rng.randrange(256), rng.randrange(256), rng.randrange(256), rng.randrange(2)]
    if rng.random() < 0.3:
        s[(B.K_SIGCLASS, rng.randrange(4), rng.choice([0, 1, 15, 63]))] = [rng.randrange(256)]
    if rng.random() < 0.4:
        s[(B.K_PWRCHST, rng.choice([1, 2, 3, 16]), 0)] = [rng.randrange(256)]
    if rng.random() < 0.3:
        s[(B.K_PMGLOBAL, 0, 0)] = [rng.choice([2, 16]), rng.randrange(256)]
    if rng.random() < 0.4:
        s[(B.K_GUID, 0, 0)] = [rng.randrange(256) for _ in range(16)]
    if rng.random() < 0.4:
        s[(B.K_AUTHCAP, rng.choice([0, 1, 2, 7, 14, 15]), 0)] = [rng.randrange(256), rng.randrange(256), rng.randrange(256), 1, 2, 3, 4]
    if rng.random() < 0.4:
        s[(B.K_ROLLBACK, 0, 0)] = rng.choice([[0], [1, 0], [0, 50], [2, 100]])
    if rng.random() < 0.3:
        s[(B.K_DCMIPWR, 0, 0)] = [rng.randrange(256) for _ in range(17)]
    if rng.random() < 0.3:
        s[(B.K_DCMICAP, rng.randrange(6), 0)] = [rng.randrange(256) for _ in range(rng.choice([0, 1, 4]))]
    for _ in range(rng.randrange(3)):
        sel = rng.randrange(5)
        if sel == 0:
            v = [rng.randrange(64)]
        elif sel == 2:
            v = [rng.choice(b'ABCxyz019 ._-') for _ in range(rng.randrange(1, 12))]
            v += [0] * (12 - len(v))
        else:
            v = [rng.randrange(128), rng.choice([0x00, 0x09, 0x10, 0x35, 0x99, 0xff])] + [rng.randrange(256) for _ in range(4)]
        s[(B.K_COMPPROP, rng.choice([0, 1, 7]), sel)] = v
    if rng.random() < 0.4:
        s[(B.K_HPMCAP, 0, 0)] = [rng.randrange(256) for _ in range(6)] + [rng.choice([0, 1, 0x05, 0x80, 0xff])]
    if rng.random() < 0.4:
        s[(B.K_HPMSTAT, 0, 0)] = [rng.choice([0, 0x31, 0x32, 0x33]), rng.choice([0, 0x80, 0xd5])]
    if rng.random() < 0.4:
        s[(B.K_SELFTEST, 0, 0)] = [rng.choice([0x55, 0x56, 0x57, 0x58, 0xff]), rng.randrange(256)]
    return s


def json_args(a):
    def enc(v):
        if isinstance(v, Bag):
            return {'__bag__': v._cls, **{k: enc(x) for k, x in vars(v).items() if k != '_cls'}}
        if isinstance(v, bytes):
            return {'__hex__': v.hex()}
        return v
    return {k: enc(v) for k, v in a.items()}


def unjson_args(a):
    def dec(v):
        if isinstance(v, dict) and '__bag__' in v:
            return Bag(v['__bag__'], **{k: dec(x) for k, x in v.items() if k != '__bag__'})
        if isinstance(v, dict) and '__hex__' in v:
            return bytes.fromhex(v['__hex__'])
        return v
    return {k: dec(v) for k, v in a.items()}


def check_call(op, a, out, log):
    """the property on one call: (kind, text) or None"""
    sp = SPEC[op]
    want = sp['req'](a)
    if len(log) != 1:
        return ('request', 'issued %d requests %s, a conforming caller sends one' % (len(log), [x.canon()[:4] for x in log]))
    x = log[0]
    got = (x.netfn, x.cmd, x.lun, x.data)
    okreq = got == want
    if sp.get('req_prefix'):
        okreq = got[:3] == want[:3] and got[3][:len(want[3])] == want[3] and not any(got[3][len(want[3]):])
    if sp.get('reqlen_only'):
        okreq = got[:3] == want[:3] and got[3][:len(want[3])] == want[3]
    if not okreq:
        return ('request', 'sent netfn=%#x cmd=%#x lun=%d data=%s; the arguments denote netfn=%#x cmd=%#x lun=%d data=%s'
                % (got[0], got[1], got[2], got[3].hex(), want[0], want[1], want[2], want[3].hex()))
    reply = x.reply
    if reply[0] != 0:
        if out[0] == 'exc' and out[1] == 'CCError %d' % reply[0]:
            return None
        return ('result', 'BMC answered completion code %#x, the call gave %r' % (reply[0], out[1:]))
    try:
        exp = sp['res'](a, list(reply[1:]))
    except (IndexError, KeyError):
        exp = 'KeyError'          # the stored object is too short to have a meaning (written through the raw setters)
    if isinstance(exp, str) and exp == 'UNDECIDED':
        return None
    if isinstance(exp, str) and exp in ('DecodingError', 'KeyError'):
        if out[0] == 'exc':
            return None
        return ('result', 'returned %r for an answer that has no meaning (%s expected)' % (out[1], exp))
    if out[0] == 'exc':
        return ('result', 'raised %s for the answer %s (expected %r)' % (out[2], bytes(reply).hex(), exp))
    if not same(canon(exp), out[1]):
        return ('result', 'returned %r for the answer %s; the BMC state is %r' % (out[1], bytes(reply).hex(), canon(exp)))
    return None


def run_history(spec, collect=None):
    """spec: {'init': [...], 'calls': [(conn index, op, args)], 'nconn', 'shared'} -> list of problems (key, text, step)"""
    inits = spec['init']
    bmcs = [B.RefBmc(s) for s in inits]
    conns = []
    for i in range(spec['nconn']):
        dev = bmcs[0] if spec['shared'] else bmcs[i % len(bmcs)]
        ipmi, itf = F.connect(dev.handle)
        conns.append((ipmi, itf, dev))
    problems = []
    for step, (ci, op, a) in enumerate(spec['calls']):
        ipmi, itf, dev = conns[ci]
        out, log = call((ipmi, itf), op, a)
        if collect is not None:
            collect(op, a, out, log)
        p = check_call(op, a, out, log)
        if p:
            problems.append(('%s:%s' % (op, p[0]), '%s(%s): %s' % (op, json.dumps(json_args(a))[:120], p[1]), step))
        if SPEC[op]['kind'] == 'read' and not p:
            # the same read again, and on a second connection to the same BMC: same BMC state, same result
            out2, log2 = call((ipmi, itf), op, a)
            if collect is not None:
                collect(op, a, out2, log2)
            sib, sitf = F.connect(dev.handle)
            out3, log3 = call((sib, sitf), op, a)
            for o, how in ((out2, 'issued again on the same connection'), (out3, 'issued on a second connection')):
                if o != out:
                    problems.append(('%s:unstable' % op, '%s: the BMC state did not change, but the read %s returned %r '
                                     'instead of %r' % (op, how, o[1:], out[1:]), step))
                    break
    return problems, conns


def oracle_history(inp):
    spec = {'init': [{tuple(json.loads(k)): v for k, v in s.items()} for s in inp['init']],
            'calls': [(c, op, unjson_args(a)) for c, op, a in inp['calls']], 'nconn': inp['nconn'], 'shared': inp['shared']}
    # other connections in the same process first: every read of the history once against a different BMC whose
    # state is saturated (all status flags set) - results of the history may not depend on what those decoded
    import random
    pol = rand_state(random.Random(4711))
    pol[(B.K_CHASSIS, 0, 0)] = [0x7f, 0x1f, 0x7f, 0xff]
    other = B.RefBmc(pol)
    oconn = F.connect(other.handle)
    for _, op, a in spec['calls']:
        if SPEC[op]['kind'] == 'read':
            call(oconn, op, a)
    problems, _ = run_history(spec)
    # the same history once more in the same process, on fresh connections and fresh BMC instances: results may
    # not depend on what other (earlier) connections decoded
    problems2, _ = run_history(spec)
    problems = problems + problems2
    want = inp.get('key')
    # the property fails on this input if any call of the history violates it (the stored key names the first symptom
    # seen in the original run; in a fresh process the same defect may surface under the sibling key)
    hits = [p for p in problems if p[0] == want] or problems
    return hits[0][1] if hits else None


def oracle_fresh(inp):
    """two connections created with default arguments are independent objects all the way down"""
    import pyipmi
    ia, ib = F.ScriptedInterface(lambda *a: b'\x00'), F.ScriptedInterface(lambda *a: b'\x00')
    a = pyipmi.Ipmi(interface=ia)
    b = pyipmi.Ipmi(interface=ib)
    if a.session is b.session:
        return ('pyipmi.Ipmi(interface=A) and pyipmi.Ipmi(interface=B) share one Session object: after creating B, '
                'A.session.interface is %s' % ('B' if a.session.interface is ib else 'A'))
    if a.session.interface is not ia:
        return 'A.session.interface is not A'
    return None


ORACLES = {'history': oracle_history, 'fresh': oracle_fresh, 'downgraded': lambda inp: 'not replayable: %s' % inp}


def replay(data):
    r = data['replay']
    return ORACLES[r['oracle']](r['input']) is None


def run(ctx):
    rng = ctx.rng
    q = ctx.quick
    res = C.Result(model_map=MODEL_MAP)
    D = C.Distinct()
    fails = {}
    terms, meta = [], []
    txt = A.with_fresh_gen(GENS, ['Corr/C07.vo'], lambda: C.coq_eval(
        'C07', 'Lib.Prog Model.ApiSem Gen.ApiContent Corr.C07', '(map c_name (filter supported api_content), shared_defaults)'))
    parts = txt.split('],')
    supported = set(re.findall(r'"([^"]+)"', parts[0])) if parts else set()
    # DOWNGRADE RULE: covered operations that the translator refuses in this run (other than SharedMutable) carry no
    # theorem and no correspondence in this run; the oracle below must then have exercised them (>= MIN_CALLS, no failure)
    dtxt = A.with_fresh_gen(GENS, ['Corr/C07.vo'], lambda: C.coq_eval(
        'C07', 'Lib.Prog Model.ApiSem Model.ApiRun Gen.ApiContent Corr.C07',
        '(map (fun n => (n, match find_cop n with Some o => unsupported_why (c_body o) | None => ["absent"] end)) '
        '(filter (fun n => negb (is_supported n)) covered))'))
    downgraded = {}
    for m in re.finditer(r'\("([a-z_0-9]+)",\s*\[(.*?)\]\)', dtxt, flags=re.S):
        why = re.findall(r'"((?:[^"]|"")*)"', m.group(2))
        if not any(w.startswith('SharedMutable') for w in why):
            downgraded[m.group(1)] = '; '.join(why)[:300]
    calls_of, failed_ops = {}, set()
    MIN_CALLS = 30
    all_ops = [n for n in A.public_ops() if n not in A.EXCLUDED]
    covered = sorted(n for n in SPEC if n in all_ops)
    gen_ok = sorted(n for n in covered if n in supported)

    def collect(op, a, out, log):
        if op not in supported:
            return
        exp = '(Ok %s)' % c_pv(out[1]) if out[0] == 'ok' else '(Err %s)' % C.c_err(out[1])
        terms.append('chk_op %s %s %s %s' % (C.c_str(op), c_args(a), C.c_list([c_exchange(x) for x in log]), exp))
        meta.append((op, json.dumps(json_args(a))[:200]))

    msg = oracle_fresh({})
    if msg:
        fails['Ipmi.__init__:shared-default-session'] = C.Violation(
            key='Ipmi.__init__:shared-default-session', what=msg, replay={'oracle': 'fresh', 'input': {}})
    nhist, length = (300, 12) if q else (5000, 30)
    opnames = covered
    extra = []          # additional histories that concentrate on downgraded operations
    for dop in sorted(downgraded):
        if dop in SPEC:
            extra += [dop] * (2 * MIN_CALLS // 6 + 2)
    for h in range(nhist + len(extra)):
        nconn = rng.choice([1, 2])
        shared = rng.random() < 0.5
        inits = [rand_state(rng) for _ in range(1 if shared else nconn)]
        calls = []
        if h >= nhist:
            dop = extra[h - nhist]
            focus = [dop, dop] + rng.sample(opnames, min(len(opnames), 4))
        else:
            focus = rng.sample(opnames, min(len(opnames), rng.choice([3, 6, len(opnames)])))
        for _ in range(length):
            op = rng.choice(focus)
            calls.append((rng.randrange(nconn), op, SPEC[op]['args'](rng)))
        spec = {'init': inits, 'calls': calls, 'nconn': nconn, 'shared': shared}
        do_corr = q or h < 600
        problems, conns = run_history(spec, collect if do_corr else None)
        res.evaluations += len(calls)
        for c in calls:
            calls_of[c[1]] = calls_of.get(c[1], 0) + 1
        for key, text, step in problems:
            failed_ops.add(key.split(':')[0])
        for c in calls:
            D.add((c[1], json.dumps(json_args(c[2]), sort_keys=True)), True, SPEC[c[1]]['kind'])
        for key, text, step in problems:
            if key not in fails:
                inp = {'init': [{json.dumps(list(k)): v for k, v in s.items()} for s in inits],
                       'calls': [(c, op, json_args(a)) for c, op, a in calls[:step + 1]], 'nconn': nconn, 'shared': shared,
                       'key': key}
                fails[key] = C.Violation(key=key, what=text, replay={'oracle': 'history', 'input': inp})
        if do_corr:
            # the Gallina BMC answers the recorded exchanges like the twin (per BMC instance, in order)
            seen = set()
            for ipmi, itf, dev in conns:
                pass
            # exchanges of all connections of one BMC interleave in time: rebuild the order per device
            # (each connection's log is in order; with two connections on one device we replay per connection only
            #  when the device is not shared)
            if not shared or nconn == 1:
                for i, (ipmi, itf, dev) in enumerate(conns):
                    if id(dev) in seen:
                        continue
                    seen.add(id(dev))
                    init = inits[0] if shared else inits[i % len(inits)]
                    users = [c for c in conns if c[2] is dev]
                    if len(users) == 1:
                        terms.append('chk_bmc %s %s' % (c_store(init), C.c_list([c_exchange(x) for x in itf.log])))
                        meta.append(('bmc-history', h))
    for dop, why in sorted(downgraded.items()):
        n = calls_of.get(dop, 0)
        if n < MIN_CALLS or dop in failed_ops:
            key = 'downgraded-without-oracle:%s' % dop
            fails.setdefault(key, C.Violation(
                key=key, what='%s is refused by the translator in this run (%s): no theorem is claimed for it, and the '
                'history oracle exercised it only %d times%s' % (dop, why, n, ' and found a failure' if dop in failed_ops else ''),
                replay={'oracle': 'downgraded', 'input': {'op': dop, 'reason': why, 'calls': n}}, found_input=False))
    res.oracle_failures = list(fails.values())
    failing, errors = A.with_fresh_gen(GENS, ['Corr/C07.vo'], lambda: C.coq_cases(
        'C07', 'Lib.Prog Model.ApiSem Model.Bmc Gen.ApiContent Corr.C07', terms, shard=250))
    res.mismatches = [{'case': meta[i], 'term': terms[i][:700]} for i in failing[:50]]
    res.extra['mismatch_samples'] = res.mismatches[:5]
    res.corr_errors = errors
    res.evaluations += len(terms)
    res.distinct_nontrivial = D.distinct
    res.histogram = D.hist
    res.oracle_failures = list(fails.values())
    uncovered = sorted(n for n in all_ops if n not in SPEC)
    res.extra.update({
        'ops_total': len(all_ops),
        'ops_generated': gen_ok,
        'ops_generated_count': len(gen_ok),
        'ops_translated_without_reference_semantics': sorted(n for n in supported if n in all_ops and n not in SPEC),
        'ops_hand': sorted(n for n in HAND_OPS if n in gen_ok),
        'ops_downgraded': downgraded,
        'ops_downgraded_calls': {k: calls_of.get(k, 0) for k in downgraded},
        'ops_refused_by_translator': sorted(n for n in covered if n not in supported),
        'ops_uncovered': uncovered,
        'ops_uncovered_count': len(uncovered),
        'shared_defaults': re.findall(r'"([^"]+)"', parts[1]) if len(parts) > 1 else [],
        'histories': nhist, 'history_length': length, 'correspondence_cases': len(terms),
    })
    res.rule = ('%d random call histories of length %d over 1-2 connections and BMC instances (shared or separate), random '
                'non-default initial BMC state, operations drawn from a random focus set of the %d covered operations, '
                'arguments boundary-biased over each parameter range; every read repeated on the same and on a second '
                'connection. non-trivial = every call (each has arguments or addresses BMC state)' % (nhist, length, len(covered)))
    pick = list(range(0, len(terms), max(1, len(terms) // 4)))[:4]
    res.samples = [{'term': terms[i][:300], 'case': meta[i]} for i in pick]
    return res
