"""C08 - errors reported by the BMC are never mistaken for success.

Obligations: Props/C08.v over the operation shapes REGENERATED from $VERIF_REPO
(gen/gen_api.py -> Gen/ApiOps.v): every method is straight-line-checked or has exactly a
recorded loop/handler shape; the propagation theorem is proved once for the class.

Oracle (the property text, on the implementation, independent of the model): every public
operation of pyipmi.Ipmi (found by introspection) x every request index it issues x
completion codes, injected through the scripted interface as a decoded response carrying the
code and as a raised CompletionCodeError: the operation must raise CompletionCodeError with
that code (or RetryError / HpmError), or - where it demonstrably re-issues the refused request
(retry / adaptation) - complete with the fault-free result.  Anything else is a violation.

Correspondence: for the straight-line operations the recorded replies are replayed by the
generated shape inside Coq (requests issued and outcome class must agree); Ipmi.send_message
and Hpm.get_component_properties against their hand models.
"""
import json
import re

from . import common as C
from . import fakeif as F
from . import api_util as A

GENS = ['layouts', 'api']
MODEL_MAP = [
    {'python': 'pyipmi/*.py: every method of Ipmi and its mix-ins (exchange shape)', 'coq': 'Gen.ApiOps (GENERATED each run)'},
    {'python': 'pyipmi/__init__.py:Ipmi.send_message (as repaired by fixes/F13)', 'coq': 'Model.ApiShape.send_message'},
    {'python': 'pyipmi/__init__.py:Ipmi.send_message_with_name', 'coq': 'Model.ApiShape.by_name (over the generated shape)'},
    {'python': 'pyipmi/utils.py:check_completion_code/check_rsp_completion_code', 'coq': 'Model.ApiShape.check_cc (form verified by the translator)'},
    {'python': 'pyipmi/hpm.py:Hpm.get_component_properties (as repaired by fixes/F8b)', 'coq': 'Model.ApiShape.get_component_properties'},
    {'python': 'operations with loops/handlers (FRU, SDR, SEL, HPM drivers)', 'coq': 'Model.ApiShape.hand_shapes (recorded shape only; oracle only)'},
]
TRUSTED = ['translator gen/gen_api.py (ast, fail-closed; the shape of every straight-line operation is replayed against '
           'the recorded exchanges of the real method in this run)',
           'generic responder of the harness (answers built with the message classes of the implementation)']

QUICK_CCS = [0x01, 0x7f, 0x80, 0x81, 0x82, 0x83, 0xC0, 0xC1, 0xC3, 0xC5, 0xC8, 0xC9, 0xCA, 0xCB, 0xCE, 0xD4, 0xD5, 0xFF]
CORR_CCS = [0x80, 0x83, 0xC0, 0xC3, 0xC5, 0xCA, 0xFF]
MAX_EXCHANGES = 4000


class Runaway(Exception):
    pass


# ------------------------------------------------------------------------------------------
# a small conforming device: all-zero well-formed answers built from the message classes,
# with just enough content for the loops (FRU, SDR, SEL, HPM) to run to completion
# ------------------------------------------------------------------------------------------
def _ck(b):
    return (-sum(b)) & 0xff


def fru_image(mr=(4, 3), size=None):
    """common header + chassis, board, product info areas (16 bytes each) + two multi-records with payloads of
    mr[0] and mr[1] bytes; size: pad with zeros / cut to that many bytes (raw reads only)"""
    hdr = [1, 0, 1, 3, 5, 7, 0]
    hdr.append(_ck(hdr))

    def area(body):
        a = list(body) + [0xC1]
        a += [0] * (15 - len(a))
        return a + [_ck(a)]
    chassis = area([1, 2, 0x17, 0xC2, 0x50, 0x4e, 0xC1, 0x53])
    board = area([1, 2, 0, 0, 0, 0, 0xC3, 0x41, 0x42, 0x43, 0xC0, 0xC0, 0xC0, 0xC0])
    product = area([1, 2, 0, 0xC1, 0x4d, 0xC0, 0xC0, 0xC0, 0xC0, 0xC0, 0xC0])

    def mrec(typ, last, data):
        h = [typ, (0x80 if last else 0) | 2, len(data), _ck(data)]
        return h + [_ck(h)] + list(data)
    multi = mrec(0x02, False, [(i * 7 + 1) & 0xff for i in range(mr[0])]) + mrec(0x03, True, [(9 - i) & 0xff for i in range(mr[1])])
    img = hdr + chassis + board + product + multi
    if size is not None:
        img = (img + [(i * 5 + 3) & 0xff for i in range(size)])[:size]
    return bytes(img)


def sdr_records(payloads=None):
    """payloads None: two management-controller locator records; else unknown-type records with those payload lengths"""
    if payloads is None:
        def mc(rid, name):
            body = [0x40, 0x00, 0x00, 0x3f, 0, 0, 0, 0x07, 0x01, 0x00, 0xC0 | len(name)] + list(name)
            return bytes([rid & 0xff, rid >> 8, 0x51, 0x12, len(body)] + body)
        return {1: (mc(1, b'CONTROLLER-ONE-X'), 2), 2: (mc(2, b'SECOND'), 0xffff)}
    out = {}
    for i, n in enumerate(payloads):
        rid = i + 1
        out[rid] = (bytes([rid, 0, 0x51, 0x0a, n] + [(rid * 16 + j) & 0xff for j in range(n)]),
                    rid + 1 if i + 1 < len(payloads) else 0xffff)
    return out


def sel_records(types=(0x02, 0x02)):
    def ev(rid, typ):
        return bytes([rid & 0xff, rid >> 8, typ, 1, 2, 3, 4, 0x20, 0x00, 0x04, 0x01, 4 + rid, 0x01, 0x50, 0xff, 0xff])
    return {i + 1: (ev(i + 1, t), i + 2 if i + 1 < len(types) else 0xffff) for i, t in enumerate(types)}


class Bmc0:
    """shape (all optional): fru_mr, fru_size, fru_max (largest read the FRU device serves), sdr (payload lengths),
    sdr_max, sel (record types), sel_max (largest partial SEL read; None = whole records), hpm_mask (components
    present), hpm_missing (property selectors answered 0x83)"""

    def __init__(self, shape=None):
        sh = shape or {}
        self.sh = sh
        self.fru = fru_image(tuple(sh.get('fru_mr', (4, 3))), sh.get('fru_size'))
        self.sdr = sdr_records(sh.get('sdr'))
        self.sel = sel_records(tuple(sh.get('sel', (0x02, 0x02))))

    def handle(self, netfn, cmd, lun, data, req):
        from pyipmi.msgs import create_message, encode_message
        if req is None:                       # raw_command
            return bytes([0, netfn & 0xff, cmd & 0xff])
        rsp = create_message(req.netfn + 1, req.cmdid, req.group_extension)
        fill = getattr(self, 'f_' + type(req).__name__[:-3], None)
        if fill is not None:
            r = fill(req, rsp)
            if isinstance(r, int):
                return bytes([r])
        return bytes(encode_message(rsp))

    # -- FRU
    def f_GetFruInventoryAreaInfo(self, req, rsp):
        rsp.area_size = len(self.fru)

    def f_ReadFruData(self, req, rsp):
        if req.offset + req.count > len(self.fru):
            return 0xC9
        if self.sh.get('fru_max') and req.count > self.sh['fru_max']:
            return 0xCA
        d = self.fru[req.offset:req.offset + req.count]
        rsp.count = len(d)
        rsp.data = d

    def f_WriteFruData(self, req, rsp):
        rsp.count_written = len(req.data)

    # -- SDR (repository and device)
    def _sdr(self, req, rsp):
        rid = req.record_id or 1
        if rid not in self.sdr:
            return 0xCB
        rec, nxt = self.sdr[rid]
        if self.sh.get('sdr_max') and req.bytes_to_read > self.sh['sdr_max']:
            return 0xCA
        rsp.next_record_id = nxt
        n = req.bytes_to_read
        rsp.record_data = rec[req.offset:] if n == 0xff else rec[req.offset:req.offset + n]
    f_GetSdr = _sdr
    f_GetDeviceSdr = _sdr

    def _reserve(self, req, rsp):
        rsp.reservation_id = 0x0123
    f_ReserveSdrRepository = _reserve
    f_ReserveDeviceSdrRepository = _reserve
    f_ReserveSel = _reserve

    def _clear(self, req, rsp):
        rsp.status.erase_in_progress = 1       # erasure completed
    f_ClearSdrRepository = _clear
    f_ClearSel = _clear

    # -- SEL
    def f_GetSelInfo(self, req, rsp):
        rsp.entries = len(self.sel)

    def f_GetSelEntry(self, req, rsp):
        rid = req.record_id or 1
        if rid not in self.sel:
            return 0xCB
        rec, nxt = self.sel[rid]
        if self.sh.get('sel_max') and req.length > self.sh['sel_max']:
            return 0xCA
        rsp.next_record_id = nxt
        n = req.length
        rsp.record_data = rec[req.offset:] if n == 0xff else rec[req.offset:req.offset + n]

    def f_DeleteSelEntry(self, req, rsp):
        rsp.record_id = req.record_id

    # -- HPM.1
    def f_GetTargetUpgradeCapabilities(self, req, rsp):
        rsp.hpm_1_version = 1
        rsp.component_present = self.sh.get('hpm_mask', 0x01)

    def f_GetComponentProperties(self, req, rsp):
        if req.selector in self.sh.get('hpm_missing', ()):
            return 0x83
        rsp.data = {0: bytes([0x0e]), 1: bytes([1, 0x23, 0, 0, 0, 1]), 2: b'BOOT\x00\x00\x00\x00\x00\x00\x00\x00',
                    3: bytes([1, 0x22, 0, 0, 0, 0]), 4: bytes([1, 0x24, 0, 0, 0, 2])}.get(req.selector, b'\x00')

    # -- assorted reads whose result expression needs some data to be present
    def f_GetPortState(self, req, rsp):
        rsp.data = bytes([0x41, 0x11, 0x00, 0x00, 0x01])

    def f_GetPowerChannelStatus(self, req, rsp):
        rsp.max_power_channel_number = 4
        rsp.data = bytes([0x5b])

    def f_GetSystemBootOptions(self, req, rsp):
        rsp.parameter_valid.boot_option_parameter_selector = req.parameter_selector.boot_option_parameter_selector
        rsp.data = bytes([0xE0, 0x04, 0, 0, 0])

    def f_GetLanConfigurationParameters(self, req, rsp):
        rsp.parameter_revision = 0x11
        rsp.data = {3: bytes([10, 0, 0, 1]), 4: bytes([1]), 5: bytes([0, 1, 2, 3, 4, 5]),
                    20: bytes([0x64, 0x80])}.get(req.parameter_selector, b'\x00')

    def f_GetDcmiSensorInfo(self, req, rsp):
        rsp.total_number_of_instances = 2
        rsp.number_of_record_ids = 2
        rsp.record_ids = bytes([0x10, 0x00, 0x11, 0x00])

    def f_GetUserName(self, req, rsp):
        rsp.user_name = b'admin' + bytes(11)

    def f_GetFanLevel(self, req, rsp):
        rsp.override_fan_level = 3
        rsp.data = bytes([2])

    def f_GetPowerLevel(self, req, rsp):
        rsp.power_draw = bytes([10, 20])

    def f_MasterWriteRead(self, req, rsp):
        rsp.data = bytes(range(req.read_count))

    def f_GetDeviceId(self, req, rsp):
        rsp.ipmi_version = 0x02


# ------------------------------------------------------------------------------------------
# arguments: a per-parameter table, with a few per-operation overrides
# ------------------------------------------------------------------------------------------
def _watchdog():
    import pyipmi.bmc as bmc
    w = bmc.Watchdog()
    w.timer_use, w.dont_stop, w.dont_log = 4, True, False
    w.pre_timeout_interrupt, w.timeout_action = 1, 2
    w.pre_timeout_interval, w.timer_use_expiration_flags, w.initial_countdown = 3, 0x10, 600
    return w


def _led():
    import pyipmi.picmg as p
    return p.LedState(fru_id=0, led_id=1, color=p.LedState.COLOR_RED, function=p.LedState.FUNCTION_ON)


def _link():
    import pyipmi.picmg as p
    l = p.LinkDescriptor()
    l.channel, l.interface, l.link_flags, l.type, l.sig_class, l.extension, l.grouping_id = 1, 0, 1, 1, 0, 0, 0
    return l


_IMG = {}


def _image_file():
    import pathlib
    from . import c18
    spec = {'header': {'device_id': 0, 'manufacturer_id': 0, 'product_id': 0, 'time': 0, 'capabilities': 0,
                       'components': 1, 'selftest_timeout': 0, 'rollback_timeout': 0, 'inaccessibility_timeout': 1,
                       'earliest_major': 0, 'earliest_minor': 0,
                       'firmware_revision': {'major': 1, 'minor': 0, 'aux': '00000000'}, 'oem': ''},
            'actions': [{'type': 1, 'components': 1},
                        {'type': 2, 'components': 1, 'version': {'major': 1, 'minor': 1, 'aux': '00000000'},
                         'description': (b'fw' + bytes(19)).hex(), 'firmware': bytes(range(50)).hex()}]}
    d = C.BUILD / 'c08'
    d.mkdir(parents=True, exist_ok=True)
    p = pathlib.Path(d) / 'image.hpm'
    p.write_bytes(c18.enc_image(spec))
    return str(p)


def _image():
    import pyipmi.hpm as hpm
    if 'img' not in _IMG:
        _IMG['file'] = _image_file()
        _IMG['img'] = hpm.UpgradeImage(_IMG['file'])
    return _IMG['img']


def _req():
    from pyipmi.msgs import create_request_by_name
    return create_request_by_name('GetDeviceId')


PARAMS = {
    'fru_id': lambda: 0, 'record_id': lambda: 0, 'reservation_id': lambda: 0x0123, 'reservation': lambda: 0x0123,
    'bus_type': lambda: 0, 'bus_id': lambda: 1, 'channel': lambda: 1, 'address': lambda: 0x50, 'count': lambda: 2,
    'data': lambda: bytes(range(1, 41)), 'config': _watchdog, 'option': lambda: 1,
    'parameter_selector': lambda: 5, 'boot_device': lambda: 'pxe', 'boot_mode': lambda: 'efi',
    'boot_persistency': lambda: True, 'selector': lambda: 1, 'mode': lambda: 1, 'power_type': lambda: 0,
    'fan_level': lambda: 3, 'led_id': lambda: 1, 'led': _led, 'ctrl': lambda: 0, 'link_descr': _link,
    'state': lambda: 1, 'channel_number': lambda: 1, 'channel_interface': lambda: 0, 'start': lambda: 1,
    'enable': lambda: True, 'current_limit': lambda: 1.5, 'interface': lambda: 0, 'signaling_class': lambda: 1,
    'component_id': lambda: 0, 'property_id': lambda: 1, 'descriptor': lambda: 'no-such-component',
    'components_mask': lambda: 1, 'action': lambda: 1, 'block_number': lambda: 0,
    'binary': lambda: bytes(range(50)), 'component': lambda: 0, 'length': lambda: 50, 'expected_cmd': lambda: 0x32,
    'timeout': lambda: 1, 'interval': lambda: 0.1, 'image': _image, 'filename': lambda: (_image(), _IMG['file'])[1],
    'offset': lambda: 0, 'progress': lambda: 1, 'cmd': lambda: 0xAA, 'sensor_number': lambda: 3,
    'sensor_type': lambda: 1, 'event_type': lambda: 1, 'ipmb_address': lambda: 0x20, 'lun': lambda: 0,
    'ip_address': lambda: '10.0.0.1', 'ip_source': lambda: 'static', 'vlan': lambda: 100, 'priv_lvl': lambda: 4,
    'userid': lambda: 2, 'ipmi_msg': lambda: 1, 'link_auth': lambda: 1, 'callback_only': lambda: 0,
    'priv_level': lambda: 'administrator', 'req': _req, 'name': lambda: 'GetDeviceId', 'netfn': lambda: 6,
    'raw_bytes': lambda: b'\x01', 'set_selector': lambda: 0, 'block_selector': lambda: 0,
}
OPARGS = {
    'set_system_boot_options': {'data': lambda: bytes([0xE0, 0x04, 0, 0, 0])},
    'set_lan_config_param': {'data': lambda: bytes([10, 0, 0, 2]), 'parameter_selector': lambda: 3},
    'get_lan_config_param': {'parameter_selector': lambda: 3, 'channel': lambda: 1},
    'i2c_write': {'data': lambda: bytes([1, 2])},
    'upload_firmware_block': {'data': lambda: bytes(range(20))},
    'partial_add_sdr': {'data': lambda: bytes(range(8))},
    'read_fru_data': {},                                 # whole area (offset=None)
    'set_sensor_thresholds': {'unr': lambda: 90, 'lcr': lambda: 5},
    'set_username': {'username': lambda: 'admin'},
    'set_user_password': {'password': lambda: 'secret'},
    'get_sel_entry': {'record_id': lambda: 1},
    'get_and_clear_sel_entry': {'record_id': lambda: 1},
    'delete_sel_entry': {'record_id': lambda: 1},
    'get_repository_sdr': {'record_id': lambda: 1},
    'get_device_sdr': {'record_id': lambda: 1},
    'wait_until_ipmb_is_accessible': {'timeout': lambda: 1},
    'wait_until_new_firmware_comes_up': {'timeout': lambda: 1, 'interval': lambda: 0.1},
}


def build_args(opname, shape=None):
    import inspect
    import pyipmi
    fn = getattr(pyipmi.Ipmi, opname)
    sig = inspect.signature(fn)
    over = dict(OPARGS.get(opname, {}))
    for k, v in ((shape or {}).get('args') or {}).items():
        over[k] = (lambda x: (lambda: bytes.fromhex(x[4:]) if isinstance(x, str) and x.startswith('hex:') else x))(v)
    kw = {}
    for pname, p in sig.parameters.items():
        if pname == 'self' or p.kind in (p.VAR_POSITIONAL, p.VAR_KEYWORD):
            continue
        if pname in over:
            kw[pname] = over[pname]()
        elif p.default is inspect.Parameter.empty:
            if pname not in PARAMS:
                raise KeyError('no argument value for parameter %s of %s' % (pname, opname))
            kw[pname] = PARAMS[pname]()
    return kw


# ------------------------------------------------------------------------------------------
# running one case
# ------------------------------------------------------------------------------------------
def run_case(opname, faults, shape=None):
    """faults: {exchange index: (cc, mode)}, mode in decoded | decoded+data | raised; shape: device content.
    Returns (outcome, log): outcome = ('ok', canonical value) | ('exc', class, text, exc_class)"""
    import types
    import pyipmi.errors as E
    dev = Bmc0(shape)
    n = [0]

    def handler(netfn, cmd, lun, data, req):
        i = n[0]
        n[0] += 1
        if i >= MAX_EXCHANGES:
            raise Runaway('more than %d exchanges' % MAX_EXCHANGES)
        f = faults.get(i)
        if f is not None:
            cc, mode = f
            if mode == 'raised':
                raise E.CompletionCodeError(cc)
            if mode == 'decoded+data':
                return bytes([cc]) + dev.handle(netfn, cmd, lun, data, req)[1:]
            return bytes([cc])
        return dev.handle(netfn, cmd, lun, data, req)
    ipmi, itf = F.connect(handler)
    kw = build_args(opname, shape)
    with A.patched_time():
        try:
            v = getattr(ipmi, opname)(**kw)
            if isinstance(v, types.GeneratorType):
                v = list(v)
            out = ('ok', A.canon(v))
        except Exception as e:  # noqa
            out = ('exc', A.exc_name(e), ('%s: %s' % (type(e).__name__, e))[:160], C.exc_class(e))
    return out, itf.log


AUX = {(0x0a, 0x22), (0x04, 0x22), (0x0a, 0x42)}       # reservation commands
POLL = (0x2c, 0x34)                                     # HPM Get Upgrade Status
SKIPS = {('get_component_properties', 0x83)}            # documented: property not available -> left out


CARRIERS = {
    'raw_command': lambda v, cc: isinstance(v, str) and v.startswith('hex:%02x' % cc),
    'send_message': lambda v, cc: isinstance(v, dict) and v.get('env', [[None, None]])[0] == ['int', cc],
}


# the documented adaptations (property anchors): which refused commands the library may issue again, for
# which codes.  Everything else must surface as an error.
C8, C9, CA, C5, C3, CE = 0xC8, 0xC9, 0xCA, 0xC5, 0xC3, 0xCE
ADAPT = {
    (0x0a, 0x11): {C8, C9, CA},          # Read FRU Data: read-size back-off
    (0x0a, 0x23): {C5, C3, CE, CA},      # Get SDR: reservation renewal, timeout / busy retry, smaller chunk
    (0x04, 0x21): {C5, C3, CE, CA},      # Get Device SDR
    (0x0a, 0x43): {CA, C5},              # Get SEL Entry: smaller chunk; get_and_clear_sel_entry renews
    (0x0a, 0x46): {C5},                  # Delete SEL Entry inside get_and_clear_sel_entry
    (0x0a, 0x47): {C5},                  # Clear SEL
    (0x0a, 0x27): {C5},                  # Clear SDR Repository
}
HPM_LONG = {(0x2c, 0x31), (0x2c, 0x32), (0x2c, 0x33), (0x2c, 0x35), (0x2c, 0x38)}


def adapted(log, j, fault):
    """is normal completion after the fault at request j covered by a documented retry / adaptation that the
    exchange log shows actually happened?"""
    cc, mode = fault
    cmd = (log[j].netfn, log[j].cmd)
    if mode == 'raised' and cc == 0xC0:
        return len(log) > j + 1 and log[j + 1].canon()[:4] == log[j].canon()[:4]      # send_message busy retry
    if cc == 0x80 and cmd in HPM_LONG:
        return any((y.netfn, y.cmd) == POLL for y in log[j + 1:])
    return cc in ADAPT.get(cmd, ()) and reissued(log, j)


# record / data reads: an operation that starts over after a renewed reservation reads them again, which changes nothing
# on the BMC (the value read is compared separately, as the operation's result)
REREAD = {(0x0a, 0x43), (0x0a, 0x23), (0x04, 0x21), (0x0a, 0x11)}


def accepted(log, faults):
    """the requests the BMC accepted, without reservations, status polls and record reads: (netfn, cmd, data hex); a
    request answered with an injected code counts only when that code means 'accepted, in progress' (HPM 0x80)"""
    out = []
    for i, x in enumerate(log):
        cmd = (x.netfn, x.cmd)
        if cmd in AUX or cmd == POLL or cmd in REREAD:
            continue
        f = faults.get(i)
        if f is not None and not (f[0] == 0x80 and cmd in HPM_LONG):
            continue
        out.append('%02x.%02x %s' % (x.netfn, x.cmd, x.data.hex()))
    return out


def reissued(log, k):
    """was the request refused at index k issued again later (same command, same length, at most 3 bytes
    differing: reservation id / reduced count)?"""
    x = log[k]
    for y in log[k + 1:]:
        if (y.netfn, y.cmd) == (x.netfn, x.cmd) and len(y.data) == len(x.data):
            if sum(1 for a, b in zip(x.data, y.data) if a != b) <= 3:
                return True
    return False


def judge(opname, base, out, log, faults, shape=None, blog=None):
    """None when the property holds on this run, else (kind, text)"""
    ks = sorted(faults)
    consumed = [k for k in ks if k < len(log)]
    if not consumed:
        return None
    ccs = {faults[k][0] for k in consumed}
    if out[0] == 'exc':
        cls = out[1]
        if base[0] == 'exc' and out[1] == base[1] and all(adapted(log, j, faults[j]) for j in consumed):
            return None      # the faults were retried / adapted; the device itself refuses a later request, as without them
        if cls.startswith('CCError'):
            got = int(cls.split()[1])
            if got in ccs:
                return None
            return ('wrong-code', 'raised CompletionCodeError(0x%02x), the BMC answered %s' % (got, sorted(ccs)))
        if cls in ('RetryError', 'HpmError'):
            return None
        return ('unrelated-error', 'raised %s' % out[2])
    # completed normally
    k = consumed[0]
    cc, mode = faults[k]
    if opname in CARRIERS and mode != 'raised':
        # the two transport-level primitives hand the response itself to the caller: the code must be in it
        if CARRIERS[opname](out[1], cc):
            return None
        return ('different-value', 'returned %s: the code 0x%02x of the response is not in it' % (json.dumps(out[1])[:100], cc))
    if mode == 'raised' and cc != 0xC0 and len(log) > k + 1 and log[k + 1].canon()[:4] == log[k].canon()[:4] \
            and (log[k].netfn, log[k].cmd) not in AUX:
        # Ipmi.send_message swallowed a non-busy code raised by the transport and sent the request again
        if not _loop_reissues(opname, k, cc, shape):
            return ('send_message:resend-after-non-busy',
                    'CompletionCodeError(0x%02x) raised by the interface at request %d was swallowed and the '
                    'request sent again' % (cc, k))
    if (opname, cc) in SKIPS and base[0] == 'ok' and isinstance(base[1], list) and len(consumed) == 1:
        # request k asks for property selector k: the result is the fault-free one without that property
        want = [x for x in base[1] if SEL_OF.get(x.get('__class__')) != k]
        if out[1] == want:
            return None
        return ('different-value', 'returned %s, expected the fault-free result without entry %d'
                % (json.dumps(out[1])[:120], k))
    evid = all(adapted(log, j, faults[j]) for j in consumed)
    if base[0] == 'ok' and out[1] == base[1]:
        if evid:
            # "completes with the same result it produces without the fault" includes what the BMC was made to do:
            # when the adaptation does not change the request parameters (busy / timeout retry, reservation renewal,
            # HPM long-duration polling - not the read-size back-off), the requests the BMC accepted must be exactly
            # those of the fault-free run on the same content
            if blog is not None and all(faults[j][0] not in (C8, C9, CA) for j in consumed):
                got, want = accepted(log, faults), accepted(blog, {})
                if got != want:
                    i = next((n for n, (a, b) in enumerate(zip(got, want)) if a != b), min(len(got), len(want)))
                    return ('different-requests', 'completed normally after request %d was answered 0x%02x, but the BMC was then '
                            'sent other requests than without the fault: accepted request #%d is %s instead of %s'
                            % (k, cc, i, got[i] if i < len(got) else None, want[i] if i < len(want) else None))
            return None
        return ('swallowed', 'completed normally (result as without the fault) although request %d was answered '
                '0x%02x (%s) and no documented retry / adaptation for that code took place' % (k, cc, mode))
    return ('different-value', 'returned %s after request %d was answered 0x%02x (%s); fault-free result %s'
            % (json.dumps(out[1])[:100], k, cc, mode, json.dumps(base[1])[:100] if base[0] == 'ok' else base[1]))


_LOOP_CACHE = {}


def _loop_reissues(opname, k, cc, shape=None):
    """does the operation itself (not send_message) re-issue request k after this code when the code comes in
    the decoded response?  (then a re-send in raised mode is the operation's documented adaptation)"""
    key = (opname, k, cc, json.dumps(shape, sort_keys=True))
    if key not in _LOOP_CACHE:
        out, log = run_case(opname, {k: (cc, 'decoded')}, shape)
        _LOOP_CACHE[key] = out[0] == 'ok' and len(log) > k + 1 and reissued(log, k)
    return _LOOP_CACHE[key]


def vkey(kind, opname, log, k):
    if kind.startswith('send_message:'):
        return kind
    name = '%02x.%02x' % (log[k].netfn, log[k].cmd) if k is not None and k < len(log) else '-'
    return '%s:%s:%s' % (kind, opname, name)


def oracle_fault(inp):
    faults = {int(k): (v[0], v[1]) for k, v in inp['faults'].items()}
    shape = inp.get('shape')
    base, blog = run_case(inp['op'], {}, shape)
    if not faults:
        return baseline_problem(inp['op'], base)
    out, log = run_case(inp['op'], faults, shape)
    r = judge(inp['op'], base, out, log, faults, shape, blog)
    return None if r is None else '%s: %s' % (inp['op'], r[1])


def baseline_problem(opname, base):
    if base[0] == 'exc' and (base[1].startswith('other:') or base[1] in ('DecodingError', 'EncodingError')):
        return '%s fails against a BMC that answers every request with OK: %s' % (opname, base[2])
    return None


ORACLES = {'fault': oracle_fault}


def replay(data):
    r = data['replay']
    return ORACLES[r['oracle']](r['input']) is None


# ------------------------------------------------------------------------------------------
# ------------------------------------------------------------------------------------------
# device content shapes: the fault sweep of an operation that reads device content is repeated on several
# contents (sizes at and around the chunk boundaries, device read limits, record counts and kinds)
# ------------------------------------------------------------------------------------------
SHAPE_CCS = [0x01, 0x80, 0x83, 0xC0, 0xC3, 0xC5, 0xC8, 0xC9, 0xCA, 0xCE, 0xFF]
FRU_SIZES = [1, 2, 31, 32, 33, 34, 63, 64, 65, 66, 98, 255, 256]
FRU_MR = [(10, 13), (10, 14), (30, 25), (30, 26), (44, 44), (0, 0), (1, 250)]
SDR_PAY = [(0,), (1,), (15,), (16,), (20,), (59,), (250,), (255,), (3, 0, 40, 16)]
SEL_TYPES = [(), (0x02,), (0xC0, 0xE0, 0x02), (0x02, 0x02, 0x02, 0x02, 0x02)]
SDR_OPS = ['get_repository_sdr', 'get_device_sdr', 'sdr_repository_entries', 'get_repository_sdr_list',
           'device_sdr_entries', 'get_device_sdr_list']
SEL_OPS = ['get_sel_entry', 'get_sel_entries', 'sel_entries', 'get_and_clear_sel_entry', 'get_sel_entries_count']
HPM_OPS = ['get_component_properties', 'find_component_id_by_descriptor', 'preparation_stage',
           'install_component_from_image', 'install_component_from_file']


def shapes_for(opname, rng, quick):
    out = []
    if opname in ('read_fru_data', 'read_fru_data_full'):
        out = [{'fru_size': n} for n in FRU_SIZES] + [{'fru_size': 66, 'fru_max': 16}, {'fru_size': 33, 'fru_max': 7},
                                                      {'fru_size': 98, 'fru_max': 31}]
        if opname == 'read_fru_data':
            out += [{'args': {'offset': o, 'count': c}} for o, c in ((0, 33), (5, 34), (7, 1), (2, 2), (1, 65), (40, 33))]
        if quick:
            pick = [{'fru_size': rng.choice([33, 34, 65, 66, 98])}, {'fru_size': rng.choice([1, 2, 31, 32])},
                    {'fru_size': rng.choice([63, 64, 255, 256])}, rng.choice(out[len(FRU_SIZES):])]
            out = pick
    elif opname in ('get_fru_multirecord_area', 'get_fru_inventory'):
        out = [{'fru_mr': list(m)} for m in FRU_MR] + [{'fru_mr': [10, 13], 'fru_max': 16}, {'fru_max': 7}]
        if quick:
            out = [{'fru_mr': list(rng.choice(FRU_MR[:4]))}, {'fru_mr': list(rng.choice(FRU_MR[4:]))}, rng.choice(out[len(FRU_MR):])]
    elif opname in ('get_fru_chassis_area', 'get_fru_board_area', 'get_fru_product_area', 'get_fru_inventory_header'):
        out = [{'fru_max': 16}, {'fru_max': 7}]
        if quick:
            out = [rng.choice(out)]
    elif opname == 'write_fru_data':
        out = [{'args': {'data': 'hex:' + bytes(range(1, n + 1)).hex()}} for n in (1, 15, 16, 17, 33)]
        if quick:
            out = rng.sample(out, 2)
    elif opname in SDR_OPS:
        out = [{'sdr': list(p)} for p in SDR_PAY] + [{'sdr_max': 16}, {'sdr': [59], 'sdr_max': 10}]
        if quick:
            out = [{'sdr': list(rng.choice(SDR_PAY[:5]))}, {'sdr': list(rng.choice(SDR_PAY[5:]))}, rng.choice(out[len(SDR_PAY):])]
    elif opname in SEL_OPS:
        out = [{'sel': list(t)} for t in SEL_TYPES] + [{'sel_max': 16}, {'sel_max': 8, 'sel': [0xC0, 0x02]}]
        if quick:
            out = [{'sel': list(rng.choice(SEL_TYPES))}, rng.choice(out[len(SEL_TYPES):])]
    elif opname in HPM_OPS:
        out = [{'hpm_missing': [3, 4]}, {'hpm_missing': [1, 3, 4]}, {'hpm_missing': [0, 1, 2, 3, 4]}, {'hpm_mask': 0x05},
               {'hpm_mask': 0xff, 'hpm_missing': [2]}]
        if quick:
            out = rng.sample(out, 2)
    return out


def c_obs(out):
    return 'None' if out[0] == 'ok' else '(Some %s)' % C.c_err(out[3])


def c_ids(log):
    return C.c_list(['(%d, %d)' % (x.netfn, x.cmd) for x in log])


def c_replies(log):
    return C.c_list([F.c_reply(x) for x in log])


SEL_OF = {'ComponentPropertyGeneral': 0, 'ComponentPropertyCurrentVersion': 1,
          'ComponentPropertyDescriptionString': 2, 'ComponentPropertyRollbackVersion': 3,
          'ComponentPropertyDeferredVersion': 4}


def run(ctx):
    import pyipmi
    import pyipmi.errors as E
    rng = ctx.rng
    q = ctx.quick
    res = C.Result(model_map=MODEL_MAP)
    D = C.Distinct()
    fails = {}
    terms, meta = [], []

    def violation(key, what, inp):
        if key not in fails:
            fails[key] = C.Violation(key=key, what=what, replay={'oracle': 'fault', 'input': inp})

    ops = A.public_ops()
    # which operations are in the straight-line class: ask the generated model
    simple_txt = A.with_fresh_gen(GENS, ['Corr/C08.vo'], lambda: C.coq_eval(
        'C08', 'Lib.Prog Model.ApiShape Gen.ApiOps Corr.C08',
        '(map o_name (filter (simple_checked api_ops) api_ops), '
        'map qname (filter (fun o => negb (classified api_ops o)) api_ops))'))
    parts = simple_txt.split('],')
    simple = set(re.findall(r'"([^"]+)"', parts[0])) if parts else set()
    unclassified = re.findall(r'"([^"]+)"', parts[1]) if len(parts) > 1 else []
    # DOWNGRADE RULE: operations whose shape the translator could not produce in this run (or that call one)
    ttxt = A.with_fresh_gen(GENS, ['Corr/C08.vo'], lambda: C.coq_eval(
        'C08', 'Lib.Prog Model.ApiShape Gen.ApiOps Corr.C08',
        '(map (fun o => (o_name o, flat_map (fun s => match s with Untranslated w => [w] | _ => [] end) (o_steps o))) '
        '(filter (tainted api_ops) api_ops))'))
    downgraded = {}
    for m in re.finditer(r'\("([A-Za-z_0-9]+)",\s*\[(.*?)\]\)', ttxt, flags=re.S):
        downgraded[m.group(1)] = '; '.join(re.findall(r'"((?:[^"]|"")*)"', m.group(2)))[:300] or 'calls a downgraded operation'
    ccs = QUICK_CCS if q else list(range(1, 256))
    per_op = {}
    skipped = {}
    for opname in ops:
        if opname in A.EXCLUDED:
            skipped[opname] = A.EXCLUDED[opname]
            continue
        try:
            base, blog = run_case(opname, {})
        except KeyError as e:
            skipped[opname] = 'no argument table entry: %s' % e
            continue
        n = len(blog)
        per_op[opname] = {'exchanges': n, 'class': 'simple_checked' if opname in simple else 'oracle only',
                          'baseline': base[0] if base[0] == 'ok' else base[1]}
        bp = baseline_problem(opname, base)
        if bp:
            # keyed by the error itself (two operations failing on the same line are one defect); the
            # fault runs of an operation that cannot complete at all would only repeat it
            violation('baseline:%s' % re.sub(r'0x[0-9a-f]+', '', base[2]), bp, {'op': opname, 'faults': {}})
            per_op[opname]['faults'] = 'not injected: fails without any fault'
            continue
        if opname in simple:
            terms.append('chk_shape %s "GetDeviceId" [] %s %s %s' % (C.c_str(opname), c_replies(blog), c_ids(blog), c_obs(base)))
            meta.append(('baseline', opname))
        D.add(('base', opname), n > 0, 'baseline')
        res.evaluations += 1
        # request indices: all when few, else first 4, last 3 and a random sample
        idx = list(range(n))
        lim = 10 if q else 40
        if n > lim:
            idx = sorted(set(idx[:4] + idx[-3:] + rng.sample(idx, lim - 7)))
        modes = ['decoded', 'raised'] + ([] if q else ['decoded+data'])
        for k in idx:
            for cc in ccs:
                for mode in modes:
                    faults = {k: (cc, mode)}
                    out, log = run_case(opname, faults)
                    res.evaluations += 1
                    D.add((opname, k, cc, mode), True, mode)
                    r = judge(opname, base, out, log, faults, None, blog)
                    if r is not None:
                        violation(vkey(r[0], opname, log, k), '%s: %s' % (opname, r[1]),
                                  {'op': opname, 'faults': {str(k): [cc, mode]}})
                    if opname in simple and cc in CORR_CCS and mode != 'decoded+data':
                        terms.append('chk_shape %s "GetDeviceId" [] %s %s %s'
                                     % (C.c_str(opname), c_replies(log), c_ids(log), c_obs(out)))
                        meta.append(('fault', opname, k, cc, mode))
                    if opname == 'get_component_properties' and cc in CORR_CCS + [0x81, 0x82] and mode != 'decoded+data':
                        if out[0] == 'ok':
                            obs = '(Ok %s)' % C.c_list([str(SEL_OF[x['__class__']]) for x in out[1]])
                        else:
                            obs = '(Err %s)' % C.c_err(out[3])
                        terms.append('chk_gcp %s %d%%nat %s' % (c_replies(log), len(log), obs))
                        meta.append(('gcp', k, cc, mode))
        # double faults (sampled): both codes are acceptable outcomes
        if n >= 2 and not q:
            for _ in range(12):
                k1, k2 = sorted(rng.sample(range(n), 2))
                faults = {k1: (rng.choice(ccs), rng.choice(modes)), k2: (rng.choice(ccs), rng.choice(modes))}
                out, log = run_case(opname, faults)
                res.evaluations += 1
                D.add((opname, 'double', tuple(sorted(faults.items()))), True, 'double')
                r = judge(opname, base, out, log, faults)
                if r is not None:
                    violation(vkey(r[0], opname, log, k1), '%s: %s' % (opname, r[1]),
                              {'op': opname, 'faults': {str(k): list(v) for k, v in faults.items()}})
        # the same sweep on other device contents (sizes around the chunk boundaries, device read limits, ...):
        # the faulted outcome is compared with the fault-free outcome ON THE SAME content
        for shape in shapes_for(opname, rng, q):
            sbase, slog = run_case(opname, {}, shape)
            res.evaluations += 1
            sn = len(slog)
            if baseline_problem(opname, sbase):
                violation('baseline:%s' % re.sub(r'0x[0-9a-f]+', '', sbase[2]), baseline_problem(opname, sbase) +
                          ' (device content %s)' % json.dumps(shape), {'op': opname, 'faults': {}, 'shape': shape})
                continue
            sidx = list(range(sn))
            if sn > (8 if q else 40):
                sidx = sorted(set(sidx[:2] + sidx[-3:] + rng.sample(sidx, 3 if q else 35)))
            for k in sidx:
                for cc in SHAPE_CCS:
                    for mode in ('decoded', 'raised'):
                        faults = {k: (cc, mode)}
                        out, log = run_case(opname, faults, shape)
                        res.evaluations += 1
                        D.add((opname, json.dumps(shape, sort_keys=True), k, cc, mode), True, 'content-shape')
                        r = judge(opname, sbase, out, log, faults, shape, slog)
                        if r is not None:
                            violation(vkey(r[0], opname, log, k), '%s (device content %s): %s' % (opname, json.dumps(shape), r[1]),
                                      {'op': opname, 'faults': {str(k): [cc, mode]}, 'shape': shape})
    # Ipmi.send_message alone against its hand model: sequences of raised busy / other codes / answers
    from pyipmi.msgs import create_request_by_name
    seqs = []
    for retry in (0, 1, 2, 3, 4):
        for L in range(0, 6):
            for _ in range(2 if q else 12):
                seqs.append((retry, [rng.choice(['busy', 'busy', 'ok', 'cc', 'err']) for _ in range(L)] + ['ok']))
    for retry, seq in seqs:
        it = iter(seq)

        def handler(netfn, cmd, lun, data, req):
            s = next(it)
            if s == 'busy':
                raise E.CompletionCodeError(0xC0)
            if s == 'cc':
                raise E.CompletionCodeError(0xC3)
            if s == 'err':
                raise E.IpmiTimeoutError()
            return bytes([0]) + bytes(11)
        ipmi, itf = F.connect(handler)
        try:
            ipmi.send_message(create_request_by_name('GetDeviceId'), retry=retry)
            obs = 'None'
        except Exception as e:  # noqa
            obs = '(Some %s)' % C.c_err(C.exc_class(e))
        terms.append('chk_send %d%%nat %s %d%%nat %s' % (retry, c_replies(itf.log), len(itf.log), obs))
        meta.append(('send_message', retry, seq))
        D.add(('send', retry, tuple(seq)), True, 'send_message')
    # reshaped: shape produced but neither in the class nor the recorded one - same requirement
    reshaped = {}
    for qn in unclassified:
        n = qn.split('.')[-1]
        if n not in downgraded:
            reshaped[n] = 'its exchange shape is neither in the straight-line class nor the recorded shape of %s' % qn
    for dop, why in sorted(list(downgraded.items()) + list(reshaped.items())):
        if dop.startswith('_') or dop not in ops:
            continue                     # private: exercised through the public operations that call it
        bad = [k for k in fails if (':%s:' % dop) in k or k.endswith(':' + dop)]
        if dop not in per_op or 'faults' in per_op[dop] or bad:
            key = 'downgraded-without-oracle:%s' % dop
            fails.setdefault(key, C.Violation(
                key=key, what='%s: not in the class in this run (%s): the class theorem '
                'is not claimed for it, and the fault oracle did not exercise it cleanly' % (dop, why),
                replay={'oracle': 'fault', 'input': {'op': dop, 'faults': {}}}, found_input=False))
    failing, errors = A.with_fresh_gen(GENS, ['Corr/C08.vo'], lambda: C.coq_cases(
        'C08', 'Lib.Prog Model.ApiShape Gen.ApiOps Corr.C08', terms))
    res.mismatches = [{'case': meta[i], 'term': terms[i][:500]} for i in failing[:50]]
    res.extra['mismatch_samples'] = res.mismatches[:5]
    res.corr_errors = errors
    res.evaluations += len(terms)
    res.distinct_nontrivial = D.distinct
    res.histogram = D.hist
    res.oracle_failures = list(fails.values())
    tot = [o for o in ops]
    res.extra.update({
        'ops_total': len(tot),
        'ops_simple_checked': sorted(o for o in per_op if per_op[o]['class'] == 'simple_checked'),
        'ops_oracle_only': sorted(o for o in per_op if per_op[o]['class'] != 'simple_checked'),
        'ops_not_exercised': skipped,
        'ops_unclassified_by_model': unclassified,
        'ops_downgraded': {k: v for k, v in downgraded.items() if k in ops},
        'ops_reshaped': reshaped,
        'per_op': per_op,
        'completion_codes': 'all 0x01..0xff' if not q else ['0x%02x' % c for c in ccs],
        'correspondence_cases': len(terms),
    })
    res.rule = ('every public callable of pyipmi.Ipmi (introspection) x request index (all when <= %d, else first 4, last 3 '
                'and a random sample) x completion code x {decoded response carrying the code, CompletionCodeError raised '
                'by the interface%s}; baseline run per operation; %ssend_message alone on busy/other/timeout sequences for '
                'retry budgets 0..4; operations that read device content (FRU, SDR, SEL, HPM properties) are swept again on %s other contents each (FRU sizes 1..256 incl. 33/34/65/66/98, multi-record lengths, device read limits, SDR payloads 0..255 and 1..4 records, SEL logs of 0..5 entries, HPM property subsets) with the adaptation codes. non-trivial = the operation issues at least one request'
                % (10 if q else 40, '' if q else ', code followed by the normal data', '' if q else '12 double faults per operation; ',
                   '2-4 sampled' if q else 'all listed'))
    pick = [i for i, m in enumerate(meta) if m[0] == 'fault']
    res.samples = [{'term': terms[i][:300], 'case': meta[i]} for i in pick[:2] + pick[len(pick) // 2:len(pick) // 2 + 2]]
    return res
