"""Deterministic thread scheduler for C14: REAL Python threads over ONE real Rmcp object.

No hook in the repository is used.  Control is gained from outside:
  * `next_sequence_number` is observed through a data descriptor added by a harness-side
    subclass of Rmcp (every read / write of the attribute is a scheduling point);
  * the module global `threading` of rmcp.py is shimmed for the duration of a run so that
    EVERY lock the code creates - `transaction_lock` in the constructor, or any other lock
    object(s) it decides to use - is a cooperative lock of the scheduler (acquire / release
    are scheduling points; a thread waiting for an owned lock is "blocked");
  * the first source line of `_send_and_receive` a thread executes after releasing a lock
    (sys.settrace on that one function) is a scheduling point: the window between the
    release and the return;
  * `_sock` is a scripted socket with an in-order reference BMC (sendto / recvfrom are
    scheduling points; no network, no waiting);
  * optionally (`fine=True`) every source line executed inside pyipmi/interfaces/rmcp.py
    and pyipmi/session.py (sys.settrace) and every access to Session.sequence_number is a
    scheduling point as well;
  * the keep-alive is the real `loop` closure made by rmcp.call_repeatedly(interval, job)
    - obtained with a shim for the module global `threading` so that no timer thread is
    started and Event.wait never waits - run as an ordinary scheduled thread; `job` is
    exactly the callable (and args) that the REAL establish_session of the code under
    test hands to call_repeatedly (captured by keepalive_tie, re-bound to the interface
    object of the run), whether or not it ever touches the lock.

Exactly one thread runs at any time.  A run is a function of (configuration, list of
thread choices): choosing a thread lets it perform the action it is parked at and run
to its next scheduling point.  Choosing a finished or blocked thread is a no-op.  A thread
blocked in a TIMED acquire can also be chosen as -(tid + 1): time passes for this waiter, its
acquire returns False (threading.Lock protocol; release of an unlocked lock raises RuntimeError).  When
the choice list is exhausted the default policy continues (stay on the current thread
if it can move, else the lowest enabled one).  Every run is guarded by a step budget.
"""
import socket
import sys
import threading
from array import array

PASSWORD = 'secret'
MODEL_KINDS = ('rd', 'wr', 'acq', 'snd', 'rcv', 'tmo', 'rel', 'ret')


class Abort(BaseException):
    pass


class HarnessError(Exception):
    pass


class Sched:
    def __init__(self, choices, budget=20000, wait_s=20.0):
        self.choices = list(choices)
        self.budget = budget
        self.wait_s = wait_s
        self.go = {}            # tid -> Semaphore
        self.back = threading.Semaphore(0)
        self.pending = {}       # tid -> kind it is parked at
        self.pending_obj = {}   # tid -> the lock it wants (kind 'acq')
        self.timed = {}         # tid -> its pending acquire is timed / non-blocking
        self.expire = set()     # tids whose timed acquire the scheduler lets time out
        self.after_release = {}  # tid -> released a lock and has not executed a line of _send_and_receive since
        self.locks = []         # every cooperative lock created during the run
        self.finished = set()
        self.ident = {}         # thread ident -> tid
        self.abort = False
        self.trace = []         # performed actions (tid, kind, value)
        self.taken = []         # effective choices (tid) incl. default-policy ones
        self.enabled_log = []   # per effective choice: (enabled tuple, chosen)
        self.status = 'ok'

    # ---- worker side
    def me(self):
        return self.ident[threading.get_ident()]

    def park(self, kind, obj=None, timed=False):
        tid = self.ident.get(threading.get_ident())
        if tid is None:         # not a scheduled thread (set-up code): no scheduling
            return None
        self.pending[tid] = kind
        self.pending_obj[tid] = obj
        self.timed[tid] = timed
        self.back.release()
        if not self.go[tid].acquire(timeout=self.wait_s):
            raise Abort()
        if self.abort:
            raise Abort()
        del self.pending[tid]
        return tid

    def did(self, tid, kind, val=0):
        if tid is not None:
            self.trace.append((tid, kind, val))

    # ---- scheduler side
    def run(self, workers, blocked):
        """workers: dict tid -> callable.  blocked(tid, kind) -> bool."""
        tids = sorted(workers)
        ths = {}
        for t in tids:
            self.go[t] = threading.Semaphore(0)

        def body(t):
            self.ident[threading.get_ident()] = t
            try:
                workers[t]()
            except Abort:
                pass
            finally:
                self.finished.add(t)
                self.back.release()

        for t in tids:   # start one at a time; each runs to its first scheduling point
            th = threading.Thread(target=body, args=(t,), name='c14-%d' % t, daemon=True)
            ths[t] = th
            th.start()
            if not self.back.acquire(timeout=self.wait_s):
                self.status = 'harness-timeout'
                self._abort_all(tids)
                return
        i, steps, last = 0, 0, None
        while len(self.finished) < len(tids):
            live = [t for t in tids if t not in self.finished]
            normal = [t for t in live if not blocked(t, self.pending.get(t))]
            # a thread blocked in a TIMED (or non-blocking) acquire has one more way to go on: the
            # scheduler lets time pass for it and its acquire returns False; choice -(tid + 1)
            expiries = [-(t + 1) for t in live if t not in normal and self.timed.get(t)]
            enabled = normal + expiries
            if not enabled:
                self.status = 'deadlock'
                break
            if i < len(self.choices):
                c = self.choices[i]
                i += 1
                if c not in enabled:
                    continue
            else:
                c = last if last in normal else enabled[0]
            steps += 1
            if steps > self.budget:
                self.status = 'budget'
                break
            self.enabled_log.append((tuple(enabled), c))
            self.taken.append(c)
            if c < 0:
                c = -c - 1
                self.expire.add(c)
            last = c
            self.go[c].release()
            if not self.back.acquire(timeout=self.wait_s):
                self.status = 'harness-timeout'
                break
        if self.status != 'ok':
            self._abort_all(tids)
        for t in tids:
            ths[t].join(self.wait_s)

    def _abort_all(self, tids):
        self.abort = True
        for t in tids:
            self.go[t].release()


class CoopLock:
    """lock-like object; non-reentrant like threading.Lock"""

    def __init__(self, s):
        self.s = s
        self.owner = None
        s.locks.append(self)

    def acquire(self, blocking=True, timeout=-1):
        """threading.Lock.acquire: untimed -> waits until free, True; non-blocking or timed ->
        False when the lock is held and (the scheduler decides that) the time is up"""
        timed = (not blocking) or (timeout is not None and timeout >= 0)
        tid = self.s.park('acq', self, timed)
        if tid is None:
            return True
        if tid in self.s.expire:
            self.s.expire.discard(tid)
            self.s.did(tid, 'atmo')
            return False
        if self.owner is not None:
            raise HarnessError('scheduler resumed a blocked thread')
        self.owner = tid
        self.used = True
        self.s.after_release[tid] = False
        self.s.did(tid, 'acq')
        return True

    def release(self):
        """threading.Lock.release: any thread may release a locked lock; RuntimeError when unlocked"""
        tid = self.s.park('rel')
        if tid is None:
            return
        if self.owner is None:
            raise RuntimeError('release unlocked lock')
        self.owner = None
        self.s.after_release[tid] = True
        self.s.did(tid, 'rel')

    def locked(self):
        return self.owner is not None

    def __enter__(self):
        self.acquire()
        return True

    def __exit__(self, *a):
        self.release()


def csum(b):
    return (-sum(b)) % 256


def parse_tx(pdu):
    """independent parse of a transmitted datagram -> dict(sseq, sid, auth, seq, netfn, cmd, ...);
    Send Message wrappers (bridged request) are unwrapped: the fields are those of the innermost
    request, 'wrappers' lists the Send Message requests around it (outermost first)"""
    b = bytes(pdu)
    if b[:4] != bytes([6, 0, 0xff, 7]):
        raise HarnessError('not an RMCP/IPMI datagram: ' + b.hex())
    auth = b[4]
    sseq = int.from_bytes(b[5:9], 'little')
    sid = int.from_bytes(b[9:13], 'little')
    off = 13 + (16 if auth != 0 else 0)
    ln = b[off]
    outer = b[off + 1:]
    if ln != len(outer):
        raise HarnessError('length byte of the datagram is wrong: ' + b.hex())

    def fields(m):
        if len(m) < 7 or sum(m[0:3]) % 256 or sum(m[3:]) % 256:
            raise HarnessError('malformed IPMB message in datagram: ' + b.hex())
        return {'rs_sa': m[0], 'netfn': m[1] >> 2, 'rs_lun': m[1] & 3, 'rq_sa': m[3], 'seq': m[4] >> 2,
                'rq_lun': m[4] & 3, 'cmd': m[5], 'data': m[6:-1].hex()}
    m = outer
    f = fields(m)
    wrappers = []
    while f['netfn'] == 6 and f['cmd'] == 0x34:      # Send Message: [channel byte] + embedded request
        wrappers.append(f)
        m = m[7:-1]
        f = fields(m)
    f.update({'auth': auth, 'sseq': sseq, 'sid': sid, 'raw_seq': b[5:9].hex(), 'raw_sid': b[9:13].hex(),
              'authcode': b[13:29].hex() if auth != 0 else '', 'msg': outer.hex(),
              'wrappers': wrappers, 'depth': len(wrappers)})
    return f


def ipmb_response(p, data, sid=0):
    """datagram carrying the response of the responder addressed by request fields p"""
    h = [p['rq_sa'], ((p['netfn'] | 1) << 2) | p['rq_lun']]
    h.append(csum(h))
    r = [p['rs_sa'], (p['seq'] << 2) | p['rs_lun'], p['cmd']] + list(data)
    r.append(csum(r))
    msg = bytes(h + r)
    return bytes([6, 0, 0xff, 7, 0]) + (0).to_bytes(4, 'little') + sid.to_bytes(4, 'little') + bytes([len(msg)]) + msg


def bmc_answer(p, serial):
    """the in-order reference BMC: reply to parsed request p, payload unique by serial
    (a valid Get Device ID response body whose device_id byte is the serial)"""
    assert serial < 256
    data = [0x00, serial, 0x01, 0x01, 0x02, 0x02, 0xbf, 0x3a, 0x3c, 0x00, 0x34, 0x12]
    return ipmb_response(p, data, p['sid'])


class ScriptedSocket:
    def __init__(self, s, stale=(), lose=()):
        self.s = s
        self.stale = set(stale)   # datagram numbers answered with an unrelated frame first
        self.lose = set(lose)     # datagram numbers whose reply is lost (recvfrom times out)
        self.wire = []      # ('tx', tid, reqidx, parsed, serial) / ('rx', tid, serial, ..) / ('krx', tid, serial) / ASF
        self.pending = []   # (serial, datagram, kind)
        self.nrx = 0
        self.reqidx = {}    # tid -> index of the request the thread is working on
        self.setup = None   # during session establishment: {'auth': .., 'sid': .., 'cmds': [...]}

    def settimeout(self, t):
        pass

    def close(self):
        pass

    def _setup_answer(self, b):
        """the BMC during establish_session (single-threaded, before the schedule starts):
        pong, Get Channel Authentication Capabilities, Get Session Challenge, Activate Session,
        Set Session Privilege Level - not part of the observed history"""
        st = self.setup
        if b[:4] == bytes([6, 0, 0xff, 6]):
            st['cmds'].append('ping')
            return (bytes([6, 0, 0xff, 6]) + (4542).to_bytes(4, 'big') + bytes([0x40, b[9] if len(b) > 9 else 0, 0, 16])
                    + (4542).to_bytes(4, 'big') + bytes(4) + bytes([0x81, 0]) + bytes(6))
        p = parse_tx(b)
        st['cmds'].append(p['cmd'])
        support = {0: 0x01, 2: 0x04, 4: 0x10}[st['auth']]
        sid = st['sid']
        data = {0x38: [0, 0x0e, support, 0, 1, 0, 0, 0, 0],
                0x39: [0] + list(sid.to_bytes(4, 'little')) + list(range(16)),
                0x3a: [0, st['auth']] + list(sid.to_bytes(4, 'little')) + list((0x1000).to_bytes(4, 'little')) + [4],
                0x3b: [0, 4]}.get(p['cmd'])
        if data is None:
            raise HarnessError('unexpected command 0x%02x during session establishment' % p['cmd'])
        return ipmb_response(p, data)

    def sendto(self, pdu, addr):
        if self.setup is not None:
            self.pending.append((0, self._setup_answer(bytes(pdu)), 'setup'))
            return len(pdu)
        tid = self.s.park('snd')
        b = bytes(pdu)
        serial = self.nrx
        if b[:4] == bytes([6, 0, 0xff, 6]):
            # ASF presence ping (Rmcp.ping): the BMC answers with a pong
            self.nrx += 1
            self.wire.append(('atx', tid, self.reqidx.get(tid, 0), serial))
            pong = (bytes([6, 0, 0xff, 6]) + (4542).to_bytes(4, 'big') + bytes([0x40, b[9] if len(b) > 9 else 0, 0, 16])
                    + (4542).to_bytes(4, 'big') + bytes(4) + bytes([0x81, 0]) + bytes(6))
            self.pending.append((serial, pong, 'pong'))
            self.s.did(tid, 'snd')
            return len(pdu)
        p = parse_tx(pdu)
        self.nrx += 1
        self.wire.append(('tx', tid, self.reqidx.get(tid, 0), p, serial))
        if serial in self.lose:
            self.s.did(tid, 'snd')
            return len(pdu)
        # a bridged request: the BMC (and every further bridge) first acknowledges the Send Message
        # (completion code only), then the reply of the addressed responder is forwarded
        for w in p['wrappers']:
            self.pending.append((serial, ipmb_response(w, [0x00], p['sid']), 'ack'))
        if serial in self.stale:
            # an unrelated frame first: same netfn/cmd, a stale sequence number, another payload
            old = dict(p, seq=(1 if p['seq'] == 0 else p['seq'] - 1))
            self.pending.append((serial + 100, bmc_answer(old, serial + 100), 'reply'))
        self.pending.append((serial, bmc_answer(p, serial), 'reply'))
        self.s.did(tid, 'snd')
        return len(pdu)

    def recvfrom(self, n):
        if self.setup is not None:
            if not self.pending:
                raise socket.timeout('timed out')
            return (self.pending.pop(0)[1], ('bmc', 623))
        tid = self.s.park('rcv')
        if not self.pending:
            self.s.did(tid, 'tmo')
            raise socket.timeout('timed out')
        serial, d, kind = self.pending.pop(0)
        if kind == 'pong':
            self.wire.append(('arx', tid, serial))
        elif kind == 'ack':
            self.wire.append(('krx', tid, serial))
        else:
            p = d[14:]
            self.wire.append(('rx', tid, serial, {'seq': p[4] >> 2, 'netfn': p[1] >> 2, 'cmd': p[5]}))
        self.s.did(tid, 'rcv')
        return (d, ('bmc', 623))


class ShimEvent:
    """the Event call_repeatedly waits on: wait() never waits; it returns False n times (= n
    keep-alive iterations), then True; records the interval it was asked to wait"""

    def __init__(self, n, log, on_wait=None):
        self.n, self.log, self.flag, self.calls, self.on_wait = n, log, False, 0, on_wait

    def wait(self, interval=None):
        self.log.append(interval)
        if self.on_wait:
            self.on_wait(self.calls)      # number of job calls completed so far
        if self.flag or self.n <= 0:
            return True
        self.n -= 1
        self.calls += 1
        return False

    def set(self):
        self.flag = True

    def is_set(self):
        return self.flag


class ShimThread:
    def __init__(self, cap, target=None, args=(), kwargs=None, **kw):
        cap.append((target, tuple(args or ())))
        self.daemon = False

    def start(self):
        pass

    def join(self, timeout=None):
        pass


class ThreadingShim:
    """stands in for the module global `threading` of rmcp.py during a scheduled run:
      * EVERY lock the code creates (in the constructor or later, one or many) is a cooperative
        lock of this run's scheduler;
      * the timer thread call_repeatedly wants to start is captured instead of started, the Event
        it waits on never waits;
    everything else is the real module"""

    def __init__(self, real, s, n, captured, waits):
        self._real, self._s, self._n, self._cap, self._waits = real, s, n, captured, waits
        self.on_wait = None

    def Lock(self):
        return CoopLock(self._s)

    def Event(self):
        return ShimEvent(self._n, self._waits, lambda k: self.on_wait and self.on_wait(k))

    def Thread(self, *a, **kw):
        return ShimThread(self._cap, *a, **kw)

    def __getattr__(self, k):
        return getattr(self._real, k)


class SocketShim:
    """stands in for the module global `socket` of rmcp.py: socket.socket(...) is the scripted
    socket; everything else (socket.timeout, constants) is the real module"""

    def __init__(self, real, sock):
        self._real, self._sock = real, sock

    def socket(self, *a, **kw):
        return self._sock

    def __getattr__(self, k):
        return getattr(self._real, k)


KA_INTERVAL = 3
SID = 0x11223344


def run_schedule(cfg, choices, fine=False, budget=None):
    """cfg = {'threads': [{'kind': 'raw'|'msg'|'keepalive', 'reqs': [[netfn, cmd], ...]}, ...],
              'nsn0': int, 's0': int, 'auth': 0|2|4, 'max_retries': int, 'active': bool,
              'stale': [datagram numbers the BMC answers with an unrelated frame before the reply],
              'lose': [datagram numbers whose reply is lost: recvfrom raises socket.timeout]}
    -> observation dict (JSON-able)."""
    import pyipmi
    from pyipmi import Target
    from pyipmi.session import Session
    from pyipmi.interfaces import rmcp as R
    from pyipmi.msgs import create_request_by_name
    import pyipmi.session as SESS

    s = Sched(choices, budget or (40000 if fine else 4000))
    sock = ScriptedSocket(s, cfg.get('stale', ()), cfg.get('lose', ()))
    kthreads = [t for t in cfg['threads'] if t['kind'] == 'keepalive']
    cap, waits = [], []
    real_threading, real_socket = R.threading, R.socket
    shim = ThreadingShim(real_threading, s, len(kthreads[0]['reqs']) if kthreads else 0, cap, waits)
    R.threading = shim
    R.socket = SocketShim(real_socket, sock)
    try:
        return _run(cfg, fine, s, sock, shim, cap, waits, R, SESS, Session, Target, create_request_by_name)
    finally:
        R.threading = real_threading
        R.socket = real_socket


def _run(cfg, fine, s, sock, shim, cap, waits, R, SESS, Session, Target, create_request_by_name):
    class SRmcp(R.Rmcp):
        def _g(self):
            tid = s.park('rd')
            v = self.__dict__['_c14_nsn']
            s.did(tid, 'rd', v)
            return v

        def _s(self, v):
            tid = s.park('wr')
            self.__dict__['_c14_nsn'] = v
            s.did(tid, 'wr', v)
        next_sequence_number = property(_g, _s)

    unlocked = []      # accesses to Session.sequence_number by a scheduled thread holding no lock

    def holds_lock(tid):
        return any(l.owner == tid for l in s.locks)

    class SSession(Session):
        # every access to the session sequence number is a scheduling point in the line mode;
        # in the systematic mode it is one when the thread holds NO lock (on the code as it is,
        # IpmiMsg.pack only runs under the transaction lock, so this adds nothing there)
        def _g(self):
            tid = s.ident.get(threading.get_ident())
            if tid is not None:
                free = not holds_lock(tid)
                if free:
                    unlocked.append((tid, 'srd'))
                if fine or free:
                    s.park('srd')
            return self.__dict__['_c14_sq']

        def _s(self, v):
            tid = s.ident.get(threading.get_ident())
            if tid is not None:
                free = not holds_lock(tid)
                if free:
                    unlocked.append((tid, 'swr'))
                if fine or free:
                    s.park('swr')
            self.__dict__['_c14_sq'] = v
        sequence_number = property(_g, _s)

    # --- set-up through the PUBLIC path only: constructor, open(), establish_session(session);
    # the socket, the locks and the keep-alive timer are substituted from outside (module globals
    # `socket` / `threading` of rmcp.py); no private attribute of the library is named
    intf = SRmcp(keep_alive_interval=KA_INTERVAL, max_retries=cfg.get('max_retries', 0))
    intf.open()
    sess = SSession()
    sess.set_session_type_rmcp('bmc', 623)
    auth = cfg.get('auth', 0)
    if auth:
        sess.set_auth_type_user('admin', PASSWORD)
    sock.setup = {'auth': auth, 'sid': SID, 'cmds': []}
    intf.establish_session(sess)        # single-threaded, unscheduled; starts "the keep-alive"
    setup_cmds = sock.setup['cmds']
    if sock.pending:
        raise HarnessError('session establishment left datagrams unread')
    sock.setup = None
    # a lock that was not created through `threading.Lock()` (found by type, not by name)
    real_lock_type = type(shim._real.Lock())
    for k, v in list(vars(intf).items()):
        if isinstance(v, real_lock_type):
            setattr(intf, k, CoopLock(s))
    sess.activated = cfg.get('active', True)
    sess.sequence_number = cfg['s0']            # public attributes: the state the history starts from
    intf.next_sequence_number = cfg['nsn0']
    # what establish_session handed to call_repeatedly: the real `loop` closure around the real job
    ka_loop = cap[0][0] if len(cap) == 1 and callable(cap[0][0]) else None
    ka_name = '?'
    try:
        fv = dict(zip(ka_loop.__code__.co_freevars, [c.cell_contents for c in (ka_loop.__closure__ or ())]))
        ka_name = getattr(fv.get('func'), '__name__', '?')
    except Exception:  # noqa  (informational only)
        pass

    results = {}
    orig_sar = intf.send_and_receive

    def rec_sar(req):           # pass-through recorder (the keep-alive discards its reply)
        rsp = orig_sar(req)
        tid = s.ident.get(threading.get_ident())
        results.setdefault(tid, []).append(['ok', bytes([rsp.completion_code, rsp.device_id]).hex()])
        return rsp
    intf.send_and_receive = rec_sar

    pyipmi_dir = R.__file__.rsplit('/interfaces/', 1)[0]
    traced = (R.__file__, SESS.__file__) if fine else (R.__file__,)

    def tracer(frame, event, arg):
        if frame.f_code.co_filename in traced:
            return local
        return None

    def local(frame, event, arg):
        if event == 'line':
            tid = s.ident.get(threading.get_ident())
            if frame.f_code.co_filename == R.__file__ and s.after_release.get(tid):
                # the first source line of the interface module this thread executes after it
                # released a lock: the window between the release and the return
                s.after_release[tid] = False
                s.park('ret')
                s.did(tid, 'ret')
            elif fine:
                s.park('line')
        return local

    def mk_worker(t, spec):
        reqs = spec['reqs']
        kind = spec['kind']
        out = results.setdefault(t, [])

        def exc_entry(e):
            return ['exc', type(e).__name__]

        def w():
            sys.settrace(tracer)
            try:
                if kind == 'keepalive':
                    def on_wait(k):     # a job that records no outcome (does not use send_and_receive)
                        while len(out) < k:
                            out.append(['done', ''])
                    shim.on_wait = on_wait
                    try:
                        if ka_loop is not None:
                            ka_loop()
                        else:
                            # nothing was handed to call_repeatedly (reported as a finding by the
                            # check): run the modelled keep-alive through the public path
                            for _ in reqs:
                                req = create_request_by_name('GetDeviceId')
                                req.target = Target(0x20)
                                intf.send_and_receive(req)
                    except Abort:
                        raise
                    except BaseException as e:   # the real keep-alive thread would die here
                        out.append(exc_entry(e))
                else:
                    rt = spec.get('routing', 0)
                    if rt:
                        # bridged through Send Message: depth 1 (BMC -> IPMB-0) or 2 (BMC -> carrier -> module)
                        target = Target(routing=[(0x81, 0x20, 0), (0x20, 0x82, None)] if rt == 1 else
                                        [(0x81, 0x20, 0), (0x20, 0x82, 7), (0x20, 0x72, None)])
                    else:
                        target = Target(spec.get('target', 0x20))
                    for k, (netfn, cmd) in enumerate(reqs):
                        try:
                            if kind == 'raw':
                                r = intf.send_and_receive_raw(target, 0, netfn, bytes([cmd]))
                                out.append(['ok', bytes(r[:2]).hex()])
                            else:
                                req = create_request_by_name('GetDeviceId')
                                req.target = target
                                intf.send_and_receive(req)      # recorded by rec_sar
                        except Abort:
                            raise
                        except BaseException as e:
                            out.append(exc_entry(e))
            finally:
                sys.settrace(None)

        return w

    # request index of a thread = number of outcomes it has recorded (set before each send)
    real_sendto = sock.sendto

    def sendto(pdu, addr):
        tid = s.ident.get(threading.get_ident())
        sock.reqidx[tid] = len(results.get(tid, []))
        return real_sendto(pdu, addr)
    sock.sendto = sendto

    workers = {t: mk_worker(t, spec) for t, spec in enumerate(cfg['threads'])}
    s.run(workers, lambda t, kind: kind == 'acq' and getattr(s.pending_obj.get(t), 'owner', None) is not None)

    wire = []
    for ev in sock.wire:
        if ev[0] == 'tx':
            p = ev[3]
            wire.append(['tx', ev[1], ev[2], p['sseq'], p['seq'], p['netfn'], p['cmd'], ev[4],
                         {k: p[k] for k in ('auth', 'raw_seq', 'raw_sid', 'authcode', 'msg', 'depth')}])
        elif ev[0] == 'rx':
            wire.append(['rx', ev[1], ev[3]['seq'], ev[3]['netfn'], ev[3]['cmd'], ev[2]])
        elif ev[0] == 'krx':        # acknowledge of a Send Message wrapper of datagram n read
            wire.append(['krx', ev[1], ev[2]])
        elif ev[0] == 'atx':        # ASF ping sent: thread, request index, datagram number
            wire.append(['atx', ev[1], ev[2], ev[3]])
        else:                       # ASF pong read: thread, number of the datagram it answers
            wire.append(['arx', ev[1], ev[2]])
    return {
        'status': s.status,
        'taken': s.taken,
        'trace': [[t, k, v] for (t, k, v) in s.trace],
        'model_sched': [t for (t, k, v) in s.trace if k in MODEL_KINDS],
        'wire': wire,
        'results': [results.get(t, []) for t in range(len(cfg['threads']))],
        'enabled_log': s.enabled_log,
        'lock_owner': next((l.owner for l in s.locks if l.owner is not None), None),
        'locks_used': sum(1 for l in s.locks if getattr(l, 'used', False)),
        'unlocked_session_accesses': len(unlocked),
        'unread': [[x[0], x[2]] for x in sock.pending],
        'keepalive_job': ka_name,
        'keepalive': {'captured': ka_loop is not None, 'threads_created': len(cap),
                      'intervals': sorted(set(waits), key=repr), 'expected_interval': KA_INTERVAL,
                      'args': [list(map(repr, c[1])) for c in cap], 'setup_exchanges': setup_cmds},
        'final_nsn': intf.__dict__.get('_c14_nsn'),
        'final_sseq': sess.__dict__.get('_c14_sq'),
    }
