"""Shared machinery of the checks: build, proof status, in-Coq evaluation of the
model on cases (correspondence), known findings, evidence, verdict lines.

Everything a registered command needs lives under /verif (scratch under
/verif/.build, git-ignored); nothing under /tmp is required.
"""
import concurrent.futures as cf
import dataclasses
import fcntl
import hashlib
import importlib
import json
import os
import random
import re
import shutil
import subprocess
import sys
import time
from pathlib import Path

VERIF = Path(__file__).resolve().parent.parent
COQ = VERIF / 'coq'
BUILD = VERIF / '.build'
REPO = Path(os.environ.get('VERIF_REPO', '/repo'))
NCPU = min(16, os.cpu_count() or 4)

FORBIDDEN = re.compile(
    r'\b(Admitted|admit|Axiom|Axioms|Parameter|Parameters|Conjecture|Conjectures|'
    r'Admit Obligations|Unset Guard Checking|Unset Positivity Checking|'
    r'Unset Universe Checking|bypass_check|native_compute)\b|type-in-type|impredicative-set')

TRUSTED_BASE_COMMON = [
    'Coq 8.16.1 kernel incl. its vm_compute reduction machine (no native_compute)',
    'hand-written executable Gallina model of the code named in model_map (tied to /repo by the '
    'correspondence check of this run: model evaluated inside Coq by vm_compute on the same inputs '
    'as the Python implementation)',
    'the harness: case generators, canonicalisers and Python-to-Coq literal printer (harness/*.py)',
    'CPython 3.12 running /repo',
]


def _raise_stack():
    """coqc overflows the default 8 MB stack on large literals: lift the soft limit to the hard one"""
    try:
        import resource
        soft, hard = resource.getrlimit(resource.RLIMIT_STACK)
        resource.setrlimit(resource.RLIMIT_STACK, (hard, hard))
    except Exception:  # noqa
        pass


def sh(cmd, timeout=600, cwd=None, env=None):
    """Run a command (list) under a timeout; returns (rc, stdout+stderr)."""
    try:
        p = subprocess.run(cmd, cwd=cwd, env=env, timeout=timeout, stdout=subprocess.PIPE,
                           stderr=subprocess.STDOUT, text=True, errors='replace', preexec_fn=_raise_stack)
        return p.returncode, p.stdout
    except subprocess.TimeoutExpired as e:
        out = e.stdout or ''
        if isinstance(out, bytes):
            out = out.decode(errors='replace')
        return 124, out + '\n[timeout after %ss]' % timeout


class Lock:
    """Build lock (flock on .build/lock), re-entrant within one process."""
    _depth = 0
    _file = None

    def __enter__(self):
        if Lock._depth == 0:
            BUILD.mkdir(exist_ok=True)
            Lock._file = open(BUILD / 'lock', 'w')
            fcntl.flock(Lock._file, fcntl.LOCK_EX)
        Lock._depth += 1
        return self

    def __exit__(self, *a):
        Lock._depth -= 1
        if Lock._depth == 0:
            fcntl.flock(Lock._file, fcntl.LOCK_UN)
            Lock._file.close()
            Lock._file = None


# ----------------------------------------------------------------------------
# build
# ----------------------------------------------------------------------------
def _strip_comments_strings(txt):
    """linear scan: drop (nested) comments and blank out string literals"""
    out = []
    i, n, depth = 0, len(txt), 0
    while i < n:
        c = txt[i]
        if depth == 0 and c == '"':
            j = i + 1
            while j < n:
                if txt[j] == '"':
                    if j + 1 < n and txt[j + 1] == '"':
                        j += 2
                        continue
                    break
                j += 1
            out.append('""')
            i = j + 1
        elif c == '(' and i + 1 < n and txt[i + 1] == '*':
            depth += 1
            i += 2
        elif depth > 0 and c == '*' and i + 1 < n and txt[i + 1] == ')':
            depth -= 1
            i += 2
            out.append(' ')
        elif depth > 0:
            i += 1
        else:
            out.append(c)
            i += 1
    return ''.join(out)


def forbidden_scan():
    """Admitted / Axiom / ... anywhere in the development? returns list of hits."""
    hits = []
    for p in sorted(COQ.rglob('*.v')):
        if '.cases' in p.parts:
            continue
        txt = _strip_comments_strings(p.read_text())
        for m in FORBIDDEN.finditer(txt):
            hits.append('%s: %s' % (p.relative_to(VERIF), m.group(0)))
    return hits


def run_generators(names=None):
    """Run the translators gen/gen_<name>.py against REPO; write Gen/*.v only when the
    content changed (keeps make incremental). Returns dict name -> info or error."""
    gendir = VERIF / 'gen'
    out = {}
    (COQ / 'Gen').mkdir(exist_ok=True)
    for p in sorted(gendir.glob('gen_*.py')):
        name = p.stem[4:]
        if names is not None and name not in names:
            continue
        t0 = time.time()
        rc, txt = sh([sys.executable, str(p), '--repo', str(REPO), '--out', str(COQ / 'Gen')],
                     timeout=300, env=_pyenv())
        out[name] = {'rc': rc, 'log': txt[-4000:], 'wall_s': round(time.time() - t0, 2)}
    return out


def _pyenv():
    env = dict(os.environ)
    env['PYTHONPATH'] = '%s:%s' % (REPO, VERIF)
    env['PYTHONHASHSEED'] = '0'
    env['PYTHONDONTWRITEBYTECODE'] = '1'
    return env


def write_coqproject():
    files = []
    for sub in ('Lib', 'Model', 'Gen', 'Proofs', 'Corr', 'Props'):
        files += sorted(str(p.relative_to(COQ)) for p in (COQ / sub).glob('*.v'))
    txt = '-Q . PyIpmi\n-arg -w -arg -all\n' + '\n'.join(files) + '\n'
    cp = COQ / '_CoqProject'
    if not cp.exists() or cp.read_text() != txt:
        cp.write_text(txt)
        rc, out = sh(['coq_makefile', '-f', '_CoqProject', '-o', 'Makefile'], cwd=COQ, timeout=60)
        if rc != 0:
            raise RuntimeError('coq_makefile failed: ' + out)
    elif not (COQ / 'Makefile').exists():
        rc, out = sh(['coq_makefile', '-f', '_CoqProject', '-o', 'Makefile'], cwd=COQ, timeout=60)
        if rc != 0:
            raise RuntimeError('coq_makefile failed: ' + out)


def make(targets=None, timeout=1500, keep_going=False):
    """Full .vo build (never -vos) of the given targets (relative to coq/)."""
    write_coqproject()
    cmd = ['make', '-j%d' % NCPU]
    if keep_going:
        cmd.append('-k')
    if targets:
        cmd += targets
    return sh(cmd, cwd=COQ, timeout=timeout)


def setup():
    t0 = time.time()
    with Lock():
        hits = forbidden_scan()
        if hits:
            print('FORBIDDEN constructs in the development:\n  ' + '\n  '.join(hits))
            return 1
        gens = run_generators()
        for k, v in gens.items():
            print('generator %s: rc=%s (%.1fs)' % (k, v['rc'], v['wall_s']))
            if v['rc'] != 0:
                print(v['log'])
        rc, out = make(keep_going=True, timeout=3000)
        print(out[-6000:])
        print('setup: make rc=%d in %.0fs' % (rc, time.time() - t0))
        # A failing Props file on the unchanged tree is reported by the property's own
        # check, so setup only fails when the shared layers do not build.
        core_ok = all((COQ / (str(p)[:-2] + '.vo')).exists()
                      for sub in ('Lib', 'Model') for p in (COQ / sub).glob('*.v'))
        return 0 if core_ok else 1


# ----------------------------------------------------------------------------
# proof status of a property
# ----------------------------------------------------------------------------
@dataclasses.dataclass
class ProofStatus:
    theorems: list
    obligations: int
    discharged: int
    axioms: list
    closed: int
    ok: bool
    log: str
    failed_theorem: str = None
    props_file: str = None


def proof_status(pid, gens=None):
    """Regenerate Gen/* (if the property uses any), rebuild the closure of
    Props/<pid>.v with make, then recompile Props/<pid>.v itself to capture
    Print Assumptions."""
    props = COQ / 'Props' / ('%s.v' % pid)
    src = props.read_text()
    nocom = re.sub(r'\(\*.*?\*\)', ' ', src, flags=re.S)
    thms = re.findall(r'^\s*(?:Theorem|Lemma)\s+(\w+)', nocom, flags=re.M)
    with Lock():
        hits = forbidden_scan()
        if hits:
            return ProofStatus(thms, len(thms), 0, [], 0, False,
                               'forbidden constructs: ' + '; '.join(hits), props_file=str(props))
        geninfo = run_generators(gens) if gens else {}
        for k, v in geninfo.items():
            if v['rc'] != 0:
                return ProofStatus(thms, len(thms), 0, [], 0, False,
                                   'translator %s failed:\n%s' % (k, v['log']), props_file=str(props))
        # dependencies first (Corr file too, for the cases)
        targets = []
        corr = COQ / 'Corr' / ('%s.v' % pid)
        if corr.exists():
            targets.append('Corr/%s.vo' % pid)
        rc_c, out_c = make(targets, timeout=1500) if targets else (0, '')
        rc, out = make(['Props/%s.vo' % pid], timeout=1500)
    if rc != 0:
        m = re.search(r'File "\./Props/%s\.v", line (\d+)' % pid, out)
        failed = None
        done = 0
        if m:
            line = int(m.group(1))
            # which theorem contains that line?
            pos = 0
            for i, ln in enumerate(src.splitlines(), 1):
                mm = re.match(r'\s*(?:Theorem|Lemma)\s+(\w+)', ln)
                if mm and i <= line:
                    failed = mm.group(1)
            if failed in thms:
                done = thms.index(failed)
        else:
            m2 = re.search(r'File "\./(\S+\.v)", line (\d+)', out)
            failed = 'dependency %s' % (m2.group(1) if m2 else '?')
        return ProofStatus(thms, len(thms), done, [], 0, False, (out_c + out)[-6000:], failed, str(props))
    # capture Print Assumptions
    (BUILD / 'props').mkdir(parents=True, exist_ok=True)
    rc2, out2 = sh(['coqc', '-Q', '.', 'PyIpmi', '-w', '-all', '-o', str(BUILD / 'props' / ('%s.vo' % pid)),
                    'Props/%s.v' % pid], cwd=COQ, timeout=900)
    closed = len(re.findall(r'Closed under the global context', out2))
    axioms = []
    for blk in re.findall(r'Axioms:\n((?:.+\n?)+?)(?=\n\S|\Z|Closed under|Axioms:)', out2):
        for ln in blk.splitlines():
            mm = re.match(r'^(\S+)\s*:', ln)
            if mm:
                axioms.append(mm.group(1))
    ok = rc2 == 0 and rc_c == 0
    return ProofStatus(thms, len(thms), len(thms) if rc2 == 0 else 0, sorted(set(axioms)), closed, ok,
                       (out_c if rc_c else '') + out2[-3000:], None if ok else 'Corr/%s.v' % pid if rc_c else None,
                       str(props))


# ----------------------------------------------------------------------------
# Coq literals and in-Coq evaluation of cases
# ----------------------------------------------------------------------------
def c_hex(b):
    """bytes/iterable of ints -> Coq term of type list N (via Lib.Bytes.hx)"""
    return '(hx "%s")' % bytes(bytearray(b)).hex()


def c_N(n):
    assert n >= 0
    return str(int(n))


def c_Z(n):
    return '(%d)%%Z' % n


def c_nat(n):
    return '%d%%nat' % n


def c_bool(b):
    return 'true' if b else 'false'


def c_list(items):
    return '[' + '; '.join(items) + ']'


def c_opt(x):
    return 'None' if x is None else '(Some %s)' % x


def c_str(s):
    """Python str/bytes (latin-1 / ascii printable only) -> Coq string literal; others via hx"""
    if isinstance(s, bytes):
        s = s.decode('latin-1')
    return '"%s"' % s.replace('"', '""')


CASE_HEADER = '''From Coq Require Import String.
From Coq Require Import NArith ZArith List Bool.
From PyIpmi Require Import Lib.Res Lib.Bytes %(imports)s.
Import ListNotations.
Open Scope string_scope.
Open Scope N_scope.
'''


def _run_case_file(path, timeout):
    rc, out = sh(['coqc', '-Q', str(COQ), 'PyIpmi', '-w', '-all', str(path)], cwd=path.parent, timeout=timeout)
    return rc, out


def coq_cases(tag, imports, terms, shard=400, timeout=900):
    """Evaluate boolean case terms inside Coq with vm_compute.
    terms: list of Coq terms of type bool ("model output == implementation output").
    Returns (failing_indices, errors) where errors is a list of (shard, log)."""
    d = BUILD / 'cases' / ('%s.%d' % (tag, os.getpid()))     # per process: concurrent runs do not collide
    if d.exists():
        shutil.rmtree(d)
    d.mkdir(parents=True)
    hdr = CASE_HEADER % {'imports': imports}
    shards = [(i, terms[i:i + shard]) for i in range(0, len(terms), shard)]
    files = []
    for k, (base, ts) in enumerate(shards):
        p = d / ('cases_%s_%d.v' % (re.sub(r'\W', '_', tag), k))
        with open(p, 'w') as f:
            f.write(hdr)
            f.write('Definition cases : list bool := [\n')
            f.write(';\n'.join(' ' + t for t in ts))
            f.write('\n].\nEval vm_compute in (failing cases).\n')
        files.append((base, p))
    failing, errors = [], []
    with cf.ThreadPoolExecutor(max_workers=NCPU) as ex:
        futs = {ex.submit(_run_case_file, p, timeout): (base, p) for base, p in files}
        for fu in cf.as_completed(futs):
            base, p = futs[fu]
            rc, out = fu.result()
            m = re.search(r'=\s*\[(.*?)\]\s*:\s*list N', out, flags=re.S)
            if rc != 0 or not m:
                errors.append((p.name, out[-3000:]))
                continue
            body = m.group(1).strip()
            if body:
                failing += [base + int(x.replace('%N', '').strip()) for x in body.split(';')]
    if not errors:
        shutil.rmtree(d, ignore_errors=True)
    return sorted(failing), errors


def coq_eval(tag, imports, term, timeout=300):
    """Evaluate one term and return Coq's printed value (for replay files / diagnosis)."""
    d = BUILD / 'cases' / ('%s_eval.%d' % (tag, os.getpid()))
    if d.exists():
        shutil.rmtree(d)
    d.mkdir(parents=True)
    p = d / 'eval_one.v'
    p.write_text(CASE_HEADER % {'imports': imports} + 'Eval vm_compute in (%s).\n' % term)
    rc, out = _run_case_file(p, timeout)
    shutil.rmtree(d, ignore_errors=True)
    m = re.search(r'=\s*(.*?)\n\s*:\s', out, flags=re.S)
    return (m.group(1).strip() if m else out[-2000:])


# ----------------------------------------------------------------------------
# results
# ----------------------------------------------------------------------------
@dataclasses.dataclass
class Violation:
    key: str                 # canonical signature (class / call site / minimal history)
    what: str                # one line
    replay: dict             # the concrete input/history, expected, observed
    found_input: bool = True  # False => proof/correspondence broken but no failing input


@dataclasses.dataclass
class Result:
    evaluations: int = 0
    distinct_nontrivial: int = 0
    rule: str = ''
    samples: list = dataclasses.field(default_factory=list)
    oracle_failures: list = dataclasses.field(default_factory=list)   # [Violation]
    mismatches: list = dataclasses.field(default_factory=list)        # [dict] model != impl
    corr_errors: list = dataclasses.field(default_factory=list)       # case files that did not evaluate
    histogram: dict = dataclasses.field(default_factory=dict)
    extra: dict = dataclasses.field(default_factory=dict)
    exhaustive: bool = False
    model_map: list = dataclasses.field(default_factory=list)         # what is modelled by hand
    assumptions: list = dataclasses.field(default_factory=list)


class Distinct:
    """Counts distinct non-trivial cases by hashing their canonical form."""

    def __init__(self):
        self.seen = set()
        self.n = 0
        self.hist = {}

    def add(self, canon, nontrivial=True, kind=None):
        self.n += 1
        if kind is not None:
            self.hist[kind] = self.hist.get(kind, 0) + 1
        if nontrivial:
            self.seen.add(hashlib.blake2b(repr(canon).encode(), digest_size=12).digest())

    @property
    def distinct(self):
        return len(self.seen)


def exc_class(e):
    """Canonical name of an exception for comparison with the model's err enum."""
    import pyipmi.errors as E
    if isinstance(e, E.DecodingError):
        return 'DecodingError'
    if isinstance(e, E.EncodingError):
        return 'EncodingError'
    if isinstance(e, E.CompletionCodeError):
        return 'CCError %d' % e.cc
    if isinstance(e, E.RetryError):
        return 'RetryError'
    if isinstance(e, E.IpmiTimeoutError):
        return 'TimeoutError'
    if isinstance(e, E.HpmError):
        return 'HpmError'
    if isinstance(e, E.NotSupportedError):
        return 'NotSupported'
    if isinstance(e, E.DescriptionError):
        return 'DescriptionError'
    if isinstance(e, E.IpmiConnectionError):
        return 'ConnectionError'
    if isinstance(e, E.IpmiLongPasswordError):
        return 'LongPasswordError'
    return 'OtherError'


def c_err(name):
    """canonical exception name (exc_class) -> Coq term of type err, OtherError collapsed by err_class"""
    if name.startswith('CCError'):
        return '(CCError %s)' % name.split()[1]
    if name == 'OtherError':
        return '(OtherError OtherExc)'
    return name


def holds_in_fresh_process(pid, replay):
    """Evaluate a replay dict ({'oracle':..,'input':..}) in a NEW interpreter (no state left over
    from this run): True iff the property holds on it.  Used to confirm and shrink histories."""
    BUILD.mkdir(exist_ok=True)
    p = BUILD / ('fresh_%s_%d.json' % (pid, os.getpid()))
    p.write_text(json.dumps({'replay': replay}, default=str))
    rc, out = sh([sys.executable, '-m', 'harness.main', pid, '--replay', str(p)], cwd=VERIF, env=_pyenv(), timeout=600)
    p.unlink()
    return rc == 0


def shrink_history(pid, oracle, items, key='calls', extra=None):
    """Delta-debug a failing history (list) with every candidate judged in a fresh process."""
    def fails(seq):
        inp = dict(extra or {})
        inp[key] = seq
        return not holds_in_fresh_process(pid, {'oracle': oracle, 'input': inp})
    seq = list(items)
    if not fails(seq):
        return None          # does not reproduce from a clean start
    # first cut the tail after the failing point by bisection on prefixes
    lo, hi = 1, len(seq)
    while lo < hi:
        mid = (lo + hi) // 2
        if fails(seq[:mid]):
            hi = mid
        else:
            lo = mid + 1
    seq = seq[:lo]
    i = 0
    while i < len(seq) - 1:
        cand = seq[:i] + seq[i + 1:]
        if fails(cand):
            seq = cand
        else:
            i += 1
    return seq


def load_known():
    p = VERIF / 'known_findings.json'
    if not p.exists():
        return []
    return json.loads(p.read_text()).get('findings', [])


def write_replay(pid, v):
    (VERIF / 'replays').mkdir(exist_ok=True)
    h = hashlib.blake2b((pid + v.key).encode(), digest_size=6).hexdigest()
    p = VERIF / 'replays' / ('%s-%s.json' % (pid, h))
    p.write_text(json.dumps({'property': pid, 'key': v.key, 'what': v.what,
                             'found_input': v.found_input, 'replay': v.replay,
                             'replay_cmd': './check %s --replay replays/%s' % (pid, p.name)},
                            indent=1, default=str))
    return 'replays/' + p.name


def finish(pid, tier, seed, ps, res, t0, checker_cmd, extra_trusted=()):
    """Decide, print KNOWN-FINDING / VIOLATION lines, write the evidence file; return exit code."""
    known = [k for k in load_known() if k.get('property') == pid and k.get('status') == 'known']
    known_keys = {k['key']: k for k in known}
    violations = []
    known_hit = {}
    for v in res.oracle_failures:
        if v.key in known_keys:
            known_hit.setdefault(v.key, v)
        else:
            violations.append(v)
    # a broken proof obligation / correspondence without a (new) failing input
    unexplained = []
    if not ps.ok:
        unexplained.append('proof obligation no longer checks: %s (%s)' % (ps.failed_theorem or '?', ps.props_file))
    if res.mismatches:
        unexplained.append('correspondence model<->implementation differs on %d case(s), first: %s'
                           % (len(res.mismatches), json.dumps(res.mismatches[0], default=str)[:600]))
    if res.corr_errors:
        unexplained.append('correspondence case file(s) did not evaluate: %s' % (res.corr_errors[0][0],))
    if unexplained and not violations:
        violations.append(Violation(
            key='unexplained:' + hashlib.blake2b(repr(unexplained).encode(), digest_size=6).hexdigest(),
            what='; '.join(unexplained)[:400],
            replay={'broken': unexplained, 'proof_log': ps.log[-3000:] if not ps.ok else '',
                    'mismatches': res.mismatches[:20], 'corr_errors': res.corr_errors[:3]},
            found_input=False))
    for key, v in sorted(known_hit.items()):
        print('KNOWN-FINDING: property=%s %s' % (pid, known_keys[key].get('what', v.what)))
    seen = set()
    for v in violations:
        if v.key in seen:
            continue
        seen.add(v.key)
        path = write_replay(pid, v)
        line = 'VIOLATION property=%s replay=%s' % (pid, path)
        if not v.found_input:
            line += ' no-failing-input-found'
        print(line)
        print('  ' + v.what[:300])
    cov = {
        'obligations': ps.obligations,
        'discharged': ps.discharged,
        'checker_cmd': checker_cmd,
        'trusted_base': list(TRUSTED_BASE_COMMON) + list(extra_trusted) +
        (['axioms reported by Print Assumptions: ' + ', '.join(ps.axioms)] if ps.axioms else
         ['Print Assumptions: every property theorem is closed under the global context (%d of %d)'
          % (ps.closed, ps.obligations)]),
        'theorems': ps.theorems,
        'evaluations': res.evaluations,
        'distinct_nontrivial': res.distinct_nontrivial,
        'rule': res.rule,
        'samples': res.samples[:12],
        'input_histogram': res.histogram,
        'exhaustive': res.exhaustive,
        'correspondence_mismatches': len(res.mismatches),
        'oracle_failures': len(res.oracle_failures),
        'known_findings_hit': sorted(known_hit),
        'model_map': res.model_map,
        'repo': str(REPO),
    }
    cov.update(res.extra)
    ev = {'property_id': pid, 'tier': tier, 'seed': seed, 'level': 'proof', 'coverage': cov,
          'assumptions': res.assumptions, 'wall_s': round(time.time() - t0, 2),
          'violations': len(seen)}
    (VERIF / 'evidence').mkdir(exist_ok=True)
    (VERIF / 'evidence' / ('%s.json' % pid)).write_text(json.dumps(ev, indent=1, default=str))
    print('%s %s: obligations %d/%d, %d evaluations (%d distinct non-trivial), %d mismatches, '
          '%d oracle failures (%d known), %.1fs'
          % (pid, tier, ps.discharged, ps.obligations, res.evaluations, res.distinct_nontrivial,
             len(res.mismatches), len(res.oracle_failures), len(known_hit), time.time() - t0))
    return 1 if seen else 0
