"""C16 - SDR record parsing inverts the SDR formats.

Specification side (independent of the library and of the model): `encode(spec)` builds
a record from IPMI v2.0 tables 43-1/2/3/7/8/9/12, `expected(spec)` lists the attributes a
reader must see.  Both are cross-checked every run against their Coq twins
(Model/SdrEnc.v: enc_sdr / expected, checker chk_spec), which are the functions the
theorem C16_parse_enc is about.

Correspondence: Model/SdrParse.v (sdr_from_data) evaluated in Coq on the same bytes as
pyipmi.sdr.SdrCommon.from_data: encoded records over boundary + random field values,
every truncation of sample records, unknown type bytes, random bodies (checker chk_parse).

Oracle (property on the implementation): every attribute of from_data(encode(spec))
equals expected(spec); the class is chosen by the type byte alone.
"""
import array

from . import common as C

MODEL_MAP = [
    {'python': 'pyipmi/sdr.py:SdrCommon.from_data / __init__', 'coq': 'Model.SdrParse.sdr_from_data'},
    {'python': 'pyipmi/sdr.py:SdrCommon._common_header', 'coq': 'Model.SdrParse.common_header'},
    {'python': 'pyipmi/sdr.py:SdrCommon._common_record_key', 'coq': 'Model.SdrParse.common_record_key'},
    {'python': 'pyipmi/sdr.py:SdrCommon._entity', 'coq': 'Model.SdrParse.entity'},
    {'python': 'pyipmi/sdr.py:SdrCommon._device_id_string', 'coq': 'Model.SdrParse.device_id_string'},
    {'python': 'pyipmi/sdr.py:SdrFullSensorRecord._from_data', 'coq': 'Model.SdrParse.full_from_data'},
    {'python': 'pyipmi/sdr.py:SdrFullSensorRecord._convert_complement', 'coq': 'Model.SdrParse.convert_complement'},
    {'python': 'pyipmi/sdr.py:SdrFullSensorRecord._decode_capabilities', 'coq': 'Model.SdrParse.decode_capabilities'},
    {'python': 'pyipmi/sdr.py:SdrCompactSensorRecord._from_data', 'coq': 'Model.SdrParse.compact_from_data'},
    {'python': 'pyipmi/sdr.py:SdrEventOnlySensorRecord._from_data', 'coq': 'Model.SdrParse.eventonly_from_data'},
    {'python': 'pyipmi/sdr.py:SdrFruDeviceLocator._from_data', 'coq': 'Model.SdrParse.fruloc_from_data'},
    {'python': 'pyipmi/sdr.py:SdrManagementControllerDeviceLocator._from_data', 'coq': 'Model.SdrParse.mcloc_from_data'},
    {'python': 'pyipmi/sdr.py:SdrManagementControllerConfirmationRecord._from_data', 'coq': 'Model.SdrParse.mcconf_from_data'},
    {'python': 'pyipmi/sdr.py:SdrOEMSensorRecord._from_data', 'coq': 'Model.SdrParse.oem_from_data'},
    {'python': 'pyipmi/fields.py:TypeLengthString._from_data (via SdrTypeLengthString)', 'coq': 'Model.SdrParse.tl_string'},
    {'python': 'pyipmi/fields.py:_unpack6bitascii', 'coq': 'Model.SdrParse.unpack6bitascii'},
    {'python': 'pyipmi/utils.py:bcd_decode, BCD_MAP', 'coq': 'Model.SdrParse.bcd_decode'},
    {'python': 'pyipmi/utils.py:ByteBuffer.pop_unsigned_int / pop_slice', 'coq': 'Model.SdrParse.pop_uint / pop_slice'},
]
TRUSTED = ['the specification encoder enc_sdr / expected (Model/SdrEnc.v), written from IPMI v2.0 section 43 '
           'tables as remembered (the specification text is not in the sandbox); its Python twin in '
           'harness/c16.py is compared with it on every generated record']

# ----------------------------------------------------------------------------------------
# spec records: ordered field tables (name, range) - the order is the Coq constructor's
# ----------------------------------------------------------------------------------------
KEY = [('owner_id', 256), ('channel', 16), ('key_rsvd', 4), ('owner_lun', 4), ('number', 256),
       ('entity_id', 256), ('entity_instance', 256)]
FIELDS = {
    'full': KEY + [
        ('init_settable', 2), ('init_flags', 128),
        ('cap_ignore', 2), ('cap_rearm', 2), ('cap_hyst', 4), ('cap_thr', 4), ('cap_evctl', 4),
        ('sensor_type', 256), ('event_type', 256),
        ('assertion_mask', 65536), ('deassertion_mask', 65536), ('reading_mask', 65536),
        ('analog_fmt', 4), ('rate_unit', 8), ('modifier_unit', 4), ('percentage', 2),
        ('units_2', 256), ('units_3', 256), ('lin_rsvd', 2), ('linearization', 128),
        ('m', (-512, 511)), ('tolerance', 64), ('b', (-512, 511)), ('accuracy', 1024),
        ('accuracy_exp', 4), ('direction', 4), ('k2', (-8, 7)), ('k1', (-8, 7)),
        ('achar_rsvd', 32), ('achar_flags', 8),
        ('nominal', 256), ('normal_max', 256), ('normal_min', 256), ('sensor_max', 256), ('sensor_min', 256),
        ('unr', 256), ('ucr', 256), ('unc', 256), ('lnr', 256), ('lcr', 256), ('lnc', 256),
        ('hyst_pos', 256), ('hyst_neg', 256), ('reserved', 65536), ('oem', 256), ('id', 'sid')],
    'compact': KEY + [
        ('sensor_init', 256), ('capabilities', 256), ('sensor_type', 256), ('event_type', 256),
        ('assertion_mask', 65536), ('deassertion_mask', 65536), ('reading_mask', 65536),
        ('units_1', 256), ('units_2', 256), ('units_3', 256), ('record_sharing', 65536),
        ('hyst_pos', 256), ('hyst_neg', 256), ('reserved', 1 << 24), ('oem', 256), ('id', 'sid')],
    'event': KEY + [
        ('sensor_type', 256), ('event_type', 256), ('record_sharing', 65536), ('reserved', 256),
        ('oem', 256), ('id', 'sid')],
    'fruloc': [
        ('access_address', 128), ('access_rsvd', 2), ('fru_device_id', 256), ('logical_physical', 256),
        ('channel_number', 256), ('reserved', 256), ('device_type', 256), ('device_type_modifier', 256),
        ('entity_id', 256), ('entity_instance', 256), ('oem', 256), ('id', 'sid')],
    'mcloc': [
        ('slave_address', 128), ('slave_rsvd', 2), ('channel', 16), ('channel_rsvd', 16),
        ('power_state', 256), ('capabilities', 256), ('reserved', 1 << 24),
        ('entity_id', 256), ('entity_instance', 256), ('oem', 256), ('id', 'sid')],
    'mcconf': [
        ('slave_address', 128), ('slave_rsvd', 2), ('device_id', 256), ('channel_number', 256),
        ('firmware_1', 256), ('firmware_2', 256), ('ipmi_version', 256), ('manufacturer', 1 << 20),
        ('manufacturer_rsvd', 16), ('product_id', 65536), ('guid', 'bytes16')],
    'oem': [('manufacturer', 1 << 24), ('oem_data', 'bytes')],
    'other': [('ty', 'othertype'), ('body', 'bytes')],
}
COQ_CTOR = {'full': ('SFull', 'mkSFull'), 'compact': ('SCompact', 'mkSCompact'), 'event': ('SEvent', 'mkSEvent'),
            'fruloc': ('SFruLoc', 'mkSFruLoc'), 'mcloc': ('SMcLoc', 'mkSMcLoc'), 'mcconf': ('SMcConf', 'mkSMcConf'),
            'oem': ('SOem', None), 'other': ('SOther', None)}
TYPE_BYTE = {'full': 0x01, 'compact': 0x02, 'event': 0x03, 'fruloc': 0x11, 'mcloc': 0x12, 'mcconf': 0x13, 'oem': 0xC0}
CLASS_OF_TYPE = {0x01: 'SdrFullSensorRecord', 0x02: 'SdrCompactSensorRecord', 0x03: 'SdrEventOnlySensorRecord',
                 0x11: 'SdrFruDeviceLocator', 0x12: 'SdrManagementControllerDeviceLocator',
                 0x13: 'SdrManagementControllerConfirmationRecord', 0xC0: 'SdrOEMSensorRecord'}
KIND_TAG = {'SdrFullSensorRecord': 1, 'SdrCompactSensorRecord': 2, 'SdrEventOnlySensorRecord': 3,
            'SdrFruDeviceLocator': 17, 'SdrManagementControllerDeviceLocator': 18,
            'SdrManagementControllerConfirmationRecord': 19, 'SdrOEMSensorRecord': 192,
            'SdrUnknownSensorRecord': 0}
BCD_CHARS = '0123456789 -.'


def coq_sid(sid):
    return '(mkSId %d %s)' % (sid[0], C.c_list([C.c_N(c) for c in sid[1]]))


def coq_spec(s):
    """spec record (dict) -> Coq term of type srec"""
    hdr = '(mkSHdr %d %d)' % tuple(s['hdr'])
    outer, inner = COQ_CTOR[s['kind']]
    args = []
    for name, rng in FIELDS[s['kind']]:
        v = s['f'][name]
        if rng == 'sid':
            args.append(coq_sid(v))
        elif rng in ('bytes', 'bytes16'):
            args.append(C.c_hex(v))
        elif isinstance(rng, tuple):
            args.append(C.c_Z(v))
        else:
            args.append(C.c_N(v))
    if inner:
        return '(%s %s (%s %s))' % (outer, hdr, inner, ' '.join(args))
    return '(%s %s %s)' % (outer, hdr, ' '.join(args))


# ----------------------------------------------------------------------------------------
# independent encoder (IPMI v2.0 tables 43-x): fields are laid out most significant first
# ----------------------------------------------------------------------------------------
def bits(*pairs):
    """[(value, width), ...] most significant field first -> one byte"""
    v = 0
    total = 0
    for val, w in pairs:
        assert 0 <= val < (1 << w), (val, w)
        v = (v << w) | val
        total += w
    assert total == 8
    return v


def le(v, n):
    return [(v >> (8 * i)) & 0xff for i in range(n)]


def twos(v, width):
    return v & ((1 << width) - 1)


def enc_id_payload(sid):
    ty, chars = sid
    if ty == 1:
        nib = [BCD_CHARS.index(chr(c)) for c in chars]
        if len(nib) % 2:
            nib.append(0xA)
        return [(nib[i] << 4) | nib[i + 1] for i in range(0, len(nib), 2)]
    if ty == 2:
        acc = 0
        for i, c in enumerate(chars):
            assert 0x20 <= c < 0x60
            acc |= (c - 0x20) << (6 * i)
        nbytes = (6 * len(chars) + 7) // 8
        return le(acc, nbytes)
    return list(chars)


def enc_id(sid):
    p = enc_id_payload(sid)
    return [bits((sid[0], 2), (0, 1), (len(p), 5))] + p


def key_bytes(f):
    return [f['owner_id'], bits((f['channel'], 4), (f['key_rsvd'], 2), (f['owner_lun'], 2)), f['number'],
            f['entity_id'], f['entity_instance']]


def body(s):
    f, k = s['f'], s['kind']
    if k == 'full':
        m, b, acc = twos(f['m'], 10), twos(f['b'], 10), f['accuracy']
        return key_bytes(f) + [
            bits((f['init_settable'], 1), (f['init_flags'], 7)),
            bits((f['cap_ignore'], 1), (f['cap_rearm'], 1), (f['cap_hyst'], 2), (f['cap_thr'], 2), (f['cap_evctl'], 2)),
            f['sensor_type'], f['event_type']] + le(f['assertion_mask'], 2) + le(f['deassertion_mask'], 2) + \
            le(f['reading_mask'], 2) + [
            bits((f['analog_fmt'], 2), (f['rate_unit'], 3), (f['modifier_unit'], 2), (f['percentage'], 1)),
            f['units_2'], f['units_3'],
            bits((f['lin_rsvd'], 1), (f['linearization'], 7)),
            m & 0xff, bits((m >> 8, 2), (f['tolerance'], 6)),
            b & 0xff, bits((b >> 8, 2), (acc & 0x3f, 6)),
            bits((acc >> 6, 4), (f['accuracy_exp'], 2), (f['direction'], 2)),
            bits((twos(f['k2'], 4), 4), (twos(f['k1'], 4), 4)),
            bits((f['achar_rsvd'], 5), (f['achar_flags'], 3)),
            f['nominal'], f['normal_max'], f['normal_min'], f['sensor_max'], f['sensor_min'],
            f['unr'], f['ucr'], f['unc'], f['lnr'], f['lcr'], f['lnc'],
            f['hyst_pos'], f['hyst_neg']] + le(f['reserved'], 2) + [f['oem']] + enc_id(f['id'])
    if k == 'compact':
        return key_bytes(f) + [f['sensor_init'], f['capabilities'], f['sensor_type'], f['event_type']] + \
            le(f['assertion_mask'], 2) + le(f['deassertion_mask'], 2) + le(f['reading_mask'], 2) + \
            [f['units_1'], f['units_2'], f['units_3']] + le(f['record_sharing'], 2) + \
            [f['hyst_pos'], f['hyst_neg']] + le(f['reserved'], 3) + [f['oem']] + enc_id(f['id'])
    if k == 'event':
        return key_bytes(f) + [f['sensor_type'], f['event_type']] + le(f['record_sharing'], 2) + \
            [f['reserved'], f['oem']] + enc_id(f['id'])
    if k == 'fruloc':
        return [bits((f['access_address'], 7), (f['access_rsvd'], 1)), f['fru_device_id'], f['logical_physical'],
                f['channel_number'], f['reserved'], f['device_type'], f['device_type_modifier'],
                f['entity_id'], f['entity_instance'], f['oem']] + enc_id(f['id'])
    if k == 'mcloc':
        return [bits((f['slave_address'], 7), (f['slave_rsvd'], 1)), bits((f['channel_rsvd'], 4), (f['channel'], 4)),
                f['power_state'], f['capabilities']] + le(f['reserved'], 3) + \
            [f['entity_id'], f['entity_instance'], f['oem']] + enc_id(f['id'])
    if k == 'mcconf':
        return [bits((f['slave_address'], 7), (f['slave_rsvd'], 1)), f['device_id'], f['channel_number'],
                f['firmware_1'], f['firmware_2'], f['ipmi_version']] + \
            le((f['manufacturer_rsvd'] << 20) | f['manufacturer'], 3) + le(f['product_id'], 2) + list(f['guid'])
    if k == 'oem':
        return le(f['manufacturer'], 3) + list(f['oem_data'])
    return list(f['body'])


def type_byte(s):
    return TYPE_BYTE.get(s['kind'], s['f'].get('ty'))


def encode(s):
    b = body(s)
    return bytes(le(s['hdr'][0], 2) + [s['hdr'][1], type_byte(s), len(b)] + b)


# ----------------------------------------------------------------------------------------
# expected attributes (what a reader of the parsed object must see), as (name, value)
# ----------------------------------------------------------------------------------------
def visible_chars(sid):
    ty, chars = sid
    if ty == 1 and len(chars) % 2 == 1:
        return list(chars) + [0x20]
    if ty == 2 and len(chars) % 4 == 3:
        return list(chars) + [0x20]
    return list(chars)


INIT_NAMES = ['scanning', 'events', 'thresholds', 'hysteresis', 'type', 'default_event_generation', 'default_scanning']
HYST_NAMES = ['hysteresis_not_supported', 'hysteresis_readable', 'hysteresis_read_and_setable', 'hysteresis_fixed']
THR_NAMES = ['threshold_not_supported', 'threshold_read_and_setable', 'threshold_readable', 'threshold_fixed']
ACHAR_NAMES = ['nominal_reading', 'normal_max', 'normal_min']


def exp_id(sid):
    return [('device_id_string_type', sid[0]), ('device_id_string_length', len(enc_id_payload(sid))),
            ('device_id_string', ''.join(chr(c) for c in visible_chars(sid)))]


def expected(s):
    f, k = s['f'], s['kind']
    out = [('class', CLASS_OF_TYPE.get(type_byte(s), 'SdrUnknownSensorRecord')),
           ('id', s['hdr'][0]), ('version', s['hdr'][1]), ('type', type_byte(s)), ('length', len(body(s)))]
    key = [('owner_id', f.get('owner_id')), ('owner_lun', f.get('owner_lun')), ('number', f.get('number'))]
    ent = [('entity_id', f.get('entity_id')), ('entity_instance', f.get('entity_instance'))]
    if k == 'full':
        out += key + ent + [
            ('initialization', [n for i, n in enumerate(INIT_NAMES) if f['init_flags'] >> (6 - i) & 1]),
            ('capabilities', (['ignore_sensor'] if f['cap_ignore'] else []) + (['auto_rearm'] if f['cap_rearm'] else [])
             + [HYST_NAMES[f['cap_hyst']], THR_NAMES[f['cap_thr']]]),
            ('sensor_type_code', f['sensor_type']), ('event_reading_type_code', f['event_type']),
            ('assertion_mask', f['assertion_mask']), ('deassertion_mask', f['deassertion_mask']),
            ('discrete_reading_mask', f['reading_mask']),
            ('units_1', f['analog_fmt'] * 64 + f['rate_unit'] * 8 + f['modifier_unit'] * 2 + f['percentage']),
            ('units_2', f['units_2']), ('units_3', f['units_3']),
            ('analog_data_format', f['analog_fmt']), ('rate_unit', f['rate_unit']),
            ('modifier_unit', f['modifier_unit']), ('percentage', f['percentage']),
            ('linearization', f['linearization']), ('m', ('z', f['m'])), ('tolerance', f['tolerance']),
            ('b', ('z', f['b'])), ('accuracy', f['accuracy']), ('accuracy_exp', f['accuracy_exp']),
            ('k2', ('z', f['k2'])), ('k1', ('z', f['k1'])),
            ('analog_characteristic', [n for i, n in enumerate(ACHAR_NAMES) if f['achar_flags'] >> i & 1]),
            ('nominal_reading', f['nominal']), ('normal_maximum', f['normal_max']),
            ('normal_minimum', f['normal_min']), ('sensor_maximum_reading', f['sensor_max']),
            ('sensor_minimum_reading', f['sensor_min']),
            ('threshold', {'unr': f['unr'], 'ucr': f['ucr'], 'unc': f['unc'], 'lnr': f['lnr'], 'lcr': f['lcr'],
                           'lnc': f['lnc']}),
            ('hysteresis', {'positive_going': f['hyst_pos'], 'negative_going': f['hyst_neg']}),
            ('reserved', f['reserved']), ('oem', f['oem'])] + exp_id(f['id'])
    elif k == 'compact':
        out += key + ent + [
            ('sensor_initialization', f['sensor_init']), ('capabilities', f['capabilities']),
            ('sensor_type_code', f['sensor_type']), ('event_reading_type_code', f['event_type']),
            ('assertion_mask', f['assertion_mask']), ('deassertion_mask', f['deassertion_mask']),
            ('discrete_reading_mask', f['reading_mask']),
            ('units_1', f['units_1']), ('units_2', f['units_2']), ('units_3', f['units_3']),
            ('record_sharing', f['record_sharing']),
            ('positive_going_hysteresis', f['hyst_pos']), ('negative_going_hysteresis', f['hyst_neg']),
            ('reserved', f['reserved']), ('oem', f['oem'])] + exp_id(f['id'])
    elif k == 'event':
        out += key + ent + [
            ('sensor_type', f['sensor_type']), ('event_reading_type_code', f['event_type']),
            ('record_sharing', f['record_sharing']), ('reserved', f['reserved']), ('oem', f['oem'])] + exp_id(f['id'])
    elif k == 'fruloc':
        out += [('device_access_address', f['access_address']), ('fru_device_id', f['fru_device_id']),
                ('logical_physical', f['logical_physical']), ('channel_number', f['channel_number']),
                ('reserved', f['reserved']), ('device_type', f['device_type']),
                ('device_type_modifier', f['device_type_modifier'])] + ent + [('oem', f['oem'])] + exp_id(f['id'])
    elif k == 'mcloc':
        out += [('device_slave_address', f['slave_address']), ('channel_number', f['channel']),
                ('power_state_notification', f['power_state']), ('global_initialization', 0),
                ('device_capabilities', f['capabilities']), ('reserved', f['reserved'])] + ent + \
            [('oem', f['oem'])] + exp_id(f['id'])
    elif k == 'mcconf':
        out += [('device_slave_address', f['slave_address']), ('device_id', f['device_id']),
                ('channel_number', f['channel_number']), ('firmware_revision_1', f['firmware_1']),
                ('firmware_revision_2', f['firmware_2']), ('ipmi_version', f['ipmi_version']),
                ('manufacturer_id', f['manufacturer']), ('product_id', f['product_id']),
                ('device_guid', sum(b << (8 * i) for i, b in enumerate(f['guid'])))]
    elif k == 'oem':
        mid = f['manufacturer']
        out += [('owner_id', mid & 0xff), ('owner_lun', (mid >> 8) & 3), ('number', mid >> 16)]
    return out


ATTRS = {}   # kind tag -> attribute names in the order of Corr.C16.observe (filled from expected())


def _attr_names():
    if ATTRS:
        return ATTRS
    import random
    rng = random.Random(1)
    for k in FIELDS:
        s = gen_spec(rng, k)
        ATTRS[KIND_TAG[expected(s)[0][1]]] = [n for n, _ in expected(s)[1:]]
    return ATTRS


def obs_value(v):
    """one attribute value -> list of numbers, as Corr.C16.observe"""
    if isinstance(v, tuple) and v[0] == 'z':
        v = v[1]
        return [1, -v] if v < 0 else [0, v]
    if isinstance(v, bool) or v is None:
        return [10 ** 9]
    if isinstance(v, int):
        return [v] if v >= 0 else [10 ** 9, -v]
    if isinstance(v, str):
        return [ord(c) for c in v]
    if isinstance(v, list):
        return [b for name in v for b in list(name.encode()) + [44]]
    if isinstance(v, dict):
        return [x for x in v.values()]
    return [10 ** 9 + 1]


SIGNED = {'m', 'b', 'k1', 'k2'}


def observe_obj(obj):
    """parsed object -> [(name, value)] in the order of Corr.C16.observe"""
    cls = type(obj).__name__
    tag = KIND_TAG[cls]
    out = [('class', cls)]
    for n in _attr_names()[tag]:
        v = getattr(obj, n, None)
        if n in SIGNED and tag == 1 and isinstance(v, int):
            v = ('z', v)
        out.append((n, v))
    return out


def coq_obs(pairs):
    first = [KIND_TAG[pairs[0][1]]]
    return C.c_list([C.c_list([C.c_N(x) for x in l]) for l in [first] + [obs_value(v) for _, v in pairs[1:]]])


def norm(pairs):
    return [(n, obs_value(v) if n != 'class' else v) for n, v in pairs]


# ----------------------------------------------------------------------------------------
# generators
# ----------------------------------------------------------------------------------------
def pick(rng, rng_spec, mode):
    if isinstance(rng_spec, tuple):
        lo, hi = rng_spec
        if mode == 'zero':
            return 0
        if mode == 'max':
            return hi
        if mode == 'min':
            return lo
        return rng.choice([lo, hi, -1, 0, 1, lo + 1, hi - 1]) if rng.random() < 0.4 else rng.randint(lo, hi)
    n = rng_spec
    if mode in ('zero', 'min'):
        return 0
    if mode == 'max':
        return n - 1
    if rng.random() < 0.4:
        return rng.choice([0, n - 1, 1, n - 2 if n > 2 else 0, n >> 1, (n >> 1) - 1 if n > 1 else 0])
    return rng.randrange(n)


def gen_sid(rng, ty=None, n=None):
    ty = rng.randrange(4) if ty is None else ty
    n = rng.choice([0, 1, 2, 3, 4, 5, 8, 15, 16, rng.randrange(17)]) if n is None else n
    if ty == 1:
        chars = [ord(rng.choice(BCD_CHARS)) for _ in range(n)]
    elif ty == 2:
        chars = [rng.choice([0x20, 0x5f, 0x21, 0x3f, 0x40, rng.randrange(0x20, 0x60)]) for _ in range(n)]
    else:
        chars = [rng.choice([0, 255, 0x41, 0x7f, 0x80, 0x5c, 0x75, 0x55, 0x78, 0x25, 0x7b, rng.randrange(256)]) for _ in range(n)]
    return [ty, chars]


# text that a decoder might treat specially (escapes, format directives, NUL, high bytes)
ESCAPE_LOOKING = [b'\\u0031', b'\\U0001F600', b'\\x41', b'\\n', b'\\', b'\\\\', b'PS\\unit1', b'A\\Ux', b'\\u', b'\\U', b'\\N{DASH}',
                  b'%s', b'%d%n', b'{0}', b'{}', b'\x00', b'A\x00B', b'\x00\x00', b'\r\n', b'\t', b'\x7f', b'\x80', b'\xff\xfe',
                  b'\xc3\xa9', b'\xc3', b'\xe2\x82', b'\xed\xa0\x80', bytes(range(0x80, 0x90)), bytes(range(0xf0, 0x100)),
                  b'\\u00e9\\u00e9\\u00', b'&amp;', b"'\"", b'\\x', b'\\0', b'\\777']


def idstring_cases(rng, quick):
    """[(sid, also_correspondence)]: every byte value as a 1-character string, every pair with a
    backslash first or second, escape-looking strings - for the two 8-bit encodings; every character and
    every pair with '\\' for the packed encodings"""
    out = []
    for ty in (0, 3):
        for x in range(256):
            out.append(([ty, [x]], True))
            out.append(([ty, [0x5c, x]], ty == 3 or x % 4 == 0 or not quick))
            out.append(([ty, [x, 0x5c]], ty == 0 and x % 4 == 0 or not quick))
        for t in ESCAPE_LOOKING:
            out.append(([ty, list(t[:16])], True))
            pad = list((b'ID ' + t + b' end')[:16])
            out.append(([ty, pad], True))
    for x in range(0x20, 0x60):
        out.append(([2, [x]], True))
        out.append(([2, [0x5c, x]], x % 4 == 0 or not quick))
        out.append(([2, [x, 0x5c, 0x55, 0x30]], x % 4 == 0 or not quick))
    for a in BCD_CHARS:
        out.append(([1, [ord(a)]], True))
        for b in BCD_CHARS:
            out.append(([1, [ord(a), ord(b)]], not quick or a == b))
    return out


def gen_spec(rng, kind, mode='mixed', sid=None):
    f = {}
    for name, r in FIELDS[kind]:
        if r == 'sid':
            f[name] = sid if sid is not None else gen_sid(rng)
        elif r == 'bytes16':
            f[name] = [pick(rng, 256, mode) for _ in range(16)]
        elif r == 'bytes':
            f[name] = [rng.randrange(256) for _ in range(rng.choice([0, 1, 3, 8, 40, rng.randrange(60)]))]
        elif r == 'othertype':
            f[name] = rng.choice([t for t in (0, 4, 8, 9, 0x0a, 0x10, 0x14, 0xbf, 0xc1, 0xff, rng.randrange(256))
                                  if t not in CLASS_OF_TYPE])
        else:
            f[name] = pick(rng, r, mode)
    return {'kind': kind, 'hdr': [pick(rng, 65536, mode), pick(rng, 256, mode)], 'f': f}


def as_input(rng, b):
    """the library is handed lists, arrays, bytes or ByteBuffers"""
    c = rng.randrange(4)
    if c == 0:
        return list(b)
    if c == 1:
        return array.array('B', b)
    if c == 2:
        return bytes(b)
    from pyipmi.utils import ByteBuffer
    return ByteBuffer(b)


def parse(data):
    from pyipmi.sdr import SdrCommon
    return SdrCommon.from_data(data)


def exc_term(e):
    from pyipmi.errors import DecodingError
    if isinstance(e, DecodingError):
        return '(Err DecodingError)'
    for t, n in ((IndexError, 'IndexError'), (AttributeError, 'AttributeError'), (ValueError, 'ValueError'),
                 (TypeError, 'TypeError'), (KeyError, 'KeyError')):
        if type(e) is t:
            return '(Err (OtherError %s))' % n
    return '(Err (OtherError OtherExc))'


# ----------------------------------------------------------------------------------------
# oracles
# ----------------------------------------------------------------------------------------
def oracle_roundtrip(inp):
    """every attribute of from_data(encode(spec)) equals expected(spec)"""
    s = inp['spec']
    data = encode(s)
    want = norm(expected(s))
    try:
        obj = parse(array.array('B', data) if inp.get('as') != 'list' else list(data))
    except Exception as e:  # noqa
        return ('exception', type(e).__name__), '%s record %s: from_data raised %s: %s' % (
            s['kind'], data.hex(), type(e).__name__, e)
    got = norm(observe_obj(obj)) if type(obj).__name__ == want[0][1] else [('class', type(obj).__name__)]
    for (n, w), (_, g) in zip(want, got):
        if w != g:
            return ('attr', n), '%s record %s: attribute %s is %r, encoded %r' % (
                s['kind'], data.hex(), n, getattr(obj, n, g) if n != 'class' else g,
                (lambda v: v[1] if isinstance(v, tuple) else v)(dict(expected(s))[n]))
    if list(obj.data) != list(data):
        return ('attr', 'data'), 'data attribute differs from the input'
    return None


def oracle_dispatch(inp):
    """the class is chosen by data[3] alone"""
    data = bytes.fromhex(inp['data'])
    want = CLASS_OF_TYPE.get(data[3], 'SdrUnknownSensorRecord')
    try:
        got = type(parse(list(data))).__name__
    except Exception as e:  # noqa
        return ('dispatch',), 'type byte %02x: from_data raised %s on a %d-byte record' % (data[3], type(e).__name__, len(data))
    if got != want:
        return ('dispatch',), 'type byte %02x gives %s, expected %s' % (data[3], got, want)
    return None


def oracle_parse_seq(inp):
    """several records handed to from_data one after the other in ONE process (mixed kinds, the
    same record more than once, malformed ones in between): every record that has a spec must
    parse to its expected attributes as if it were the only one ever parsed"""
    for n, item in enumerate(inp['calls']):
        if 'spec' in item:
            r = oracle_roundtrip({'spec': item['spec']})
            if r:
                return r[0], 'record %d of %d parsed in this process: %s' % (n + 1, len(inp['calls']), r[1])
        else:
            try:
                parse(list(bytes.fromhex(item['raw'])))
            except Exception:  # noqa
                pass
    return None


def compare_obj(s, obj):
    """first attribute of a parsed object that differs from the spec's expected view, or None"""
    want = norm(expected(s))
    got = norm(observe_obj(obj)) if type(obj).__name__ == want[0][1] else [('class', type(obj).__name__)]
    for (n, w), (_, g) in zip(want, got):
        if w != g:
            return n, getattr(obj, n, g) if n != 'class' else g, (lambda v: v[1] if isinstance(v, tuple) else v)(dict(expected(s))[n])
    return None


def oracle_parse_keep(inp):
    """records parsed one after the other in ONE process with every parsed object kept (as in the
    list returned by get_repository_sdr_list): a parsed record does not change when other records
    are parsed - after every later parse each earlier object still shows its own encoded attributes"""
    kept = []
    for n, item in enumerate(inp['calls']):
        try:
            obj = parse(array.array('B', encode(item['spec'])) if 'spec' in item else list(bytes.fromhex(item['raw'])))
        except Exception:  # noqa
            obj = None
        for (k, s, o) in kept:
            d = attempt_cmp(s, o)
            if d:
                return ('changed', d[0]), ('object %d (%s record %s) was correct after its own parse; after parsing record %d '
                                            '(%d records in this process) its attribute %s is %r, encoded %r'
                                            % (k + 1, s['kind'], encode(s).hex(), n + 1, len(inp['calls']), d[0], d[1], d[2]))
        if obj is not None and 'spec' in item and attempt_cmp(item['spec'], obj) is None:
            kept.append((n, item['spec'], obj))     # only objects that were right to begin with are watched
    return None


def attempt_cmp(s, obj):
    try:
        return compare_obj(s, obj)
    except Exception as e:  # noqa
        return ('exception', type(e).__name__, 'attributes readable')


ORACLES = {'roundtrip': oracle_roundtrip, 'dispatch': oracle_dispatch, 'parse_seq': oracle_parse_seq,
           'parse_keep': oracle_parse_keep}


def viol_key(s, sig):
    """canonical signature of a failing class of inputs"""
    if sig[0] == 'exception':
        sid = s['f'].get('id')
        if sid is not None and sid[0] in (1, 2):
            return 'id_string:%s:%s' % ({1: 'bcd_plus', 2: '6bit_ascii'}[sid[0]], sig[1])
        if sid is not None and 'Unicode' in sig[1]:
            return 'id_string:%s:%s' % ({0: 'unicode', 3: '8bit_ascii'}[sid[0]], sig[1])
        return '%s:exception:%s' % (s['kind'], sig[1])
    if sig[1].startswith('device_id_string'):
        return 'id_string:%s' % sig[1]
    return '%s:%s' % (s['kind'], sig[1])


def replay(data):
    r = data['replay']
    return ORACLES[r['oracle']](r['input']) is None


# ----------------------------------------------------------------------------------------
def run(ctx):
    rng = ctx.rng
    q = ctx.quick
    res = C.Result(model_map=MODEL_MAP)
    D = C.Distinct()
    terms, meta = [], []
    fails = {}
    kinds = list(FIELDS)

    def add(term, info):
        terms.append(term)
        meta.append(info)

    log = []          # everything handed to from_data in this process so far, in order
    budget = [8]      # fresh-interpreter confirmations of failures (each may shrink a history)

    def report(s, r, history):
        """a record whose parse differs from its spec: does it fail when replayed alone in a fresh
        interpreter?  If not, what was parsed before it is part of the failing input."""
        key = viol_key(s, r[0])
        if key in fails or 'history:' + key in fails:
            return
        single = {'oracle': 'roundtrip', 'input': {'spec': s}}
        if budget[0] <= 0 or not C.holds_in_fresh_process('C16', single):
            fails[key] = C.Violation(key=key, what=r[1], replay=single)
            return
        budget[0] -= 1
        me = {'spec': s}
        for cand in ([me, me], history[-6:] + [me], history[-40:] + [me], history + [me]):
            seq = C.shrink_history('C16', 'parse_seq', cand)
            if seq:
                fails['history:' + key] = C.Violation(
                    key='history:' + key,
                    what='%s [correct when parsed alone in a fresh interpreter; fails after the %d earlier record(s) of the '
                         'stored history]' % (r[1], len(seq) - 1),
                    replay={'oracle': 'parse_seq', 'input': {'calls': seq}})
                return
        fails[key] = C.Violation(key=key, what=r[1] + ' [holds when replayed alone; no reproducing history found]',
                                 replay=single)

    def oracle_rt(s):
        res.evaluations += 1
        r = oracle_roundtrip({'spec': s})
        if r:
            report(s, r, list(log))
        log.append({'spec': s})

    def corr_spec(s, tag):
        data = encode(s)
        add('chk_spec %s %s %s' % (coq_spec(s), C.c_hex(data), coq_obs(expected(s))), ('spec', tag, s['kind'], data.hex()))
        corr_parse(data, tag)
        D.add(('rec', data), True, tag + ':' + s['kind'])

    def corr_parse(data, tag):
        log.append({'raw': bytes(data).hex()})
        try:
            obj = parse(as_input(rng, data))
            exp = '(Ok %s)' % coq_obs(observe_obj(obj))
            if list(obj.data) != list(data):
                exp = '(Err OutOfFuel)'      # never equal: the data attribute must be the input
        except Exception as e:  # noqa
            exp = exc_term(e)
        add('chk_parse %s %s' % (C.c_hex(data), exp), ('parse', tag, bytes(data).hex()))

    # 0. history stage (first, while nothing has been parsed in this process): sequences of records
    #    of mixed kinds in varied order, the same record again later, malformed input in between;
    #    every parse is compared with the stateless model (chk_parse) and judged by the oracle
    for i in range(8 if q else 60):
        pool, n = [], rng.randrange(4, 11)
        items, kept = [], []        # the sequence so far; (spec, bytes, object) of every record parsed correctly
        for j in range(n):
            c = rng.random()
            if pool and c < 0.3:
                s = rng.choice(pool)                       # the same record again
            elif c < 0.4:
                junk = bytes([rng.randrange(256), 0, 0x51, rng.choice(list(CLASS_OF_TYPE)), 3] +
                             [rng.randrange(256) for _ in range(rng.randrange(0, 30))])
                corr_parse(junk, 'history-malformed')
                items.append({'raw': junk.hex()})
                continue
            else:
                s = gen_spec(rng, rng.choice(['full', 'full', 'full', 'compact', 'event', 'fruloc', 'mcloc', 'mcconf', 'oem', 'other']))
                if s['kind'] == 'full' and (i + j) % 2 == 0:
                    for name, lim in (('m', 512), ('b', 512), ('k1', 8), ('k2', 8)):   # negative factors, every other full record
                        s['f'][name] = -(abs(s['f'][name]) % lim) - 1
                pool.append(s)
            corr_spec(s, 'history')
            oracle_rt(s)
            items.append({'spec': s})
            data = encode(s)
            try:
                o = parse(as_input(rng, data))
                if attempt_cmp(s, o) is None:
                    kept.append((s, data, o))
            except Exception:  # noqa
                pass
            # every earlier object of this sequence must still show its own record (oracle) ...
            for (s0, d0, o0) in kept:
                res.evaluations += 1
                d = attempt_cmp(s0, o0)
                if d and 'history:%s:%s:changed-by-later-parse' % (s0['kind'], d[0]) not in fails and budget[0] > 0:
                    budget[0] -= 1
                    key = 'history:%s:%s:changed-by-later-parse' % (s0['kind'], d[0])
                    seq = C.shrink_history('C16', 'parse_keep', list(items)) or list(items)
                    r = oracle_parse_keep({'calls': seq})
                    fails[key] = C.Violation(
                        key=key,
                        what=(r[1] if r else '%s record %s: attribute %s changed to %r after a later record was parsed'
                              % (s0['kind'], d0.hex(), d[0], d[1])) + ' [history of %d record(s)]' % len(seq),
                        replay={'oracle': 'parse_keep', 'input': {'calls': seq, 'changed_attribute': d[0]}})
        # ... and the stateless model: re-observe every kept object at the end of the sequence
        for (s0, d0, o0) in kept:
            try:
                exp = '(Ok %s)' % coq_obs(observe_obj(o0))
            except Exception as e:  # noqa
                exp = exc_term(e)
            add('chk_parse %s %s' % (C.c_hex(d0), exp), ('parse', 'history-recheck', d0.hex()))
        D.add(('history', i), True, 'history-sequence')
    # 1. boundary + random records of every kind (correspondence + oracle)
    for k in kinds:
        for mode in ('zero', 'max', 'min'):
            for ty in range(4):
                s = gen_spec(rng, k, mode, sid=gen_sid(rng, ty, {'zero': 0, 'max': 16, 'min': 1}[mode]))
                corr_spec(s, 'boundary')
                oracle_rt(s)
        for _ in range(100 if q else 1000):
            s = gen_spec(rng, k)
            corr_spec(s, 'random')
            oracle_rt(s)
    # 2. id strings: every encoding x every length 0..16, on every kind that carries one
    for k in ('full', 'compact', 'event', 'fruloc', 'mcloc'):
        for ty in range(4):
            for n in range(17):
                s = gen_spec(rng, k, sid=gen_sid(rng, ty, n))
                oracle_rt(s)
                if k == 'full' or (n % 5 == ty) or not q:
                    corr_spec(s, 'idstring')
    # 2b. id-string content: every byte value, backslash pairs, escape-looking text (both sides)
    for n_, (sid, corr) in enumerate(idstring_cases(rng, q)):
        for k in ('full', 'compact', 'event', 'fruloc', 'mcloc'):
            if k != 'full' and not (n_ % 5 == ('compact', 'event', 'fruloc', 'mcloc').index(k) or not q):
                continue
            s = gen_spec(rng, k, sid=sid)
            oracle_rt(s)
            if corr and (k == 'full' or n_ % 3 == 0):
                corr_spec(s, 'idstring-content')
    # 3. full record sweeps (oracle on all; correspondence on a sample)
    sweeps = []
    for m in range(-512, 512):
        sweeps.append(('m', m))
        sweeps.append(('b', m))
    for a in range(1024):
        sweeps.append(('accuracy', a))
    for v in range(8):
        sweeps.append(('rate_unit', v))
    for name, n in (('modifier_unit', 4), ('analog_fmt', 4), ('accuracy_exp', 4), ('direction', 4), ('init_flags', 128),
                    ('cap_hyst', 4), ('cap_thr', 4), ('achar_flags', 8), ('tolerance', 64), ('linearization', 128)):
        for v in range(n):
            sweeps.append((name, v))
    for k1 in range(-8, 8):
        for k2 in range(-8, 8):
            sweeps.append(('k', (k1, k2)))
    stride = 37 if q else 3
    for i, (name, v) in enumerate(sweeps):
        s = gen_spec(rng, 'full', sid=gen_sid(rng, rng.choice([0, 3]), rng.randrange(5)))
        if name == 'k':
            s['f']['k1'], s['f']['k2'] = v
        else:
            s['f'][name] = v
        oracle_rt(s)
        if i % stride == 0:
            corr_spec(s, 'sweep')
    # 4. truncations of one record per kind (+ id-string variants): every prefix
    for k in kinds:
        for ty in ((0, 1, 2, 3) if k in ('full', 'fruloc') else (rng.randrange(4),)):
            s = gen_spec(rng, k, sid=gen_sid(rng, ty, rng.choice([2, 5, 7])))
            data = encode(s)
            for n in range(len(data) + 1):
                corr_parse(data[:n], 'truncated')
                D.add(('trunc', data[:n]), True, 'truncated:' + k)
    # 5. unknown / every type byte with a parseable body; the class depends on data[3] only
    for t in range(256):
        data = bytes([rng.randrange(256), rng.randrange(256), 0x51, t, 64] + [rng.randrange(64) for _ in range(47)] + [0] * 17)   # bits 7:6 clear: any byte is a valid 8-bit id-string header
        corr_parse(data, 'type-sweep')
        res.evaluations += 1
        r = oracle_dispatch({'data': data.hex()})
        if r and 'dispatch' not in fails:
            fails['dispatch'] = C.Violation(key='from_data:dispatch', what=r[1],
                                            replay={'oracle': 'dispatch', 'input': {'data': data.hex()}})
        D.add(('type', t), True, 'type-sweep')
    # 6. malformed: random bodies, id-string length byte beyond the data, invalid BCD
    for _ in range(150 if q else 2000):
        t = rng.choice(list(CLASS_OF_TYPE) + [rng.randrange(256)])
        n = rng.choice([0, 1, 2, 3, 4, 5, 6, 8, 10, 16, 17, 32, 47, 48, 49, 60, rng.randrange(70)])
        data = bytes([rng.randrange(256), rng.randrange(256), 0x51, t, rng.randrange(256)] + [rng.randrange(256) for _ in range(n)])[:max(n, 0) + 5]
        if rng.random() < 0.2:
            data = data[:rng.randrange(6)]
        corr_parse(data, 'malformed')
        D.add(('mal', data), True, 'malformed')
    for _ in range(60 if q else 600):
        s = gen_spec(rng, rng.choice(['full', 'compact', 'event', 'fruloc', 'mcloc']))
        data = bytearray(encode(s))
        idpos = len(data) - len(enc_id(s['f']['id']))
        data[idpos] = rng.randrange(256)          # arbitrary type / length byte
        if rng.random() < 0.5 and idpos + 1 < len(data):
            data[rng.randrange(idpos + 1, len(data))] = rng.choice([0xaf, 0xfa, 0xdd, rng.randrange(256)])
        corr_parse(bytes(data), 'malformed-id')
        D.add(('malid', bytes(data)), True, 'malformed-id')

    failing, errors = C.coq_cases('C16', 'Model.SdrParse Model.SdrEnc Corr.C16', terms)
    res.mismatches = [{'case': meta[i], 'term': terms[i][:400]} for i in failing[:50]]
    res.corr_errors = errors
    res.evaluations += len(terms)
    res.distinct_nontrivial = D.distinct
    res.histogram = D.hist
    res.rule = ('history stage first: sequences of 4..10 records of mixed kinds parsed in one process (same record '
                'again, malformed input in between), a failure that does not reproduce alone in a fresh interpreter is '
                'reported with its shrunk history; all objects of a sequence are kept and re-compared after every later parse '
                '(oracle parse_keep) and re-observed against the model at the end; id-string content: every byte value as a '
                '1-character string, every pair with a backslash, escape-looking / NUL / high-byte text for the 8-bit encodings, '
                'every character and backslash pairs for the packed ones, on the 5 kinds carrying a string; then spec records of the 8 kinds: all-zero / all-max / all-min boundary records x 4 id encodings, random '
                'records (each field boundary with p=0.4 else uniform), id strings of every encoding x length 0..16 on '
                'the 5 kinds carrying one, full-record sweeps of M, B (-512..511), accuracy (0..1023), all 256 exponent '
                'pairs, all unit/flag sub-fields (oracle on every record, correspondence on a sample), every prefix of '
                'sample records, all 256 type bytes, random bodies and corrupted id-string bytes. '
                'distinct = distinct byte strings handed to from_data; all are non-trivial')
    res.samples = [{'term': terms[i][:300], 'case': meta[i]} for i in (0, len(terms) // 3, len(terms) // 2, len(terms) - 1)]
    res.oracle_failures = list(fails.values())
    return res
