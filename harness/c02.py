"""C02 - decoding arbitrary bytes is total and strict.

Obligations: Props/C02.v over the regenerated registry.  Correspondence: Model.Codec.decode
on the generated layouts vs. decode_message on the same byte strings (inside Coq).
Oracle: success => re-encode == input; failure => DecodingError; cc != 0 => only cc set.
"""
import multiprocessing as mp

from . import common as C
from . import codec_util as U
from .c01 import MODEL_MAP, TRUSTED, GENS  # noqa: F401  (same model, same translator)


def judge(name, data):
    """the property on the implementation for one (class, byte string); None = holds"""
    import pyipmi.errors as E
    from pyipmi.msgs import decode_message, encode_message
    cls = U.cls_of(name)
    obj = cls()
    try:
        decode_message(obj, data)
    except E.DecodingError:
        return None
    except Exception as e:  # noqa
        return 'decoding %s raises %s: %s' % (data.hex(), type(e).__name__, e)
    fs = U.fields_of(cls)
    has_cc = any(getattr(U.kind(f), '__name__', '') == 'CompletionCode' for f in fs)
    if has_cc and len(data) > 0 and data[0] != 0 and U.kind(fs[0]).__name__ == 'CompletionCode':
        fresh = U.canon_env(cls())
        got = U.canon_env(obj)
        if got[0] != ('int', data[0]) or got[1:] != fresh[1:]:
            return 'non-OK code %02x: decoded object is %r, expected only the code set' % (data[0], got)
        return None
    try:
        again = bytes(encode_message(obj))
    except Exception as e:  # noqa
        return 'decoded %s but re-encoding raises %s: %s' % (data.hex(), type(e).__name__, e)
    if again != bytes(data):
        return 'decoded %s but re-encodes to %s' % (data.hex(), again.hex())
    return None


def oracle_decode(inp):
    return judge(inp['cls'], bytes.fromhex(inp['data']))


def judge_reuse(name, first, second):
    """decoding is a function of the bytes: decoding [second] into a message object that already
    decoded [first] gives what a fresh object gives, and it re-encodes to [second]"""
    from pyipmi.msgs import decode_message, encode_message
    cls = U.cls_of(name)
    fresh = U.attempt(lambda: U.decode_bytes(cls, second))
    obj = cls()
    try:
        decode_message(obj, first)
        decode_message(obj, second)
        got = U.canon_env(obj)
    except Exception as e:  # noqa
        got = e
    if isinstance(fresh, Exception) or isinstance(got, Exception):
        if type(fresh) is type(got):
            return None
        return 'decoding %s into an object that decoded %s before: %r, a fresh object: %r' % (second.hex(), first.hex(), got, fresh)
    if got != fresh:
        return 'decoding %s into an object that decoded %s before gives %r, a fresh object gives %r' % (
            second.hex(), first.hex(), got, fresh)
    again = U.attempt(lambda: bytes(encode_message(obj)))
    if again != bytes(second):
        return 'object that decoded %s then %s re-encodes to %r' % (first.hex(), second.hex(), again)
    return None


def judge_paths(name, data):
    """the decode-on-construction paths (Cls(data), create_message(netfn, cmd, grp, data)) behave
    exactly like decode_message on a fresh object: same values or the same error class"""
    from pyipmi.msgs import create_message
    cls = U.cls_of(name)
    ref = U.attempt(lambda: U.decode_bytes(cls, data))
    outs = {'decode_message': ref}
    outs['constructor'] = U.attempt(lambda: U.canon_env(cls(data)))
    outs['create_message'] = U.attempt(lambda: U.canon_env(
        create_message(cls.__netfn__, cls.__cmdid__, cls.__group_extension__, data)))
    for k in ('constructor', 'create_message'):
        a, b = outs[k], ref
        same = (type(a) is type(b)) if isinstance(a, Exception) or isinstance(b, Exception) else a == b
        if not same:
            return '%s path on %s gives %r, decode_message gives %r' % (k, data.hex(), a, b)
    return None


def oracle_paths(inp):
    return judge_paths(inp['cls'], bytes.fromhex(inp['data']))


def oracle_reuse(inp):
    return judge_reuse(inp['cls'], bytes.fromhex(inp['first']), bytes.fromhex(inp['second']))


def replay(data):
    r = data['replay']
    if r['oracle'] == 'decode_reuse':
        return oracle_reuse(r['input']) is None
    if r['oracle'] == 'decode_paths':
        return oracle_paths(r['input']) is None
    return oracle_decode(r['input']) is None


def _sweep2(name):
    """all two-byte strings for one class; returns first failure or None"""
    for a in range(256):
        for b in range(256):
            d = bytes([a, b])
            msg = judge(name, d)
            if msg:
                return (name, d.hex(), msg)
    return None


def run(ctx):
    from pyipmi.msgs import message as M
    rng = ctx.rng
    res = C.Result(model_map=MODEL_MAP)
    D = C.Distinct()
    terms, meta, fails = [], [], {}
    q = ctx.quick

    def oracle(name, data):
        res.evaluations += 1
        msg = judge(name, data)
        key = 'decode:' + name
        if msg and key not in fails:
            fails[key] = C.Violation(key=key, what='%s: %s' % (name, msg),
                                     replay={'oracle': 'decode', 'input': {'cls': name, 'data': data.hex()}})

    def paths(name, data):
        res.evaluations += 1
        msg = judge_paths(name, data)
        key = 'decode-paths:' + name
        if msg and key not in fails:
            fails[key] = C.Violation(key=key, what='%s: %s' % (name, msg),
                                     replay={'oracle': 'decode_paths', 'input': {'cls': name, 'data': data.hex()}})

    def case(name, data, kind):
        if kind in ('len0', 'valid', 'truncation', 'cc-stop', 'extension'):
            paths(name, data)
            if kind == 'len0':
                rc = U.attempt(lambda: U.canon_env(U.cls_of(name)(data)))
                terms.append('chk_dec L_%s %s %s' % (name, C.c_hex(data), U.xres(rc, U.c_env)))
                meta.append(('constructor-path', name, data.hex()))
        r = U.attempt(lambda: U.decode_bytes(U.cls_of(name), data))
        terms.append('chk_dec L_%s %s %s' % (name, C.c_hex(data), U.xres(r, U.c_env)))
        meta.append((kind, name, data.hex()))
        oracle(name, data)
        D.add((name, data), len(data) > 0, kind)

    names = []
    for name in U.registry_names():
        cls = U.cls_of(name)
        fs = U.fields_of(cls)
        if fs is None or fs == 'malformed' or isinstance(U.attempt(lambda: cls()), Exception):
            continue          # C02 quantifies over classes that carry data fields (construction is C01's)
        names.append(name)
    for name in names:
        cls = U.cls_of(name)
        fs = U.fields_of(cls)
        is_rsp = bool(cls.__netfn__ & 1)
        # all strings of length <= 1, exhaustively (one Coq term for the 256 one-byte inputs)
        case(name, b'', 'len0')
        oks = []
        for b in range(256):
            d = bytes([b])
            r = U.attempt(lambda: U.decode_bytes(cls, d))
            oracle(name, d)
            if not isinstance(r, Exception):
                oks.append('(%d, %s)' % (b, U.c_env(r)))
            elif U.xres(r, None) != 'XDec':
                terms.append('chk_dec L_%s %s %s' % (name, C.c_hex(d), U.xres(r, U.c_env)))
                meta.append(('len1-other', name, d.hex()))
        terms.append('chk_dec_all1 L_%s [%s]' % (name, '; '.join(oks)))
        meta.append(('len1-all256', name, ''))
        D.add((name, 'len1'), True, 'len1-all256')
        # boundary rows of the two-byte square (quick); the full square is swept by the oracle in thorough
        for b in (range(0, 256, 5) if q else range(256)):
            case(name, bytes([0, b]), 'len2-row0')
            case(name, bytes([b, 0]), 'len2-col0')
        # truncations and 1..3-byte extensions of valid encodings
        nopt = U.n_optional(cls)
        for rep in range(2 if q else 12):
            env = U.gen_in_range(cls, rng, 'random', nopt if rep == 0 else None)
            bs = U.encode_env(cls, env)
            for n in range(len(bs) + 1):
                case(name, bs[:n], 'truncation' if n < len(bs) else 'valid')
            for n in (1, 2, 3):
                case(name, bs + bytes(rng.randrange(256) for _ in range(n)), 'extension')
        # a message object that decoded something before: longer form first, then every shorter
        # presence pattern / shorter variable part (classes with Conditional fields keep the old
        # attribute when the condition is false in the original code too: not claimed)
        if not any(isinstance(f, M.Conditional) for f in fs):
            env_full = U.gen_in_range(cls, rng, 'ones', nopt)
            first = U.encode_env(cls, env_full)
            seconds = [U.encode_env(cls, U.gen_in_range(cls, rng, 'random', p)) for p in range(nopt + 1)]
            if any(U.kind(f) is M.VariableByteArray for f in fs):
                for ln in (0, 1):
                    e2 = U.gen_in_range(cls, rng, 'random', nopt)
                    for i, f in enumerate(fs):
                        if U.kind(f) is M.VariableByteArray:
                            e2[i] = ('bytes', bytes(range(ln)))
                            e2[[U.inner(g).name for g in fs].index('count')] = ('int', ln)
                    seconds.append(U.encode_env(cls, e2))
                first = U.encode_env(cls, [('int', 0), ('int', 7), ('bytes', bytes(range(7)))]) if len(fs) == 3 else first
            for second in seconds:
                def reuse():
                    from pyipmi.msgs import decode_message
                    o = cls()
                    decode_message(o, first)
                    decode_message(o, second)
                    return U.canon_env(o)
                r = U.attempt(reuse)
                terms.append('chk_dec L_%s %s %s' % (name, C.c_hex(second), U.xres(r, U.c_env)))
                meta.append(('decode-into-used-object', name, first.hex(), second.hex()))
                res.evaluations += 1
                msg = judge_reuse(name, first, second)
                key = 'decode-reuse:' + name
                if msg and key not in fails:
                    fails[key] = C.Violation(key=key, what='%s: %s' % (name, msg),
                                             replay={'oracle': 'decode_reuse',
                                                     'input': {'cls': name, 'first': first.hex(), 'second': second.hex()}})
                D.add((name, 'reuse', first, second), True, 'decode-into-used-object')
        # random strings up to layout length + 8, 70 % starting with 00
        full = len(U.encode_env(cls, U.gen_in_range(cls, rng, 'ones', nopt)))
        for _ in range(12 if q else 200):
            n = rng.randrange(1, full + 9)
            d = bytes(rng.randrange(256) for _ in range(n))
            if rng.random() < 0.7:
                d = b'\x00' + d[1:]
            case(name, d, 'random')
        # all 255 non-OK completion codes followed by 0..8 arbitrary bytes
        if is_rsp and U.kind(fs[0]) is M.CompletionCode and type(fs[0]) not in (M.Optional, M.Conditional):
            codes = list(range(1, 256))
            sample = set(rng.sample(codes, 10 if q else 255)) | {1, 0x80, 0xc0, 0xc3, 0xff}
            for cc in codes:
                d = bytes([cc]) + bytes(rng.randrange(256) for _ in range(rng.randrange(9)))
                if cc in sample:
                    case(name, d, 'cc-stop')
                else:
                    oracle(name, d)
    if not q:
        # exhaustive length-2 sweep of the property on the implementation, all classes
        with mp.Pool(C.NCPU) as pool:
            for r in pool.imap_unordered(_sweep2, names):
                res.evaluations += 65536
                if r:
                    name, hexd, msg = r
                    key = 'decode:' + name
                    fails.setdefault(key, C.Violation(key=key, what='%s: %s' % (name, msg),
                                                      replay={'oracle': 'decode', 'input': {'cls': name, 'data': hexd}}))
        res.extra['len2_exhaustive_classes'] = len(names)
    # downgrade rule (see harness/c01.py): no model exists in this run for classes the translator
    # could not express; their terms are dropped, the oracle above still judged every input
    from .c01 import _untranslated_names
    untranslated = _untranslated_names()
    res.extra['classes_untranslated'] = sorted(untranslated)
    if untranslated:
        keep = [i for i, m in enumerate(meta) if m[1] not in untranslated]
        terms[:] = [terms[i] for i in keep]
        meta[:] = [meta[i] for i in keep]
    failing, errors = C.coq_cases('C02', 'Model.Codec Gen.Layouts Corr.C01', terms)
    res.mismatches = [{'case': meta[i], 'term': terms[i][:400]} for i in failing[:50]]
    res.corr_errors = errors
    res.evaluations += len(terms)
    res.distinct_nontrivial = D.distinct
    res.histogram = D.hist
    res.extra['classes_with_fields'] = len(names)
    res.rule = ('per class with a field layout: all byte strings of length <= 1 (exhaustive), two boundary rows of the '
                'length-2 square (full square by the oracle in the thorough tier), every truncation and 1..3-byte '
                'extension of valid encodings, random strings up to layout length + 8 (70 % starting with 00), all 255 '
                'non-OK codes followed by 0..8 random bytes (oracle; a sample through the model). '
                'non-trivial = non-empty input')
    pick = [i for i, m in enumerate(meta) if m[0] in ('truncation', 'cc-stop', 'random')]
    res.samples = [{'term': terms[i][:300], 'case': meta[i]} for i in pick[:2] + pick[len(pick) // 2:len(pick) // 2 + 2]]
    res.oracle_failures = list(fails.values())
    return res
