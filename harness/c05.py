"""C05 - LAN datagrams: RMCP header, IPMI v1.5 session header, authentication code,
length byte, payload; unwrapping / rejection of received datagrams; ASF ping / pong.

Correspondence: Model/Rmcp.v evaluated inside Coq (Corr/C05.v checkers) against
pyipmi.interfaces.rmcp on the same (session state, payload) inputs and the same received
datagrams.  hashlib.md5 is wrapped (module attribute of rmcp, no hook in /repo) so that the
bytes the implementation hashes are recorded; inside Coq `md5` is the recorded table, so a
model pre-image different from what the implementation hashed cannot produce the digest.
Oracle: an independent reading of the RMCP / IPMI v1.5 session / ASF formats (encoder and
parser below, real hashlib.md5), applied to what the real Rmcp object hands to / takes
from a substituted UDP socket.
"""
import hashlib
import socket

from . import common as C
from . import lan_pub as P

MODEL_MAP = [
    {'python': 'pyipmi/interfaces/rmcp.py:RmcpMsg.pack/unpack', 'coq': 'Model.Rmcp.rmcp_pack/rmcp_unpack'},
    {'python': 'pyipmi/interfaces/rmcp.py:AsfMsg.pack, AsfPing', 'coq': 'Model.Rmcp.asf_pack/asf_ping'},
    {'python': 'pyipmi/interfaces/rmcp.py:AsfMsg.unpack, AsfPong.unpack/check_header/check_data',
     'coq': 'Model.Rmcp.asf_pong_unpack'},
    {'python': 'pyipmi/interfaces/rmcp.py:IpmiMsg._pack_session_id/_pack_sequence_number',
     'coq': 'Model.Rmcp.pack_session_id/pack_sequence_number/swap32'},
    {'python': 'pyipmi/interfaces/rmcp.py:IpmiMsg._padd_password/_pack_auth_code_straight', 'coq': 'Model.Rmcp.padd_password'},
    {'python': 'pyipmi/interfaces/rmcp.py:IpmiMsg._pack_auth_code_md5', 'coq': 'Model.Rmcp.md5_preimage/pack_auth_code_md5'},
    {'python': 'pyipmi/interfaces/rmcp.py:IpmiMsg.pack', 'coq': 'Model.Rmcp.ipmi_pack'},
    {'python': 'pyipmi/interfaces/rmcp.py:IpmiMsg.unpack', 'coq': 'Model.Rmcp.ipmi_unpack'},
    {'python': 'pyipmi/interfaces/rmcp.py:Rmcp._send_rmcp_msg/_send_ipmi_msg', 'coq': 'Model.Rmcp.send_ipmi_msg/rmcp_seq_next'},
    {'python': 'pyipmi/interfaces/rmcp.py:Rmcp._receive_rmcp_msg/_receive_ipmi_msg', 'coq': 'Model.Rmcp.receive_ipmi_msg'},
    {'python': 'pyipmi/interfaces/rmcp.py:Rmcp._receive_asf_msg(AsfPong)', 'coq': 'Model.Rmcp.receive_pong'},
    {'python': 'pyipmi/session.py:Session.increment_sequence_number', 'coq': 'Model.Rmcp.incr_seq'},
    {'python': 'pyipmi/interfaces/rmcp.py:Rmcp.send_and_receive / _send_and_receive (send side: encode_message -> '
               'IpmbHeaderReq -> encode_ipmb_msg -> _send_ipmi_msg)', 'coq': 'Model.Wire.wire_send (Model.Codec.encode over '
               'Gen.Layouts.registry, Model.Ipmb.encode_ipmb_msg, Model.Rmcp.send_ipmi_msg)'},
    {'python': '(specification side) independent receiver of a request datagram', 'coq': 'Model.Wire.wire_recv'},
]
GENS = ['layouts']        # Props/C05.v states the end-to-end theorem over the regenerated registry
TRUSTED = ['hashlib.md5 (used by the oracle; inside Coq md5 is a Section variable, instantiated per case by the '
           'table of (input, digest) pairs the implementation produced)']

IDS = [0, 1, 0xff, 0x100, 0x7fffffff, 0x80000000, 0xfffffffe, 0xffffffff, 0x01020304, 0xa1b2c3d4]


def _rmcp():
    import pyipmi.interfaces.rmcp as rmcp
    return rmcp


# --------------------------------------------------------------------------
# substitutes (no hook in /repo)
# --------------------------------------------------------------------------
FakeSock = P.FakeSock


class Md5Recorder:
    """Stands for the `hashlib` module inside pyipmi.interfaces.rmcp."""

    def __init__(self):
        self.calls = []

    def md5(self, data=b''):
        self.calls.append(bytes(data))
        return hashlib.md5(data)

    def __getattr__(self, k):
        return getattr(hashlib, k)


class md5_recorded:
    def __enter__(self):
        self.mod = _rmcp()
        self.saved = self.mod.hashlib
        self.rec = Md5Recorder()
        self.mod.hashlib = self.rec
        return self.rec

    def __exit__(self, *a):
        self.mod.hashlib = self.saved


def mk_session(st):
    """st = dict(auth, sid, seq, act, pw) ; pw: None | str | 'hex:..' (bytes)"""
    from pyipmi.session import Session
    if st is None:
        return None
    s = Session()
    if st['pw'] is not None:
        s.set_auth_type_user(None, pw_value(st['pw']))      # public; a fresh Session has no password
    s.auth_type = st['auth']
    s.sid = st['sid']
    s.sequence_number = st['seq']
    s.activated = st['act']
    return s


def pw_value(p):
    if p is None:
        return None
    if p.startswith('hex:'):
        return bytes.fromhex(p[4:])
    return p[4:]            # 'str:...'


def pw_bytes(p):
    v = pw_value(p)
    if v is None:
        return None
    return v if isinstance(v, bytes) else v.encode('utf-8')


def c_sess(st):
    if st is None:
        return 'None'
    pb = pw_bytes(st['pw'])
    return '(Some (mkSess %s %d %d %s %s))' % (
        C.c_opt(None if st['auth'] is None else str(st['auth'])), st['sid'], st['seq'],
        C.c_bool(st['act']), C.c_opt(None if pb is None else C.c_hex(pb)))


def c_sdu(sdu):
    return C.c_opt(None if sdu is None else C.c_hex(sdu))


def c_tab(calls):
    seen, items = set(), []
    for x in calls:
        if x not in seen:
            seen.add(x)
            items.append('(%s, %s)' % (C.c_hex(x), C.c_hex(hashlib.md5(x).digest())))
    return C.c_list(items)


def code_of(e):
    import pyipmi.errors as E
    if isinstance(e, E.DecodingError):
        return 1
    if isinstance(e, E.NotSupportedError):
        return 2
    return 3


def attempt(f):
    try:
        return 0, f()
    except Exception as e:  # noqa
        return code_of(e), None


# --------------------------------------------------------------------------
# the specification side: independent encoder / parser of the formats
# (RMCP: ASF 2.0 3.2.2; session header: IPMI v1.5 table 12-8; ASF ping/pong 3.2.4)
# --------------------------------------------------------------------------
def le32(v):
    return bytes((v >> (8 * i)) & 0xff for i in range(4))


def pad16(pw):
    return pw + bytes(16 - len(pw))


def spec_datagram(auth, seq, sid, pw, payload, rmcp_seq=0xff):
    out = bytearray([0x06, 0x00, rmcp_seq, 0x07, auth]) + le32(seq) + le32(sid)
    if auth == 4:
        out += pad16(pw)
    elif auth == 2:
        out += hashlib.md5(pad16(pw) + le32(sid) + payload + le32(seq) + pad16(pw)).digest()
    elif auth != 0:
        raise ValueError('not implemented by the library')
    out.append(len(payload))
    return bytes(out + payload)


def spec_next_seq(seq):
    return 1 if seq == 0xffffffff else seq + 1


def spec_parse(d):
    """('reject', why) | ('ok', payload) for a received datagram, length check on."""
    if len(d) < 4:
        return 'reject', 'shorter than an RMCP header'
    if d[0] != 6:
        return 'reject', 'RMCP version %d' % d[0]
    if d[3] != 7:
        return 'reject', 'message class 0x%02x' % d[3]
    body = d[4:]
    if not body:
        return 'reject', 'no session header'
    hl = 10 if body[0] == 0 else 26
    if len(body) < hl:
        return 'reject', 'session header truncated'
    if body[hl - 1] != len(body) - hl:
        return 'reject', 'length byte %d but %d payload bytes' % (body[hl - 1], len(body) - hl)
    return 'ok', bytes(body[hl:])


SPEC_PING = bytes([0x06, 0x00, 0xff, 0x06, 0x00, 0x00, 0x11, 0xbe, 0x80, 0x00, 0x00, 0x00])


def spec_pong(tag=0, oem_iana=4542, oem_def=0, entities=0x81, interactions=0):
    return (bytes([0x06, 0x00, 0xff, 0x06, 0x00, 0x00, 0x11, 0xbe, 0x40, tag, 0x00, 0x10]) +
            oem_iana.to_bytes(4, 'big') + oem_def.to_bytes(4, 'big') + bytes([entities, interactions]) + bytes(6))


def spec_pong_structure(d):
    """'reject' when the datagram cannot be a presence pong at all, else None (no demand)"""
    if len(d) < 12 or d[0] != 6 or d[3] != 6:
        return 'not an RMCP/ASF message'
    if d[8] != 0x40:
        return 'ASF type 0x%02x' % d[8]
    if d[11] != 16 or len(d) != 28:
        return 'data length %d / %d bytes' % (d[11], len(d) - 12)
    return None


# --------------------------------------------------------------------------
# running the implementation
# --------------------------------------------------------------------------
def new_itf(session, rseq=0xff, rx=(), **kw):
    """an Rmcp interface on a recording socket (given through the public open()), sending under
    `session`; our socket object is kept as itf.verif_sock"""
    sock = FakeSock(rx)
    r = P.new_interface(sock, **kw)
    r.verif_sock = sock
    P.attach_session(r, sock, session)
    if rseq != 0xff and hasattr(r, 'seq_number'):
        r.seq_number = rseq
    return r


def impl_send(st, rseq, data):
    """One datagram with payload `data` through the Rmcp interface behind the recording socket ->
    (code, datagram|None, seq afterwards, rmcp seq afterwards, md5 inputs, payload actually carried),
    or None when that payload cannot be sent on the path available (see lan_pub.send_payload)"""
    s = mk_session(st)
    r = new_itf(s, rseq)
    with md5_recorded() as rec:
        out = P.send_payload(r, r.verif_sock, data)
    if out is None:
        return None
    exc, eff = out
    sent = r.verif_sock.sent
    return (0 if exc is None else code_of(exc), sent[0] if sent else None,
            (s.sequence_number if s is not None else 0), getattr(r, 'seq_number', rseq), rec.calls, eff)


def impl_pack(st, sdu):
    s = mk_session(st)
    m = _rmcp().IpmiMsg(s)
    with md5_recorded() as rec:
        code, pdu = attempt(lambda: m.pack(sdu))
    return code, pdu, (s.sequence_number if s is not None else 0), rec.calls


def impl_recv(q, dgram):
    """-> (level, code, data) ; level 'rmcp' | 'classes', or None when not observable (lan_pub.receive_payload)"""
    out = P.receive_payload(q, dgram)
    if out is None:
        return None
    level, exc, data = out
    return level, (0 if exc is None else code_of(exc)), data


def impl_recv_pong(dgram):
    """Rmcp.ping() answered with dgram; on success the field values as AsfPong().unpack reports them"""
    exc, _ = P.ping_with(dgram)
    if exc is not None:
        return code_of(exc), None
    return attempt(lambda: _pong_fields(_rmcp(), dgram[4:]))


# --------------------------------------------------------------------------
# oracles: the property on the implementation
# --------------------------------------------------------------------------
def oracle_send(inp):
    """datagram sent for (session state, payload) is exactly the specified one, built
    over the sequence number that the session holds afterwards"""
    st, data, rseq = inp['st'], bytes.fromhex(inp['data']), inp.get('rseq', 0xff)
    out = impl_send(st, rseq, data)
    if out is None:
        return None
    code, dg, seq_after, _, _, data = out
    if code != 0 or dg is None:
        return 'no datagram sent (exception class %d)' % code
    if st is None:
        auth, sid, seq, pw = 0, 0, 0, b''
    else:
        auth, sid, pw = st['auth'], st['sid'], pw_bytes(st['pw']) or b''
        seq = spec_next_seq(st['seq']) if st['act'] else st['seq']
        if seq_after != seq:
            return 'session sequence number after the datagram is %#x, expected %#x' % (seq_after, seq)
    want = spec_datagram(auth, seq, sid, pw, data, rseq)
    if dg == want:
        return None
    fields = [('rmcp version', 0, 1), ('rmcp reserved', 1, 2), ('rmcp sequence', 2, 3), ('message class', 3, 4),
              ('auth type', 4, 5), ('session sequence number', 5, 9), ('session id', 9, 13)]
    if auth != 0:
        fields.append(('auth code', 13, 29))
    o = 29 if auth != 0 else 13
    fields += [('length byte', o, o + 1), ('payload', o + 1, None)]
    for name, a, b in fields:
        if dg[a:b] != want[a:b]:
            extra = ''
            if name == 'auth code' and auth == 2 and len(dg) >= 29:
                own = hashlib.md5(pad16(pw) + dg[9:13] + data + dg[5:9] + pad16(pw)).digest()
                extra = ' (digest over the bytes present in this datagram: %s)' % (
                    'matches' if own == dg[13:29] else 'does not match either')
            return '%s is %s, specified %s%s' % (name, dg[a:b].hex(), want[a:b].hex(), extra)
    return 'datagram %s differs from %s' % (dg.hex(), want.hex())


def judge_recv(d, q, code, data):
    """verdict on what came out of a received datagram d under length-check-disabled = q"""
    verdict, arg = spec_parse(d)
    if verdict == 'ok':
        if len(arg) == 0:
            return None     # an empty payload is no IPMI message; any outcome but a wrong payload
        if code != 0:
            return 'well-formed datagram rejected (exception class %d)' % code
        return None if data == arg else 'unwrapped to %s instead of payload %s' % (data.hex(), arg.hex())
    if q and arg.startswith('length byte'):
        # the caller disabled the length check: the datagram must then be unwrapped to exactly the
        # bytes that follow the session header
        body = d[4:]
        pay = bytes(body[10 if body[0] == 0 else 26:])
        if len(pay) == 0:
            return None
        if code != 0:
            return 'length check disabled, but the datagram (%s) is rejected (exception class %d)' % (arg, code)
        return None if data == pay else 'length check disabled: unwrapped to %s instead of the %d bytes after the ' \
                                        'session header' % (data.hex(), len(pay))
    if code == 0:
        return 'accepted (-> %s) although: %s' % (data.hex(), arg)
    return None


def oracle_recv(inp):
    d, q = bytes.fromhex(inp['dgram']), inp['quirk']
    out = impl_recv(q, d)
    if out is None:
        return None
    return judge_recv(d, q, out[1], out[2])


reply_datagram = P.reply_datagram


def oracle_quirk_public(inp):
    """an interface created WITH quirks_cfg={'rmcp_ignore_sdu_length': True} unwraps a reply whose length
    byte is wrong to exactly its payload; one created without it rejects such a reply - through the
    public path: constructor / create_interface, send_and_receive_raw behind the scripted socket"""
    import pyipmi
    import pyipmi.interfaces
    rmcp = _rmcp()
    kw = {} if inp['quirk'] is None else {'quirks_cfg': {'rmcp_ignore_sdu_length': inp['quirk']}}
    itf = pyipmi.interfaces.create_interface('rmcp', **kw) if inp['via'] == 'create_interface' else rmcp.Rmcp(**kw)
    data = bytes.fromhex(inp['rsp'])

    sock = FakeSock(responder=lambda pdu: [reply_datagram(pdu, data, inp['auth'], inp['delta'], inp.get('zero', False))])
    P.give_socket(itf, sock)
    P.attach_session(itf, sock, mk_session(inp.get('st')))
    raw = bytes.fromhex(inp['raw'])
    code, got = attempt(lambda: bytes(itf.send_and_receive_raw(pyipmi.Target(0x20), inp['lun'], inp['netfn'], raw)))
    wrong = inp.get('zero', False) or inp['delta'] % 256 != 0
    what = 'interface created with %s, reply with length byte %s' % (
        kw or 'no quirks', 'zero' if inp.get('zero') else '%+d off' % inp['delta'] if wrong else 'correct')
    if wrong and not inp['quirk']:
        return None if code != 0 else '%s: accepted (-> %s)' % (what, got.hex())
    if code != 0:
        return '%s: rejected (exception class %d) instead of being unwrapped' % (what, code)
    return None if got == data else '%s: returned %s instead of the response data %s' % (what, got.hex(), data.hex())


def oracle_quirk_public_seq(inp):
    """several interfaces created and used one after the other in ONE process: each per its own setting"""
    for n, c in enumerate(inp['calls']):
        msg = oracle_quirk_public(c)
        if msg:
            return 'interface %d of the history: %s' % (n, msg)
    return None


# ---- histories: several objects / several calls in ONE process -------------------------
def quirk_seq_steps(calls):
    """Run a history of object creations and receptions; yields (index, call, kind, own setting,
    code, data) for every reception.  calls:
      ['rmcp', id, q]  Rmcp() if q is None else Rmcp(quirks_cfg={'rmcp_ignore_sdu_length': q})
      ['msg', id, q]   IpmiMsg() if q is None else IpmiMsg(ignore_sdu_length=q)
      ['recv', id, datagram hex]   (calls naming an object that does not exist are skipped)"""
    rmcp = _rmcp()
    objs = {}
    for n, c in enumerate(calls):
        if c[0] == 'rmcp':
            r = rmcp.Rmcp() if c[2] is None else rmcp.Rmcp(quirks_cfg={'rmcp_ignore_sdu_length': c[2]})
            sock = FakeSock()
            P.give_socket(r, sock)
            r.verif_sock = sock
            objs[c[1]] = ('rmcp', r, bool(c[2]))
        elif c[0] == 'msg':
            m = rmcp.IpmiMsg() if c[2] is None else rmcp.IpmiMsg(ignore_sdu_length=c[2])
            objs[c[1]] = ('msg', m, bool(c[2]))
        elif c[0] == 'recv' and c[1] in objs:
            kind, o, q = objs[c[1]]
            d = bytes.fromhex(c[2])
            if kind == 'rmcp' and P.has(o, '_receive_ipmi_msg'):
                o.verif_sock.rx = [d]
                # as Rmcp._send_and_receive calls it
                code, data = attempt(lambda: bytes(o._receive_ipmi_msg(getattr(o, 'ignore_sdu_length', q))))
            elif kind == 'rmcp':
                # public path: the object answers a raw request; the reply has the session header type and
                # the length-byte error of d around a matching IPMB response frame
                kind = 'rmcp-public'
                import pyipmi
                if len(d) < 5:
                    continue
                hl = 4 + (10 if d[4] == 0 else 26)
                if len(d) < hl:
                    continue
                delta = (d[hl - 1] - (len(d) - hl)) % 256
                rsp = bytes([0]) + bytes(d[hl:hl + 9])
                o.verif_sock.responder = lambda pdu: [reply_datagram(pdu, rsp, d[4], delta)]
                code, data = attempt(lambda: bytes(o.send_and_receive_raw(pyipmi.Target(0x20), 0, 6, b'\x01')))
                o.verif_sock.responder = None
                ok = (code == 0 and data == rsp) if (delta == 0 or q) else code != 0
                data = None if ok else ('reply with length byte %+d off: %s' % (
                    delta if delta < 128 else delta - 256, 'exception class %d' % code if code else 'returned %s' % data.hex()))
            else:
                code, data = attempt(lambda: bytes(o.unpack(d[4:]) or b''))
            yield n, c, kind, q, code, data


def oracle_quirk_seq(inp):
    """every object behaves per ITS OWN length-check setting, whatever was created before"""
    for n, c, kind, q, code, data in quirk_seq_steps(inp['calls']):
        d = bytes.fromhex(c[2])
        if kind == 'rmcp-public':
            if data is not None:
                return 'call %d of the history: rmcp object %r created with ignore_sdu_length=%s: %s' % (n, c[1], q, data)
            continue
        if kind == 'msg' and (len(d) < 4 or d[0] != 6 or d[3] != 7):
            continue        # IpmiMsg.unpack alone does not see the RMCP header
        msg = judge_recv(d, q, code, data if data is not None else b'')
        if msg:
            return 'call %d of the history: %s object %r created with ignore_sdu_length=%s: %s' % (n, kind, c[1], q, msg)
    return None


def pack_seq_steps(calls):
    """One Rmcp behind a recording socket and several Session objects that are modified between
    datagrams.  Yields (index, call, shadow state used for this datagram, code, datagram, seq after,
    md5 inputs).  calls:
      ['new', id]                      Session()
      ['user', id, user, pw]           session.set_auth_type_user(user, pw)   (pw 'str:..' / 'hex:..')
      ['attr', id, name, value]        setattr(session, name, value) for auth_type / sid / sequence_number / activated
      ['send', id, payload hex]        Rmcp._session = session; Rmcp._send_ipmi_msg(payload)"""
    from pyipmi.session import Session
    r = new_itf(None)
    objs = {}
    for n, c in enumerate(calls):
        if c[0] == 'new':
            objs[c[1]] = (Session(), {'auth': 0, 'sid': 0, 'seq': 0, 'act': False, 'pw': None})
        elif c[1] not in objs:
            continue
        elif c[0] == 'user':
            s, sh = objs[c[1]]
            s.set_auth_type_user(c[2], pw_value(c[3]))
            sh['auth'], sh['pw'] = 4, c[3]
        elif c[0] == 'attr':
            s, sh = objs[c[1]]
            setattr(s, c[2], c[3])
            sh[{'auth_type': 'auth', 'sid': 'sid', 'sequence_number': 'seq', 'activated': 'act'}[c[2]]] = c[3]
        elif c[0] == 'send':
            s, sh = objs[c[1]]
            P.attach_session(r, r.verif_sock, s)
            r.verif_sock.sent = []
            st = dict(sh)
            with md5_recorded() as rec:
                out = P.send_payload(r, r.verif_sock, bytes.fromhex(c[2]))
            if out is None:
                continue            # this payload cannot be sent on the path available
            exc, eff = out
            if sh['act']:
                sh['seq'] = spec_next_seq(sh['seq'])
            sent = r.verif_sock.sent
            yield (n, [c[0], c[1], eff.hex()], st, 0 if exc is None else code_of(exc), sent[0] if sent else None,
                   s.sequence_number, rec.calls)


def oracle_pack_seq(inp):
    """every datagram is the specified one for the values the Session holds at that moment"""
    for n, c, st, code, dg, seq_after, _ in pack_seq_steps(inp['calls']):
        data = bytes.fromhex(c[2])
        pwb = pw_bytes(st['pw'])
        if st['auth'] not in (0, 2, 4) or (st['auth'] != 0 and (pwb is None or len(pwb) > 16)) or len(data) > 255:
            continue        # outside the property's quantifier (e.g. a shrunk history without the password)
        if code != 0 or dg is None:
            return 'call %d of the history: no datagram sent (exception class %d)' % (n, code)
        seq = spec_next_seq(st['seq']) if st['act'] else st['seq']
        pw = pw_bytes(st['pw']) or b''
        want = spec_datagram(st['auth'], seq, st['sid'], pw, data)
        if seq_after != seq:
            return 'call %d of the history: session sequence number afterwards %#x, expected %#x' % (n, seq_after, seq)
        if dg != want:
            extra = ''
            if st['auth'] == 2 and dg[:13] == want[:13] and dg[29:] == want[29:]:
                extra = ' (only the MD5 code differs: it is not the digest of current password, id, payload, number, ' \
                        'current password)'
            return 'call %d of the history: datagram %s, specified %s for type %d, id %#x, number %#x, password %r%s' % (
                n, dg.hex(), want.hex(), st['auth'], st['sid'], seq, pw, extra)
    return None


def oracle_ping(inp):
    exc, sent = P.ping_with(spec_pong())
    code = 0 if exc is None else code_of(exc)
    if len(sent) != 1 or sent[0] != SPEC_PING:
        return 'presence ping sent as %s, specified %s' % ([x.hex() for x in sent], SPEC_PING.hex())
    if code != 0:
        return 'valid presence pong not accepted'
    return None


def oracle_pong(inp):
    d = bytes.fromhex(inp['dgram'])
    code, _ = impl_recv_pong(d)
    if inp['expect'] == 'accept':
        return None if code == 0 else 'valid presence pong rejected (exception class %d)' % code
    why = spec_pong_structure(d)
    if why and code == 0:
        return 'accepted as presence pong although: ' + why
    return None


ORACLES = {'send': oracle_send, 'recv': oracle_recv, 'ping': oracle_ping, 'pong': oracle_pong,
           'quirk_seq': oracle_quirk_seq, 'pack_seq': oracle_pack_seq, 'quirk_public': oracle_quirk_public,
           'quirk_public_seq': oracle_quirk_public_seq}


def replay(data):
    r = data['replay']
    if 'oracle' not in r:
        return False
    return ORACLES[r['oracle']](r['input']) is None


# --------------------------------------------------------------------------
def passwords(rng, q):
    out = [None, 'str:', 'hex:', 'str:admin', 'hex:' + b'admin'.hex(), 'str:päss', 'str:0123456789abcdef',
           'hex:' + bytes(range(1, 17)).hex(), 'hex:00ff00', 'hex:' + (b'x' * 15).hex()]
    for n in range(0, 17):
        out.append('hex:' + bytes(rng.randrange(256) for _ in range(n)).hex())
        out.append('str:' + ''.join(chr(rng.randrange(33, 127)) for _ in range(n)))
    return out


def run(ctx):
    rmcp = _rmcp()
    rng = ctx.rng
    q = ctx.quick
    res = C.Result(model_map=MODEL_MAP)
    D = C.Distinct()
    terms, meta, fails = [], [], {}

    def add(term, info):
        terms.append(term)
        meta.append(info)

    def oracle(name, inp, key):
        res.evaluations += 1
        msg = ORACLES[name](inp)
        if msg and key not in fails:
            fails[key] = C.Violation(key=key, what=msg, replay={'oracle': name, 'input': inp})

    def rid():
        return rng.choice(IDS) if rng.random() < 0.7 else rng.randrange(1 << 32)

    pws = passwords(rng, q)
    okpw = [p for p in pws if p is not None]

    stage_errors = []

    class stage:
        """A stage that raises (an exception of the implementation or of a helper that reached the harness
        outside `attempt`) is recorded as an observation and the run goes on with the next stage."""

        def __init__(self, name):
            self.name = name

        def __enter__(self):
            return self

        def __exit__(self, et, ev, tb):
            if et is not None and issubclass(et, Exception):
                import traceback
                txt = ''.join(traceback.format_exception(et, ev, tb))[-1500:]
                stage_errors.append({'stage': self.name, 'exception': '%s: %s' % (et.__name__, ev), 'traceback': txt})
                print('NOTE property=C05 stage %r did not complete: %s: %s' % (self.name, et.__name__, ev))
                return True
            return False

    # ---- Session.increment_sequence_number
    with stage('Session.increment_sequence_number'):
        from pyipmi.session import Session
        for n in IDS + [0xfffffffd, 2, 0xfe] + [rng.randrange(1 << 32) for _ in range(20)]:
            s = Session()
            s.sequence_number = n
            s.increment_sequence_number()
            add('chk_incr %d %d' % (n, s.sequence_number), ('incr', n))
            D.add(('incr', n), True, 'increment')

    # ---- IpmiMsg.pack / Rmcp._send_ipmi_msg: (session state, payload)
    with stage('IpmiMsg.pack / Rmcp._send_ipmi_msg'):
        def one_pack(st, sdu, via_send, rseq=0xff):
            out = impl_send(st, rseq, sdu) if via_send else None
            if via_send and out is None:
                via_send = False        # not sendable through the interface on the path available: IpmiMsg.pack alone
            if via_send:
                code, dg, seq2, rseq2, calls, sdu = out
                add('chk_send %s %s %d %s %d %d %d %s' % (c_tab(calls), c_sess(st), rseq, C.c_hex(sdu), seq2, rseq2, code,
                                                         C.c_hex(dg or b'')), ('send', st, sdu.hex(), rseq))
            else:
                code, pdu, seq2, calls = impl_pack(st, sdu)
                add('chk_pack %s %s %s %d %d %s' % (c_tab(calls), c_sess(st), c_sdu(sdu), seq2, code, C.c_hex(pdu or b'')),
                    ('pack', st, None if sdu is None else sdu.hex()))
                if st is not None and st['sid'] < (1 << 32) and st['seq'] < (1 << 32):
                    # _pack_auth_code_md5 called directly (no increment): what goes into hashlib.md5
                    m = rmcp.IpmiMsg(mk_session(st))
                    if P.has(m, '_pack_auth_code_md5'):      # optional: the table of hashed inputs above covers it too
                        with md5_recorded() as rec:
                            code2, _ = attempt(lambda: m._pack_auth_code_md5(sdu))
                        add('chk_preimage %s %s %d %s' % (c_sess(st), c_sdu(sdu), code2,
                                                          C.c_hex(rec.calls[0] if rec.calls else b'')), ('preimage', st))
            supported = st is None or (st['auth'] in (0, 2, 4) and st['pw'] is not None and len(pw_bytes(st['pw'])) <= 16
                                       and st['sid'] < (1 << 32) and st['seq'] < (1 << 32))
            if via_send and supported and len(sdu) <= 255 and 0 <= rseq <= 255:
                oracle('send', {'st': st, 'data': sdu.hex(), 'rseq': rseq},
                       'IpmiMsg.pack:auth%s:%s' % (st['auth'] if st else 'nosession',
                                                   'activated' if st and st['act'] else 'not-activated'))
            D.add(('pack', repr(st), sdu, via_send, rseq), True,
                  'pack-auth-%s' % (st['auth'] if st else 'nosession'))

        # every payload length 0..255 under each implemented type, activated and not
        for n in range(0, 256):
            for auth in (0, 2, 4):
                if q and auth != 2 and n % 4 not in (0, 3) and n > 40:
                    continue
                st = {'auth': auth, 'sid': rid(), 'seq': rid(), 'act': rng.random() < 0.7, 'pw': rng.choice(okpw)}
                one_pack(st, bytes(rng.randrange(256) for _ in range(n)), True)
        # boundary ids x ids, activated / not
        for sid in IDS:
            for seq in IDS:
                for auth in (2, 4, 0):
                    st = {'auth': auth, 'sid': sid, 'seq': seq, 'act': (sid + seq + auth) % 3 != 0, 'pw': rng.choice(okpw)}
                    one_pack(st, bytes(rng.randrange(256) for _ in range(rng.choice([0, 1, 7, 20]))), auth != 0 or seq % 2 == 0)
        # every password (None, str, bytes, lengths 0..16) under password and MD5
        for p in pws + ['hex:' + bytes(17).hex(), 'str:' + 'y' * 20]:
            for auth in (4, 2):
                st = {'auth': auth, 'sid': rid(), 'seq': rid(), 'act': rng.random() < 0.5, 'pw': p}
                one_pack(st, bytes(rng.randrange(256) for _ in range(rng.choice([0, 3, 9]))), True)
                one_pack(st, rng.choice([None, b'', b'\x01\x02']), False)
        # unsupported / malformed session states, no session, None payload, over-long payload
        for auth in (1, 5, 3, 6, 255, 256, None):
            for act in (True, False):
                st = {'auth': auth, 'sid': rid(), 'seq': rid(), 'act': act, 'pw': rng.choice(pws)}
                one_pack(st, b'\x20\x18\xc8', True)
                one_pack(st, None, False)
        for st in (None, {'auth': 0, 'sid': 1 << 32, 'seq': 5, 'act': True, 'pw': None},
                   {'auth': 2, 'sid': 7, 'seq': 1 << 32, 'act': False, 'pw': 'str:a'},
                   {'auth': 4, 'sid': 7, 'seq': (1 << 32) - 1, 'act': True, 'pw': 'str:a'}):
            for sdu in (None, b'', b'\x01', bytes(255), bytes(256), bytes(300)):
                one_pack(st, sdu, False)
                if sdu is not None:
                    one_pack(st, sdu, True)
        # RMCP sequence number handling of _send_rmcp_msg, RmcpMsg.pack
        for rseq in list(range(0, 256)) + [256, 300]:
            st = {'auth': 0, 'sid': 1, 'seq': 1, 'act': True, 'pw': None}
            one_pack(st, b'\x01\x02', True, rseq)
        for sdu in (None, b'', b'\x11\x22\x33\x44'):
            for seq, cls in ((0xff, 7), (0, 6), (3, 8), (256, 7), (1, 256)):
                code, pdu = attempt(lambda: rmcp.RmcpMsg(cls).pack(sdu, seq))
                add('chk_rmcp_pack %s %d %d %d %s' % (c_sdu(sdu), seq, cls, code, C.c_hex(pdu or b'')), ('rmcp_pack', seq, cls))

    # ---- received side
    with stage('received side'):
        def recv_case(d, qk, kind):
            out = impl_recv(qk, d)
            if out is not None and out[0] == 'rmcp':
                add('chk_recv %s %s %d %s' % (C.c_bool(qk), C.c_hex(d), out[1], C.c_hex(out[2] or b'')), (kind, qk, d.hex()))
            elif not qk:
                unpack_cases(d)         # observed through the public classes: RmcpMsg.unpack, IpmiMsg.unpack (both settings)
            oracle('recv', {'dgram': d.hex(), 'quirk': qk}, 'receive:%s:%s' % (kind, 'quirk' if qk else 'strict'))
            D.add(('recv', d, qk), True, 'recv-' + kind)

        def unpack_cases(d):
            code, sdu = attempt(lambda: rmcp.RmcpMsg().unpack(d))
            m = rmcp.RmcpMsg()
            code, _ = attempt(lambda: m.unpack(d))
            add('chk_rmcp_unpack %s %d %d %d %s' % (C.c_hex(d), code, (m.seq_number or 0) if code == 0 else 0,
                                                    (m.class_of_msg or 0) if code == 0 else 0,
                                                    C.c_hex(sdu or b'')), ('rmcp_unpack', d.hex()))
            pdu = d[4:]
            for qk in (False, True):
                code, sdu = attempt(lambda: rmcp.IpmiMsg(ignore_sdu_length=qk).unpack(pdu))
                add('chk_ipmi_unpack %s %s %d %s' % (C.c_bool(qk), C.c_hex(pdu), code,
                                                     c_sdu(None if sdu is None else bytes(sdu))), ('ipmi_unpack', qk, pdu.hex()))

        valid = []
        for auth in (0, 2, 4):
            for n in ([0, 1, 7, 17, 33] if q else [0, 1, 2, 7, 16, 17, 33, 64, 255]):
                valid.append(spec_datagram(auth, rid(), rid(), pw_bytes(rng.choice(okpw)),
                                           bytes(rng.randrange(256) for _ in range(n))))
        # the alteration that turns "no code" into "code present" and stays consistent
        pl = bytearray(rng.randrange(256) for _ in range(40))
        pl[15] = 40 - 16
        valid.append(spec_datagram(0, 5, 6, b'', bytes(pl)))
        for d in valid:
            hdr = 4 + (10 if d[4] == 0 else 26)
            for qk in (False, True):
                recv_case(d, qk, 'valid')
                for k in range(0, len(d)):                       # every truncation
                    recv_case(d[:k], qk, 'truncated')
                for k in (1, 2, 3):                              # 1..3 byte extensions
                    recv_case(d + bytes(rng.randrange(256) for _ in range(k)), qk, 'extended')
                for i in range(hdr):                             # every header byte altered
                    vals = {d[i] ^ 1, d[i] ^ 0x80, rng.randrange(256), 0, 6, 7, (d[i] + 1) % 256, (d[i] - 1) % 256}
                    if q and 5 <= i < hdr - 1:
                        vals = {d[i] ^ 1, d[i] ^ 0x80, rng.randrange(256), 0}     # ids / numbers / code bytes: not looked at
                    if i in (0, 3, 4, hdr - 1) and not q:
                        vals = set(range(256))
                    for b in sorted(vals - {d[i]}):
                        recv_case(d[:i] + bytes([b]) + d[i + 1:], qk, 'altered-byte-%d' % (i if i < 5 else -1))
            for k in list(range(0, min(len(d), 34))) + [len(d)]:
                unpack_cases(d[:k])
            unpack_cases(d + b'\x00')
        # the receive side as exhaustive as the send side: EVERY payload length 0..255 under each type and
        # both quirk settings, through Rmcp._receive_ipmi_msg and IpmiMsg.unpack alone; around the
        # signed-byte / length-byte boundaries also one-off length bytes, truncations and extensions
        for n in range(0, 256):
            for auth in (0, 2, 4):
                d = spec_datagram(auth, rid(), rid(), pw_bytes(rng.choice(okpw)), bytes(rng.randrange(256) for _ in range(n)))
                for qk in (False, True):
                    recv_case(d, qk, 'valid-len-all')
                    code, sdu = attempt(lambda: rmcp.IpmiMsg(ignore_sdu_length=qk).unpack(d[4:]))
                    if not (q and qk and n % 8 not in (0, 7)):       # quick: model comparison of unpack alone with the
                        add('chk_ipmi_unpack %s %s %d %s' % (         # check disabled on a quarter of the lengths (the
                            C.c_bool(qk), C.c_hex(d[4:]), code,       # oracle and chk_recv above see every length)
                            c_sdu(None if sdu is None else bytes(sdu))), ('ipmi_unpack-len', qk, auth, n))
                    res.evaluations += 1
                    if n > 0 and (code != 0 or sdu is None or bytes(sdu) != d[-n:]) and 'IpmiMsg.unpack:valid' not in fails:
                        fails['IpmiMsg.unpack:valid'] = C.Violation(
                            key='IpmiMsg.unpack:valid', what='IpmiMsg(ignore_sdu_length=%s).unpack of a well-formed PDU (type %d, %d '
                            'payload bytes): %s' % (qk, auth, n, 'exception class %d' % code if code else 'wrong payload'),
                            replay={'oracle': 'recv', 'input': {'dgram': d.hex(), 'quirk': qk}})
                # EVERY length also extended by one pad-like byte (00 / ff / random), by two, and cut by one, under the
                # strict setting: a tolerance that depends on the datagram's total length (alignment / "legacy pad"
                # special cases) shows only at particular lengths
                for ext in (b'\x00', b'\xff', b'\x00\x00', bytes([rng.randrange(256)])):
                    recv_case(d + ext, False, 'extended-len-all')
                if n >= 1:
                    recv_case(d[:-1], False, 'truncated-len-all')
                if n in (0, 1, 126, 127, 128, 129, 254, 255):
                    hl = 4 + (10 if auth == 0 else 26)
                    for qk in (False, True):
                        for k in (1, 2):
                            recv_case(d[:len(d) - k] if n >= k else d[:hl], qk, 'boundary-truncated')
                        for k in (1, 2, 3):
                            recv_case(d + bytes(rng.randrange(256) for _ in range(k)), qk, 'boundary-extended')
                        for delta in (1, -1, 128, 127):
                            recv_case(d[:hl - 1] + bytes([(d[hl - 1] + delta) % 256]) + d[hl:], qk, 'boundary-length-byte')
        for _ in range(100 if q else 2000):                      # arbitrary bytes
            d = bytes(rng.randrange(256) for _ in range(rng.choice([0, 1, 3, 4, 5, 13, 14, 15, 30, 31, 40])))
            if len(d) > 3 and rng.random() < 0.8:
                d = bytes([6, d[1], d[2], 7]) + d[4:]
            recv_case(d, rng.random() < 0.5, 'random')

    # ---- ASF
    with stage('ASF'):
        code, pdu = attempt(lambda: rmcp.AsfPing().pack())
        add('chk_ping %d %s' % (code, C.c_hex(pdu or b'')), ('ping',))
        oracle('ping', {}, 'AsfPing:bytes')

        def pong_case(d, kind, expect):
            code, v = impl_recv_pong(d)
            add('chk_recv_pong %s %d %s' % (C.c_hex(d), code, C.c_list([str(x) for x in (v or [])])), (kind, d.hex()))
            code, v = attempt(lambda: _pong_fields(rmcp, d[4:]))
            add('chk_pong %s %d %s' % (C.c_hex(d[4:]), code, C.c_list([str(x) for x in (v or [])])), (kind + '-sdu', d.hex()))
            oracle('pong', {'dgram': d.hex(), 'expect': expect}, 'AsfPong:' + kind)
            D.add(('pong', d), True, 'pong-' + kind)

        pongs = [spec_pong(), spec_pong(tag=0), spec_pong(entities=0x01), spec_pong(oem_iana=343, oem_def=0x01020304),
                 spec_pong(oem_iana=0), spec_pong(entities=0x80)]
        for p in pongs:
            pong_case(p, 'valid', 'accept')
        for p in pongs[:2] + [pongs[3]]:
            for k in range(len(p)):
                pong_case(p[:k], 'truncated', 'reject-structure')
            for k in (1, 2, 3):
                pong_case(p + bytes(k), 'extended', 'reject-structure')
            for i in range(len(p)):
                for b in sorted({p[i] ^ 1, p[i] ^ 0x80, rng.randrange(256), 0, 0x40, 0x80, 16} - {p[i]}):
                    pong_case(p[:i] + bytes([b]) + p[i + 1:], 'altered', 'reject-structure')
        pong_case(spec_pong(oem_iana=4542, oem_def=1), 'asf-oem-defined-nonzero', 'reject-structure')
        pong_case(spec_pong(interactions=0x80), 'interactions-nonzero', 'reject-structure')

    # ---- the quirk through the public path: interface created with / without it, reply with a wrong length byte
    with stage('the quirk through the public path'):
        qp_done = []
        for via in ('ctor', 'create_interface'):
            for quirk in (True, None, False):
                for auth in (0, 4, 2):
                    for delta, zero in ((0, False), (1, False), (-1, False), (5, False), (0, True), (rng.randrange(6, 250), False)):
                        st = None if auth == 0 else {'auth': auth, 'sid': rid(), 'seq': rid(), 'act': True, 'pw': rng.choice(okpw)}
                        inp = {'via': via, 'quirk': quirk, 'auth': auth, 'delta': delta, 'zero': zero, 'st': st,
                               'rsp': bytes([0] + [rng.randrange(256) for _ in range(rng.choice([0, 3, 15]))]).hex(),
                               'raw': bytes([rng.choice([1, 0x22, 0x46])] + [rng.randrange(256) for _ in range(rng.choice([0, 2]))]).hex(),
                               'lun': rng.randrange(4), 'netfn': rng.choice([6, 0x0a, 0x2c])}
                        key = 'Rmcp:%s:reply-length-byte-%s' % ('quirk-enabled' if quirk else 'no-quirk',
                                                                'wrong' if (zero or delta) else 'correct')
                        res.evaluations += 1
                        msg = oracle_quirk_public(inp)
                        if msg and key not in fails:
                            # interfaces created earlier in this process are part of the input unless the case
                            # fails from a clean start
                            if not C.holds_in_fresh_process('C05', {'oracle': 'quirk_public', 'input': inp}):
                                fails[key] = C.Violation(key=key, what=msg, replay={'oracle': 'quirk_public', 'input': inp})
                            else:
                                seq = C.shrink_history('C05', 'quirk_public_seq', qp_done + [inp])
                                fails[key] = C.Violation(
                                    key=key, what=msg + ' [history of %d interface(s)%s]' % (
                                        len(seq or qp_done) , '' if seq else ', not reproduced from a clean start'),
                                    replay={'oracle': 'quirk_public_seq', 'input': {'calls': seq or qp_done + [inp]}},
                                    found_input=bool(seq))
                        qp_done.append(inp)
                        D.add(('qp', repr(inp)), True, 'quirk-public-path')

    # ---- end to end: Rmcp.send_and_receive(req) for registered request classes with in-range values
    with stage('end to end'):
        from . import codec_util as U
        import pyipmi
        names = [n for n in U.registry_names() if n.endswith('Req') and isinstance(U.fields_of(U.cls_of(n)), (tuple, list))]
        picked = ['SetWatchdogTimerReq', 'ActivateSessionReq', 'GetDeviceIdReq'] + \
            [rng.choice(names) for _ in range(50 if q else 400)]
        for name in picked:
            cls = U.cls_of(name)
            try:
                env = U.gen_in_range(cls, rng, 'random', None) if U.fields_of(cls) else []
            except Exception:  # noqa  (classes the generator cannot fill are C01's business)
                continue
            st = rng.choice([None, None] + [{'auth': a, 'sid': rid(), 'seq': rid(), 'act': rng.random() < 0.7,
                                             'pw': rng.choice(okpw)} for a in (0, 2, 4)])
            sess = mk_session(st)
            rs_sa, sl, nseq, lun = rng.randrange(2, 256, 2), rng.randrange(0, 256), rng.randrange(64), rng.randrange(4)
            sock = FakeSock()
            itf = P.new_interface(sock, slave_address=sl)
            P.attach_session(itf, sock, sess)
            itf.next_sequence_number = nseq
            req = cls()
            U.set_env(req, env)
            req.target = pyipmi.Target(rs_sa)
            req.lun = lun
            with md5_recorded() as rec:
                code, _ = attempt(lambda: itf.send_and_receive(req))
            sent = sock.sent
            if sent:
                code = 0        # the datagram went out; the RetryError is the missing reply
            h = [rs_sa, lun, sl, 0, (nseq + 1) % 64, req.netfn, req.cmdid]
            add('chk_e2e %s %s %s %s %s 255 %d %d %d %s' % (
                c_tab(rec.calls), C.c_str(name), U.c_env(env), C.c_list([str(x) for x in h]), c_sess(st),
                sess.sequence_number if sess is not None else 0, getattr(itf, 'seq_number', 255), code, C.c_hex(sent[0] if sent else b'')),
                ('e2e', name, st))
            D.add(('e2e', name, repr(env), repr(st), tuple(h)), True, 'end-to-end')

    # ---- histories in one process (the model is stateless per call / object: any dependence of
    with stage('histories in one process'):
        # the implementation on what happened before shows up as a difference at some step)
        def history(oname, calls, key, steps_terms):
            steps_terms(calls)
            res.evaluations += 1
            msg = ORACLES[oname]({'calls': calls})
            if msg and key not in fails:
                seq = C.shrink_history('C05', oname, calls)
                fails[key] = C.Violation(
                    key=key, what=((ORACLES[oname]({'calls': seq}) if seq else None) or msg) +
                    ' [history of %d call(s)%s]' % (len(seq or calls), '' if seq else ', not reproduced from a clean start'),
                    replay={'oracle': oname, 'input': {'calls': seq or calls}}, found_input=bool(seq))

        def quirk_terms(calls):
            for n, c, kind, qk, code, data in quirk_seq_steps(calls):
                d = bytes.fromhex(c[2])
                if kind == 'rmcp-public':
                    continue        # judged by the oracle only (the reply is rebuilt around a matching frame)
                if kind == 'rmcp':
                    add('chk_recv %s %s %d %s' % (C.c_bool(qk), C.c_hex(d), code, C.c_hex(data or b'')), ('history-recv', c[1], qk, c[2]))
                else:
                    add('chk_ipmi_unpack %s %s %d %s' % (C.c_bool(qk), C.c_hex(d[4:]), code, c_sdu(data if data else None)),
                        ('history-unpack', c[1], qk, c[2]))
                D.add(('hq', n, tuple(c), qk), True, 'history-quirk')

        def wrong_len(d, delta):
            hl = 4 + (10 if d[4] == 0 else 26)
            return d[:hl - 1] + bytes([(d[hl - 1] + delta) % 256]) + d[hl:]

        vsmall = [v for v in valid if 1 <= len(v) - (14 if v[4] == 0 else 30) <= 40]
        for h in range(6 if q else 40):
            settings = [True, None, False, None, True, False]
            rng.shuffle(settings)
            if h == 0:
                settings = [True, None, None, False, None, True]      # quirk first, then default objects
            elif h == 1:
                settings = [None, True, None, False, True, None]
            calls, made = [], []
            for i, st_ in enumerate(settings):
                kind = 'rmcp' if (h + i) % 3 != 2 else 'msg'
                calls.append([kind, 'o%d' % i, st_])
                made.append('o%d' % i)
                for _ in range(rng.choice([2, 3, 4])):
                    d = rng.choice(vsmall)
                    d = rng.choice([d, wrong_len(d, 1), wrong_len(d, -2), wrong_len(d, -1), d + b'\x00', d[:-1], wrong_len(d, 3)])
                    calls.append(['recv', rng.choice(made), d.hex()])
            history('quirk_seq', calls, 'history:length-check-setting-depends-on-other-objects', quirk_terms)

        def pack_terms(calls):
            for n, c, st, code, dg, seq2, md5calls in pack_seq_steps(calls):
                add('chk_send %s %s 255 %s %d 255 %d %s' % (c_tab(md5calls), c_sess(st), C.c_hex(bytes.fromhex(c[2])), seq2, code,
                                                           C.c_hex(dg or b'')), ('history-send', st, c[2]))
                D.add(('hp', n, repr(st), c[2]), True, 'history-pack')

        for h in range(8 if q else 60):
            calls = [['new', 'a'], ['new', 'b']]
            cur = {}
            for sid_ in ('a', 'b'):
                calls.append(['user', sid_, 'admin', rng.choice(okpw)])
                cur[sid_] = 4
            for step in range(rng.choice([8, 12, 16])):
                sid_ = rng.choice(['a', 'a', 'b'])
                k = rng.random()
                if k < 0.25:
                    calls.append(['user', sid_, rng.choice(['admin', 'root', None]), rng.choice(okpw)])
                    cur[sid_] = 4
                    if rng.random() < 0.7:
                        calls.append(['attr', sid_, 'auth_type', 2])
                        cur[sid_] = 2
                elif k < 0.40:
                    a = rng.choice([0, 2, 4, 2])
                    calls.append(['attr', sid_, 'auth_type', a])
                    cur[sid_] = a
                elif k < 0.50:
                    calls.append(['attr', sid_, 'sid', rid()])
                elif k < 0.58:
                    calls.append(['attr', sid_, 'sequence_number', rid()])
                elif k < 0.65:
                    calls.append(['attr', sid_, 'activated', rng.random() < 0.7])
                calls.append(['send', sid_, bytes(rng.randrange(256) for _ in range(rng.choice([1, 7, 20]))).hex()])
            history('pack_seq', calls, 'history:datagram-depends-on-earlier-session-state', pack_terms)

    # case files cost time in proportion to their size (long byte-string literals): spread the long
    # terms evenly over the shards with a fixed permutation, map the failing indices back
    import random as _random
    perm = list(range(len(terms)))
    _random.Random(0).shuffle(perm)
    failing, errors = C.coq_cases('C05', 'Model.Codec Model.Rmcp Corr.C05', [terms[i] for i in perm], shard=300)
    failing = sorted(perm[i] for i in failing)
    res.mismatches = [{'case': meta[i], 'term': terms[i][:1500]} for i in failing[:50]]
    res.corr_errors = errors
    res.evaluations += len(terms)
    res.distinct_nontrivial = D.distinct
    res.histogram = D.hist
    res.rule = ('sent: every payload length 0..255 x {none, MD5, password}, boundary-biased 32-bit ids x sequence numbers, '
                'activated / not, passwords None / str / bytes of 0..16 (and 17, 20) bytes, unsupported types, no session, '
                'None and over-long payloads, every RMCP sequence number; received: every payload length 0..255 x 3 types x both quirk '
                'settings (valid; around 0/1/126..129/254/255 also truncated, extended, length byte off); per sampled datagram every truncation, '
                '1..3-byte extension, every header byte altered, both quirk settings, random bytes; ASF ping, pongs valid / '
                'truncated / extended / every byte altered; interfaces created with / without the length-check quirk (constructor and '
                'create_interface) answering send_and_receive_raw with replies whose length byte is correct / +1 / -1 / +5 / 0 / random; end to end: Rmcp.send_and_receive(req) for ~50 random registered '
                'request classes with in-range values, random addresses / LUN / rq_seq, with and without session; histories in one process: Rmcp / IpmiMsg objects with different '
                'length-check settings created in varied order, each then receiving valid / wrong-length datagrams; sequences of '
                'datagrams on the same Session objects with password / type / id / number / activated changed in between. distinct = distinct canonical inputs, all non-trivial')
    res.samples = [{'term': terms[i][:400], 'case': meta[i]} for i in (0, len(terms) // 3, len(terms) // 2, len(terms) - 1)]
    res.oracle_failures = list(fails.values())
    res.extra['stage_errors'] = stage_errors
    res.extra['library_access'] = dict(P.notes)
    return res


def _pong_fields(rmcp, sdu):
    m = rmcp.AsfPong()
    m.unpack(sdu)
    return [m.oem_iana_enterprise_number, m.oem_defined, m.supported_entities, m.supported_interactions]
