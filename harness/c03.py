"""C03 - IPMB checksums, frame assembly, reply filter.

Correspondence: Model/Ipmb.v evaluated in Coq (Corr/C03.v checkers) against
pyipmi.interfaces.ipmb on the same inputs.  Oracle: the property stated directly on
the implementation (independent of the model) - used to find the replay input.
"""
from . import common as C

MODEL_MAP = [
    {'python': 'pyipmi/interfaces/ipmb.py:checksum', 'coq': 'Model.Ipmb.checksum'},
    {'python': 'pyipmi/interfaces/ipmb.py:IpmbHeaderReq.encode/decode', 'coq': 'Model.Ipmb.hdr_req_encode/hdr_req_decode'},
    {'python': 'pyipmi/interfaces/ipmb.py:IpmbHeaderRsp.encode/decode', 'coq': 'Model.Ipmb.hdr_rsp_encode/hdr_rsp_decode'},
    {'python': 'pyipmi/interfaces/ipmb.py:encode_ipmb_msg', 'coq': 'Model.Ipmb.encode_ipmb_msg'},
    {'python': 'pyipmi/interfaces/ipmb.py:rx_filter', 'coq': 'Model.Ipmb.rx_filter'},
    {'python': '(specification side, no library code) harness/c03.py:build_reply and IpmbHeaderRsp.encode + body + checksum',
     'coq': 'Model.Ipmb.rsp_frame'},
]
FIELDS = ['rs_sa', 'rs_lun', 'rq_sa', 'rq_lun', 'rq_seq', 'netfn', 'cmdid']
OPTS = ['rq_sa', 'rs_sa', 'rq_lun', 'rs_lun', 'rq_seq']


def _ipmb():
    import pyipmi.interfaces.ipmb as ipmb
    return ipmb


def mk_req(h):
    ipmb = _ipmb()
    o = ipmb.IpmbHeaderReq()
    for k, v in zip(FIELDS, h):
        setattr(o, k, v)
    return o


def mk_rsp(h):
    ipmb = _ipmb()
    o = ipmb.IpmbHeaderRsp()
    for k, v in zip(FIELDS, h):
        setattr(o, k, v)
    return o


def attempt(f):
    try:
        return f()
    except Exception as e:  # noqa
        return e


def exp_bytes(r):
    return C.c_opt(None if isinstance(r, Exception) else C.c_hex(r))


def hl(h):
    return C.c_list([C.c_N(x) for x in h])


def rand_hdr(rng):
    return [rng.randrange(256), rng.randrange(4), rng.randrange(256), rng.randrange(4),
            rng.randrange(64), rng.randrange(64), rng.randrange(256)]


# independent construction of the reply a responder would send to request header h
def build_reply(h, data):
    rs_sa, rs_lun, rq_sa, rq_lun, seq, netfn, cmd = h
    f = [rq_sa, ((netfn | 1) << 2) | rq_lun]
    f.append((-sum(f)) % 256)
    rest = [rs_sa, (seq << 2) | rs_lun, cmd] + list(data)
    rest.append((-sum(rest)) % 256)
    return bytes(f + rest)


def fix_checksums(f):
    f = list(f)
    f[2] = (-(f[0] + f[1])) % 256
    f[-1] = (-sum(f[3:-1])) % 256
    return bytes(f)


# ---- oracles (the property on the implementation) ----
def oracle_frame(inp):
    """frame from encode_ipmb_msg carries valid checksums and exactly the fields"""
    ipmb = _ipmb()
    h, d = inp['h'], bytes.fromhex(inp['d'])
    try:
        f = ipmb.encode_ipmb_msg(mk_req(h), d)
    except Exception as e:  # noqa
        return 'in-range header %s raises %s: %s' % (h, type(e).__name__, e)
    rs_sa, rs_lun, rq_sa, rq_lun, seq, netfn, cmd = h
    bad = []
    if sum(f[0:3]) % 256 != 0:
        bad.append('header checksum')
    if sum(f[3:]) % 256 != 0:
        bad.append('payload checksum')
    if len(f) != 7 + len(d):
        bad.append('length')
    else:
        if (f[0], f[1] >> 2, f[1] & 3, f[3], f[4] >> 2, f[4] & 3, f[5]) != (rs_sa, netfn, rs_lun, rq_sa, seq, rq_lun, cmd):
            bad.append('header fields')
        if bytes(f[6:-1]) != d:
            bad.append('payload')
    return ('frame %s wrong: %s' % (bytes(f).hex(), ', '.join(bad))) if bad else None


def oracle_filter(inp):
    """expect: accept / reject, stated by how the frame was built"""
    ipmb = _ipmb()
    h, f, o = inp['h'], bytes.fromhex(inp['f']), inp['o']
    kw = dict(zip(OPTS, o))
    try:
        got = ipmb.rx_filter(mk_req(h), f, **kw)
    except Exception as e:  # noqa
        got = 'exception'
    if inp['expect'] == 'accept':
        return None if got is True else 'intact matching reply not accepted (got %r)' % (got,)
    return None if got is not True else 'frame accepted although %s' % inp['why']


def _reused_req(hA, hB, how):
    """a request header object that was used before for hA and is now set to hB"""
    ipmb = _ipmb()
    if how == 'encoded-before':
        o = mk_req(hA)
        o.encode()
    else:  # built from received data, then edited
        o = ipmb.IpmbHeaderReq(data=bytes(mk_req(hA).encode()))
    for k, v in zip(FIELDS, hB):
        setattr(o, k, v)
    return o


def oracle_frame_reuse(inp):
    """same as 'frame', but the header object has a history (encoded before / decoded from data)"""
    ipmb = _ipmb()
    hA, hB, d = inp['hA'], inp['h'], bytes.fromhex(inp['d'])
    try:
        f = ipmb.encode_ipmb_msg(_reused_req(hA, hB, inp['how']), d)
    except Exception as e:  # noqa
        return 'reused header %s raises %s: %s' % (hB, type(e).__name__, e)
    exp = bytes([hB[0], (hB[5] << 2) | hB[1]])
    exp += bytes([(-sum(exp)) % 256])
    rest = bytes([hB[2], (hB[4] << 2) | hB[3], hB[6]]) + d
    exp += rest + bytes([(-sum(rest)) % 256])
    if bytes(f) != exp:
        return 'header object %s (%s for %s before) gives frame %s, expected %s' % (hB, inp['how'], hA, bytes(f).hex(), exp.hex())
    return None


def oracle_filter_seq(inp):
    """a sequence of rx_filter calls in one process, each passing only some options explicitly:
    every call must behave as if it were the only one (defaults rq_sa/rs_sa/rq_lun off, rs_lun/rq_seq on)"""
    ipmb = _ipmb()
    for n, c in enumerate(inp['calls']):
        try:
            got = ipmb.rx_filter(mk_req(c['h']), bytes.fromhex(c['f']), **c['kw'])
        except Exception as e:  # noqa
            got = 'exception %s' % type(e).__name__
        if (got is True) != (c['expect'] == 'accept'):
            return 'call %d of the sequence: rx_filter(%s) returned %r, expected %s (%s)' % (n, c['kw'], got, c['expect'], c['why'])
    return None


def oracle_filter_keeps_header(inp):
    """rx_filter only reads the request header: afterwards the object has the same fields and
    encodes to the same bytes as before (transports re-encode the same header on every retry)"""
    ipmb = _ipmb()
    h, f = inp['h'], bytes.fromhex(inp['f'])
    o = mk_req(h)
    before = bytes(o.encode())
    try:
        ipmb.rx_filter(o, f, **inp.get('kw', {}))
    except Exception:  # noqa
        pass
    got = [getattr(o, k) for k in FIELDS]
    try:
        after = bytes(o.encode())
    except Exception as e:  # noqa
        after = 'raises %s' % type(e).__name__
    if got != list(h) or after != before:
        return 'after rx_filter the request header is %s (was %s) and encodes to %s (was %s)' % (
            got, list(h), after if isinstance(after, str) else after.hex(), before.hex())
    return None


ORACLES = {'frame': oracle_frame, 'filter': oracle_filter, 'frame_reuse': oracle_frame_reuse,
           'filter_keeps_header': oracle_filter_keeps_header,
           'filter_seq': oracle_filter_seq}


def replay(data):
    r = data['replay']
    return ORACLES[r['oracle']](r['input']) is None


def run(ctx):
    ipmb = _ipmb()
    rng = ctx.rng
    res = C.Result(model_map=MODEL_MAP)
    D = C.Distinct()
    terms, meta = [], []
    fails = {}

    def add(term, info):
        terms.append(term)
        meta.append(info)

    def oracle(name, inp, key):
        msg = ORACLES[name](inp)
        if msg and key not in fails:
            fails[key] = C.Violation(key=key, what=msg, replay={'oracle': name, 'input': inp})

    q = ctx.quick
    # --- checksum
    for n in list(range(0, 20)) + [rng.randrange(20, 300) for _ in range(20 if q else 200)]:
        d = bytes(rng.randrange(256) for _ in range(n))
        add('chk_checksum %s %d' % (C.c_hex(d), ipmb.checksum(d)), ('checksum', d.hex()))
        D.add(('cs', d), n > 0, 'checksum')
    # --- headers: all netfn x rs_lun and all seq x rq_lun with the other fields random; random; malformed
    hs = []
    for nf in range(64):
        for lun in range(4):
            h = rand_hdr(rng); h[5], h[1] = nf, lun; hs.append(h)
            h = rand_hdr(rng); h[4], h[3] = nf, lun; hs.append(h)
    hs += [rand_hdr(rng) for _ in range(200 if q else 3000)]
    hs += [[0, 0, 0, 0, 0, 0, 0], [255, 3, 255, 3, 63, 63, 255]]
    malformed = []
    for _ in range(60 if q else 600):
        h = rand_hdr(rng)
        i = rng.randrange(7)
        h[i] = rng.choice([4, 5, 7, 64, 65, 127, 128, 255, 256, 300, 1024])
        malformed.append(h)
    for h in hs + malformed:
        r = attempt(lambda: mk_req(h).encode())
        add('chk_req_enc %s %s' % (hl(h), exp_bytes(r)), ('req_enc', h))
        r = attempt(lambda: mk_rsp(h).encode())
        add('chk_rsp_enc %s %s' % (hl(h), exp_bytes(r)), ('rsp_enc', h))
        D.add(('hdr', tuple(h)), True, 'header' if h in hs else 'header-malformed')
    # --- header decode on arbitrary bytes (incl. short)
    for n in list(range(0, 9)) * 3 + [rng.randrange(6, 40) for _ in range(60 if q else 600)]:
        d = bytes(rng.randrange(256) for _ in range(n))

        def dec(cls):
            o = cls()
            o.decode(d)
            return [getattr(o, k) for k in FIELDS] + [o.checksum]
        r = attempt(lambda: dec(ipmb.IpmbHeaderReq))
        add('chk_req_dec %s %s' % (C.c_hex(d), C.c_opt(None if isinstance(r, Exception) else hl(r))), ('req_dec', d.hex()))
        r = attempt(lambda: dec(ipmb.IpmbHeaderRsp))
        add('chk_rsp_dec %s %s' % (C.c_hex(d), C.c_opt(None if isinstance(r, Exception) else hl(r))), ('rsp_dec', d.hex()))
        D.add(('dec', d), n >= 6, 'hdr-decode')
    # --- encode_ipmb_msg: payload lengths 0..64
    lens = list(range(0, 65)) if not q else list(range(0, 65, 1))
    for n in lens:
        for rep in range(1 if q else 6):
            h = rand_hdr(rng)
            d = bytes(rng.randrange(256) for _ in range(n))
            r = attempt(lambda: ipmb.encode_ipmb_msg(mk_req(h), d))
            add('chk_encode %s %s %s' % (hl(h), C.c_hex(d), exp_bytes(r)), ('encode', h, d.hex()))
            oracle('frame', {'h': h, 'd': d.hex()}, 'encode_ipmb_msg:frame-wrong')
            D.add(('enc', tuple(h), d), True, 'encode')
    for h in hs:
        oracle('frame', {'h': h, 'd': '0102'}, 'encode_ipmb_msg:frame-wrong')
        res.evaluations += 1
    # header objects with a history: encoded before with other field values, or decoded from data and edited
    for _ in range(120 if q else 1500):
        hA, hB = rand_hdr(rng), rand_hdr(rng)
        how = rng.choice(['encoded-before', 'decoded-then-edited'])
        d = bytes(rng.randrange(256) for _ in range(rng.randrange(0, 6)))
        r = attempt(lambda: ipmb.encode_ipmb_msg(_reused_req(hA, hB, how), d))
        add('chk_encode %s %s %s' % (hl(hB), C.c_hex(d), exp_bytes(r)), ('encode-reused-header', how, hA, hB, d.hex()))
        r = attempt(lambda: _reused_req(hA, hB, how).encode())
        add('chk_req_enc %s %s' % (hl(hB), exp_bytes(r)), ('req_enc-reused-header', how, hA, hB))
        oracle('frame_reuse', {'hA': hA, 'h': hB, 'd': d.hex(), 'how': how}, 'encode_ipmb_msg:reused-header-object')
        D.add(('reuse', tuple(hA), tuple(hB), how), True, 'encode-reused-header')
    for h in malformed[:30]:
        r = attempt(lambda: ipmb.encode_ipmb_msg(mk_req(h), b'\x01\x02'))
        add('chk_encode %s %s %s' % (hl(h), C.c_hex(b'\x01\x02'), exp_bytes(r)), ('encode-malformed', h))
    # --- rx_filter
    nframes = 40 if q else 400
    all_opts = [[bool(m >> i & 1) for i in range(5)] for m in range(32)]
    dflt = [False, False, False, True, True]
    for k in range(nframes):
        h = rand_hdr(rng)
        h[5] &= 0x3e  # registered requests have an even netfn
        data = bytes(rng.randrange(256) for _ in range(rng.choice([0, 1, 2, 5, 17, 40])))
        f = build_reply(h, data)
        # the frame the theorems C03_conforming_reply_accepted / C03_other_request_rejected speak
        # about (Model.Ipmb.rsp_frame) is this frame, and also what IpmbHeaderRsp.encode yields
        add('chk_rsp_frame %s %s %s' % (hl(h), C.c_hex(data), exp_bytes(f)), ('rsp_frame', h, data.hex()))
        rh = attempt(lambda: mk_rsp(h[:5] + [h[5] | 1] + h[6:]).encode())
        if not isinstance(rh, Exception):
            rest = bytes(rh[3:]) + data
            add('chk_rsp_frame %s %s %s' % (hl(h), C.c_hex(data),
                                             exp_bytes(bytes(rh) + data + bytes([ipmb.checksum(rest)]))),
                ('rsp_frame-via-IpmbHeaderRsp', h, data.hex()))

        def filt(fr, o):
            r = attempt(lambda: ipmb.rx_filter(mk_req(h), fr, **dict(zip(OPTS, o))))
            return 2 if isinstance(r, Exception) else int(bool(r))
        # the filter must not modify the request header it is given (match, corrupted and short frame)
        for fr in (f, f[:3] + bytes([f[3] ^ 0x55]) + f[4:], f[:4]):
            oracle('filter_keeps_header', {'h': h, 'f': fr.hex()}, 'rx_filter:modifies-request-header')
            ho = mk_req(h)
            attempt(lambda: ipmb.rx_filter(ho, fr))
            r = attempt(lambda: ho.encode())
            add('chk_req_enc %s %s' % (hl(h), exp_bytes(r)), ('req_enc-after-rx_filter', h, fr.hex()))
        for o in (all_opts if k < 4 else [dflt, rng.choice(all_opts)]):
            add('chk_filter %s %s %s %d' % (hl(h), C.c_hex(f), C.c_list([C.c_bool(x) for x in o]), filt(f, o)),
                ('filter-match', h, f.hex(), o))
            oracle('filter', {'h': h, 'f': f.hex(), 'o': o, 'expect': 'accept'}, 'rx_filter:rejects-intact-match')
        D.add(('flt', tuple(h), f), True, 'filter-match')
        # all 255 x len single-byte corruptions: oracle on the implementation
        for i in range(len(f)):
            for b in range(256):
                if b == f[i]:
                    continue
                g = f[:i] + bytes([b]) + f[i + 1:]
                res.evaluations += 1
                oracle('filter', {'h': h, 'f': g.hex(), 'o': dflt, 'expect': 'reject',
                                  'why': 'byte %d corrupted (%02x -> %02x)' % (i, f[i], b)},
                       'rx_filter:accepts-corrupted-byte')
            # correspondence on 3 corruptions per position
            for b in {f[i] ^ 1, f[i] ^ 0x80, rng.randrange(256)} - {f[i]}:
                g = f[:i] + bytes([b]) + f[i + 1:]
                add('chk_filter %s %s %s %d' % (hl(h), C.c_hex(g), C.c_list([C.c_bool(x) for x in dflt]), filt(g, dflt)),
                    ('filter-corrupt', h, g.hex(), i))
                D.add(('cor', g), True, 'filter-corrupted')
        # single-field mismatch with valid checksums; each option subset
        raw = list(f)
        mism = {
            'netfn': lambda x: x.__setitem__(1, (((x[1] >> 2) ^ rng.choice([1, 2, 4, 32])) << 2) | (x[1] & 3)),
            'cmdid': lambda x: x.__setitem__(5, x[5] ^ rng.randrange(1, 256)),
            'rq_sa': lambda x: x.__setitem__(0, x[0] ^ rng.randrange(1, 256)),
            'rs_sa': lambda x: x.__setitem__(3, x[3] ^ rng.randrange(1, 256)),
            'rq_lun': lambda x: x.__setitem__(1, x[1] ^ rng.randrange(1, 4)),
            'rs_lun': lambda x: x.__setitem__(4, x[4] ^ rng.randrange(1, 4)),
            'rq_seq': lambda x: x.__setitem__(4, x[4] ^ (rng.randrange(1, 64) << 2)),
        }
        for fld, mut in mism.items():
            g = list(raw)
            mut(g)
            g = fix_checksums(g)
            for o in (all_opts if k < 6 else [dflt, rng.choice(all_opts)]):
                add('chk_filter %s %s %s %d' % (hl(h), C.c_hex(g), C.c_list([C.c_bool(x) for x in o]), filt(g, o)),
                    ('filter-mismatch', fld, h, g.hex(), o))
                enabled = fld in ('netfn', 'cmdid') or o[OPTS.index(fld)]
                oracle('filter', {'h': h, 'f': g.hex(), 'o': o, 'expect': 'reject' if enabled else 'accept',
                                  'why': '%s differs and its check is enabled' % fld},
                       'rx_filter:field-%s-%s' % (fld, 'accepted' if enabled else 'rejected-though-disabled'))
            D.add(('mis', fld, bytes(g)), True, 'filter-mismatch-' + fld)
        # two corrupted bytes whose deltas cancel modulo 256 (one under each checksum, and two
        # under the same one): "both checksums verify" must be checked separately
        pairs = [(i, j) for i in range(3) for j in range(3, len(f))] + \
                [(i, j) for i in range(3, len(f)) for j in range(i + 1, len(f))] + [(0, 1), (0, 2), (1, 2)]
        for (i, j) in (pairs if k < 10 else rng.sample(pairs, min(len(pairs), 12))):
            dlt = rng.randrange(1, 256)
            g = list(f)
            g[i] = (g[i] + dlt) % 256
            g[j] = (g[j] - dlt) % 256
            g = bytes(g)
            same_region = (i < 3) == (j < 3)
            add('chk_filter %s %s %s %d' % (hl(h), C.c_hex(g), C.c_list([C.c_bool(x) for x in dflt]), filt(g, dflt)),
                ('filter-double-corruption', h, g.hex(), i, j))
            D.add(('dbl', g), True, 'filter-double-corruption')
            if not same_region:
                # each checksum is wrong on its own: must be rejected whatever the bytes are
                oracle('filter', {'h': h, 'f': g.hex(), 'o': dflt, 'expect': 'reject',
                                  'why': 'bytes %d and %d corrupted by +%d/-%d: neither checksum verifies' % (i, j, dlt, dlt)},
                       'rx_filter:accepts-frame-with-both-checksums-wrong')
        # short frames
        for n in range(0, 6):
            g = f[:n]
            add('chk_filter %s %s %s %d' % (hl(h), C.c_hex(g), C.c_list([C.c_bool(x) for x in dflt]), filt(g, dflt)),
                ('filter-short', n))
            oracle('filter', {'h': h, 'f': g.hex(), 'o': dflt, 'expect': 'reject', 'why': 'frame has only %d bytes' % n},
                   'rx_filter:accepts-short')
    # --- sequences of rx_filter calls in ONE process, options passed only partially (the rest left
    #     to the defaults), in random order: no call may influence a later one
    DEF = dict(zip(OPTS, dflt))
    for rep in range(6 if q else 60):
        calls = []
        for _ in range(40):
            h = rand_hdr(rng)
            h[5] &= 0x3e
            f = list(build_reply(h, bytes(rng.randrange(256) for _ in range(rng.randrange(0, 4)))))
            kw = {k: rng.random() < 0.5 for k in rng.sample(OPTS, rng.randrange(0, 4))}
            eff = dict(DEF, **kw)
            kind = rng.choice(['match', 'rq_seq', 'rs_lun', 'rq_lun', 'rq_sa', 'rs_sa'])
            if kind == 'rq_seq':
                f[4] ^= (rng.randrange(1, 64) << 2)
            elif kind == 'rs_lun':
                f[4] ^= rng.randrange(1, 4)
            elif kind == 'rq_lun':
                f[1] ^= rng.randrange(1, 4)
            elif kind == 'rq_sa':
                f[0] ^= rng.randrange(1, 256)
            elif kind == 'rs_sa':
                f[3] ^= rng.randrange(1, 256)
            f = fix_checksums(f)
            reject = kind != 'match' and eff[kind]
            calls.append({'h': h, 'f': f.hex(), 'kw': kw, 'expect': 'reject' if reject else 'accept',
                          'why': '%s differs, its check is %s (explicit %s, defaults otherwise)' % (kind, 'on' if kind != 'match' and eff[kind] else 'off', kw)
                          if kind != 'match' else 'intact matching reply'})
        # correspondence: observed result of every call of the sequence vs the (stateless) model
        for c in calls:
            r = attempt(lambda: ipmb.rx_filter(mk_req(c['h']), bytes.fromhex(c['f']), **c['kw']))
            obs = 2 if isinstance(r, Exception) else int(bool(r))
            eff = dict(DEF, **c['kw'])
            add('chk_filter %s %s %s %d' % (hl(c['h']), C.c_hex(bytes.fromhex(c['f'])),
                                            C.c_list([C.c_bool(eff[k]) for k in OPTS]), obs), ('filter-sequence', c['kw']))
            D.add(('seq', c['f'], tuple(sorted(c['kw'].items()))), True, 'filter-sequence')
        # oracle on the whole history; shrink to the shortest failing prefix + drop irrelevant calls
        msg = ORACLES['filter_seq']({'calls': calls})
        if msg and 'rx_filter:call-depends-on-earlier-calls' not in fails:
            seq = C.shrink_history('C03', 'filter_seq', calls) or calls
            fails['rx_filter:call-depends-on-earlier-calls'] = C.Violation(
                key='rx_filter:call-depends-on-earlier-calls',
                what=(ORACLES['filter_seq']({'calls': seq}) or msg) + ' [history of %d call(s)]' % len(seq),
                replay={'oracle': 'filter_seq', 'input': {'calls': seq}})
    failing, errors = C.coq_cases('C03', 'Corr.C03', terms)
    res.mismatches = [{'case': meta[i], 'term': terms[i]} for i in failing[:50]]
    res.corr_errors = errors
    res.evaluations += len(terms)
    res.distinct_nontrivial = D.distinct
    res.histogram = D.hist
    res.rule = ('headers: every netfn x rs_lun and seq x rq_lun combination + random + out-of-range; payloads 0..64; '
                'reply filter: per valid reply every 255*len single-byte corruption (oracle) and 3 per position '
                '(correspondence), each single-field mismatch with fixed-up checksums under option subsets, short frames. '
                'distinct = distinct canonical inputs; non-trivial = non-empty input')
    res.samples = [{'term': terms[i], 'case': meta[i]} for i in (0, len(terms) // 3, len(terms) // 2, len(terms) - 1)]
    res.oracle_failures = list(fails.values())
    # when the correspondence broke and no oracle failed, try the mismatching cases themselves
    return res
