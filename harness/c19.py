"""C19 - ipmitool back-end: requests/credentials verbatim, replies read faithfully.

(a) Model/Shell.v is validated against the real /bin/sh: a stub `ipmitool` (first and only
    entry of PATH) dumps the argv it receives; every command line is started exactly as the
    library does (Popen(cmd, shell=True, stdout=PIPE)).
(b) Model/IpmitoolIf.v (builders, parser, result mapping) is evaluated inside Coq on the same
    configurations / outputs as pyipmi.interfaces.ipmitool.
(c) Oracle, independent of the model: the library's real send_and_receive_raw / rmcp_ping /
    _run_ipmitool with the stub on PATH; the stub must see exactly the argv the configuration
    prescribes and the canned reply must come back unchanged (or as the specific error).
"""
import concurrent.futures as cf
import os

from . import common as C
from . import c19_util as U

MODEL_MAP = [
    {'python': 'subprocess.Popen(cmd, shell=True) -> /bin/sh -c cmd (external program)', 'coq': 'Model.Shell.sh_lex'},
    {'python': 'pyipmi/interfaces/ipmitool.py:Ipmitool._quote (after fix F19)', 'coq': 'Model.Shell.dq_escape'},
    {'python': 'pyipmi/interfaces/ipmitool.py:Ipmitool._build_ipmitool_cmd', 'coq': 'Model.IpmitoolIf.build_lan_cmd'},
    {'python': 'pyipmi/interfaces/ipmitool.py:Ipmitool._build_serial_ipmitool_cmd', 'coq': 'Model.IpmitoolIf.build_serial_cmd'},
    {'python': 'pyipmi/interfaces/ipmitool.py:Ipmitool._build_open_ipmitool_cmd', 'coq': 'Model.IpmitoolIf.build_open_cmd'},
    {'python': 'pyipmi/interfaces/ipmitool.py:Ipmitool._build_ipmitool_target', 'coq': 'Model.IpmitoolIf.build_target'},
    {'python': 'pyipmi/interfaces/ipmitool.py:Ipmitool._build_ipmitool_raw_data', 'coq': 'Model.IpmitoolIf.build_raw'},
    {'python': 'pyipmi/interfaces/ipmitool.py:Ipmitool._build_ipmitool_priv_level', 'coq': 'Model.IpmitoolIf.priv_name'},
    {'python': 'pyipmi/interfaces/ipmitool.py:Ipmitool.rmcp_ping', 'coq': 'Model.IpmitoolIf.build_ping_cmd/ping_result'},
    {'python': 'pyipmi/interfaces/ipmitool.py:Ipmitool._parse_output', 'coq': 'Model.IpmitoolIf.parse_output'},
    {'python': 'pyipmi/interfaces/ipmitool.py:Ipmitool.send_and_receive_raw/_run_ipmitool', 'coq': 'Model.IpmitoolIf.build_cmd/receive'},
    {'python': 'pyipmi/session.py:Session (rmcp_host, rmcp_port, priv_level, auth_type, auth_username, '
               'auth_password, serial_port, serial_baudrate)', 'coq': 'Model.IpmitoolIf.config'},
]
TRUSTED = [
    '/bin/sh (dash) as the oracle for Model/Shell.v; the stub executable .build/c19/bin/ipmitool '
    '(harness/c19_util.py) that records argv',
    'Model/IpmitoolSpec.v: my reading of ipmitool(1) options and of its raw-reply / error output format',
]

LEVELS = {2: b'USER', 3: b'OPERATOR', 4: b'ADMINISTRATOR'}
TYPES = ['lan', 'lanplus', 'serial-terminal', 'open']
DQ_SPECIAL = b'\\"$`'
# punctuation with a meaning somewhere in the shell grammar, plus a letter, a digit, blank, tab, newline
SPECIALS = b' \t\n!"#$%&\'()*;<=>?[\\]^`{|}~-a1'
LONG_ALPHABET = [bytes([c]) for c in b' \t\n!"#$%&\'()*;<=>?[\\]^`{|}~-'] * 2 + \
    [b'a', b'x', b'1', b'a', b'x', b'1', b'\xc3\xa9', b'\xe2\x82\xac', b'\xff', b'\x81', b'\x01', b'\x7f']
CC_TEXT = ['Node busy', 'Invalid command', 'Timeout', 'Out of space', 'Request data truncated',
           'Parameter out of range', 'Destination unavailable', 'Insufficient privilege level',
           'Unspecified error', 'Unknown (0x81)', 'Ignore Me', '']


def fsd(b):
    return os.fsdecode(b)


class SkipCase(Exception):
    """the case needs a private attribute of the library that does not exist (any more)"""


class popen_patch:
    """Substitute process creation from outside: `subprocess.Popen` and, if the library module bound the name
    at import time, its module global `Popen`.  factory(real_popen) -> replacement callable.  This is the only
    tie the correspondence needs: the command line is observed where the library hands it to the OS, whatever
    private helpers assembled it."""

    def __init__(self, factory):
        self.factory = factory

    def __enter__(self):
        import subprocess
        import pyipmi.interfaces.ipmitool as M
        self.saved = [(subprocess, subprocess.Popen)]
        if hasattr(M, 'Popen'):
            self.saved.append((M, M.Popen))
        for mod, real in self.saved:
            mod.Popen = self.factory(real)
        return self

    def __exit__(self, *a):
        for mod, real in self.saved:
            mod.Popen = real


def fake_popen(out, rc, cap=None):
    """replacement that starts nothing: records the command, yields `out` and exit status `rc`"""
    def factory(real):
        class FakePopen:
            def __init__(self, cmd, *a, **kw):
                if cap is not None:
                    cap.append(cmd)
                self.args, self.returncode, self.stdout, self.stderr, self.pid = cmd, rc, None, None, 0

            def communicate(self, input=None, timeout=None):
                return (out, None)

            def wait(self, timeout=None):
                return rc

            def poll(self):
                return rc

            def kill(self):
                pass

            def __enter__(self):
                return self

            def __exit__(self, *a):
                return False
        return FakePopen
    return factory


def recording_popen(cap):
    """replacement that records the command and then really starts it"""
    def factory(real):
        def start(cmd, *a, **kw):
            cap.append(cmd)
            return real(cmd, *a, **kw)
        return start
    return factory


def as_bytes(cmd):
    return cmd if isinstance(cmd, bytes) else os.fsencode(cmd)


# ------------------------------------------------------------------ building the objects
def mk_iface(inp):
    from pyipmi.interfaces.ipmitool import Ipmitool
    from pyipmi.session import Session
    ci = inp.get('cipher')
    cipher = None if ci is None else (int(ci[1]) if ci[0] == 'int' else str(ci[1]))
    itf = Ipmitool(interface_type=inp['type'], cipher=cipher)
    s = Session()
    s.set_session_type_rmcp(fsd(bytes.fromhex(inp['host'])), inp['port'])
    if inp['priv'] in PRIV_NAMES:
        s.set_priv_level(PRIV_NAMES[inp['priv']])
    elif hasattr(s, '_priv_level'):
        s._priv_level = inp['priv']     # fast path for out-of-range levels only (no public way to set them)
    else:
        raise SkipCase('no way to configure privilege level %r' % (inp['priv'],))
    a = inp['auth']
    if a[0] == 'password':
        s.set_auth_type_user(fsd(bytes.fromhex(a[1])), fsd(bytes.fromhex(a[2])))
    elif a[0] == 'other':
        s.auth_type = a[1]
    s.set_session_type_serial(fsd(bytes.fromhex(inp['sport'])), inp['baud'])
    s.interface = itf
    itf.establish_session(s)
    return itf


def mk_target(t):
    from pyipmi import Target
    if t is None:
        return None
    tg = Target(t['addr'])
    if t['routing'] is not None:
        tg.set_routing([tuple(r) for r in t['routing']])
    return tg


def std_inp(**kw):
    d = {'type': 'lan', 'cipher': None, 'host': b'10.0.1.1'.hex(), 'port': 623, 'priv': 4,
         'auth': ['password', b'admin'.hex(), b'secret'.hex()], 'sport': b'/dev/tty2'.hex(), 'baud': 115200,
         'target': {'addr': 0x20, 'routing': None}, 'lun': 0, 'netfn': 6, 'raw': '01'}
    d.update(kw)
    return d


# ------------------------------------------------------------------ Coq literals
def c_config(inp):
    ty = {'lan': 'Lan', 'lanplus': 'Lanplus', 'serial-terminal': 'SerialTerminal', 'open': 'OpenIf'}[inp['type']]
    ci = inp.get('cipher')
    a = inp['auth']
    au = 'AuthNone' if a[0] == 'none' else 'AuthOther' if a[0] == 'other' else \
        '(AuthPassword (hx "%s") (hx "%s"))' % (a[1], a[2])
    return '(mkConfig %s %s (hx "%s") %d %d %s (hx "%s") %d)' % (
        ty, C.c_opt(None if ci is None else C.c_N(ci[1])), inp['host'], inp['port'], inp['priv'], au,
        inp['sport'], inp['baud'])


def c_target(t):
    if t is None:
        return 'None'
    rt = None
    if t['routing'] is not None:
        rt = C.c_list(['(mkRoute %d %s)' % (r[1], C.c_opt(None if r[2] is None else C.c_N(r[2])))
                       for r in t['routing']])
    return '(Some (mkTarget %s %s))' % (C.c_opt(None if t['addr'] is None else C.c_N(t['addr'])), C.c_opt(rt))


def c_obs(obs):
    if obs is None:
        return 'None'
    return '(Some (%s, %s))' % (C.c_list([C.c_hex(a) for a in obs[0]]), C.c_bool(obs[1]))


def c_call(inp):
    return '%s %s %d %d %s' % (c_config(inp), c_target(inp['target']), inp['lun'], inp['netfn'],
                               C.c_hex(bytes.fromhex(inp['raw'])))


def c_res(r, okfmt):
    if r[0] == 'err':
        return '(Err %s)' % C.c_err(r[1])
    return '(Ok %s)' % okfmt(r)


# ------------------------------------------------------------------ the specification (oracle side)
def spec_argv(inp):
    """argv ipmitool must receive for this configuration, written from ipmitool(1):
    -I intf -H host -p port -L level [-C cipher] -U user -P password
    [-T transit_addr -B transit_channel] [-t target_addr [-b target_channel]] -l lun raw netfn bytes..."""
    ty = inp['type']
    a = [b'ipmitool', b'-I', ty.encode()]
    if ty in ('lan', 'lanplus'):
        a += [b'-H', bytes.fromhex(inp['host']), b'-p', str(inp['port']).encode(), b'-L', LEVELS[inp['priv']]]
        if inp.get('cipher') is not None:
            a += [b'-C', str(inp['cipher'][1]).encode()]
        au = inp['auth']
        if au[0] == 'password':
            a += [b'-U', bytes.fromhex(au[1]), b'-P', bytes.fromhex(au[2])]
        else:
            a += [b'-P', b'']
    elif ty == 'serial-terminal':
        a += [b'-D', bytes.fromhex(inp['sport']) + b':' + str(inp['baud']).encode()]
    t = inp['target']
    if t is not None:
        rt = t['routing']
        if rt is not None:
            if len(rt) == 2:
                a += [b'-t', b'0x%02x' % rt[1][1], b'-b', b'%d' % rt[0][2]]
            elif len(rt) == 3:
                a += [b'-T', b'0x%02x' % rt[1][1], b'-B', b'%d' % rt[0][2],
                      b'-t', b'0x%02x' % rt[2][1], b'-b', b'%d' % rt[1][2]]
        elif t['addr']:
            a += [b'-t', b'0x%02x' % t['addr']]
    a += [b'-l', b'%d' % inp['lun'], b'raw'] + [b'0x%02x' % x for x in [inp['netfn']] + list(bytes.fromhex(inp['raw']))]
    return a, ty != 'serial-terminal'


def spec_ping_argv(inp):
    a = [b'ipmitool', b'-I', inp['type'].encode(), b'-H', bytes.fromhex(inp['host']), b'-p', str(inp['port']).encode()]
    au = inp['auth']
    if au[0] == 'password':
        a += [b'-U', bytes.fromhex(au[1]), b'-P', bytes.fromhex(au[2])]
    elif au[0] == 'none':
        a += [b'-A', b'NONE']
    return a + [b'session', b'info', b'all'], False


def fmt_reply(bs, width=16, eol=b'\n'):
    """ipmitool raw: for (i..) { if (i%16==0 && i!=0) printf("\\n"); printf(" %2.2x", d[i]); } printf("\\n");"""
    o = b''
    for i, b in enumerate(bs):
        if i % width == 0 and i != 0:
            o += eol
        o += b' %02x' % b
    return o + eol


def rsp_line(ch, nf, lun, cmd, cc, text):
    return ('Unable to send RAW command (channel=0x%x netfn=0x%x lun=0x%x cmd=0x%x rsp=0x%x): %s\n'
            % (ch, nf, lun, cmd, cc, text)).encode()


def timeout_line(ch, nf, lun, cmd):
    return ('Unable to send RAW command (channel=0x%x netfn=0x%x lun=0x%x cmd=0x%x)\n' % (ch, nf, lun, cmd)).encode()


def argv_key(inp):
    au = inp['auth']
    if au[0] == 'password' and any(c in DQ_SPECIAL for c in bytes.fromhex(au[1]) + bytes.fromhex(au[2])):
        return 'cmd:user-or-password-with-shell-special-character'
    t = inp.get('target')
    if t is not None and t['routing'] is not None and len(t['routing']) == 1:
        return 'target:routing-of-depth-1'
    ci = inp.get('cipher')
    if ci is not None and ci[0] == 'int' and ci[1] == 0 and inp['type'] in ('lan', 'lanplus'):
        return 'cmd:cipher-0'
    return 'cmd:argv-differs'


def show(argv):
    return '[' + ', '.join(repr(a)[1:] for a in argv) + ']'


# ------------------------------------------------------------------ running the library
def lib_run(inp, out=b'', rc=0, ping=False):
    """REAL _run_ipmitool through /bin/sh with the stub on PATH -> (result | exception, invocations)"""
    outf = U.DIR / 'canned'
    outf.write_bytes(out)
    with U.LibraryEnv(out=outf, rc=rc) as le:
        try:
            itf = mk_iface(inp)
            if ping:
                r = itf.rmcp_ping()
            else:
                r = itf.send_and_receive_raw(mk_target(inp['target']), inp['lun'], inp['netfn'],
                                             bytes.fromhex(inp['raw']))
        except Exception as e:  # noqa
            r = e
        inv = le.invocations()
    return r, inv


def oracle_argv(inp):
    """user, password and every option reach ipmitool as the corresponding argv elements;
    the reply bytes come back unchanged behind completion code 0"""
    reply = bytes.fromhex(inp.get('reply', ''))
    exp = spec_argv(inp)
    r, inv = lib_run(inp, out=fmt_reply(reply))
    obs = U.observed(inv)
    if obs is None:
        return 'ipmitool was started %d times (result %r); expected argv %s' % (len(inv), r, show(exp[0]))
    if obs[0] != exp[0]:
        return 'ipmitool received %s, configured %s' % (show(obs[0]), show(exp[0]))
    if obs[1] != exp[1]:
        return 'stderr %s redirected to stdout' % ('is' if obs[1] else 'is not')
    if isinstance(r, Exception) or bytes(r) != b'\0' + reply:
        return 'reply %s came back as %r' % (reply.hex(), r if isinstance(r, Exception) else bytes(r).hex())
    return None


def oracle_ping(inp):
    exp = spec_ping_argv(inp)
    r, inv = lib_run(inp, ping=True)
    obs = U.observed(inv)
    if obs is None:
        return 'rmcp_ping started ipmitool %d times (result %r); expected argv %s' % (len(inv), r, show(exp[0]))
    if obs[0] != exp[0]:
        return 'rmcp_ping: ipmitool received %s, configured %s' % (show(obs[0]), show(exp[0]))
    if r is not None:
        return 'rmcp_ping returned %r for exit status 0' % (r,)
    return None


def oracle_reply(inp):
    """what send_and_receive_raw returns for ipmitool's output `out` and exit status rc"""
    out = bytes.fromhex(inp['out'])
    r, inv = lib_run(std_inp(), out=out, rc=inp['rc'])
    e = inp['expect']
    if 'data' in e:
        if isinstance(r, Exception) or bytes(r).hex() != e['data']:
            return 'output %r (rc=%d) returned %r, expected %s' % (
                out, inp['rc'], r if isinstance(r, Exception) else bytes(r).hex(), e['data'])
        return None
    got = C.exc_class(r) if isinstance(r, Exception) else 'returned ' + bytes(r).hex()
    return None if got == e['exc'] else 'output %r (rc=%d): %s, expected %s' % (out, inp['rc'], got, e['exc'])


def oracle_pingrc(inp):
    r, inv = lib_run(std_inp(), rc=inp['rc'], ping=True)
    got = 'None' if r is None else C.exc_class(r) if isinstance(r, Exception) else repr(r)
    return None if got == inp['expect'] else 'rmcp_ping with exit status %d: %s, expected %s' % (inp['rc'], got, inp['expect'])



# ------------------------------------------------------------------ histories (state across commands)
PRIV_NAMES = {2: 'user', 3: 'operator', 4: 'administrator'}
HISTORY_KEY = 'history:command-depends-on-earlier-configuration'


def configure_session(s, cfg):
    """bring a Session object to configuration cfg through its public setters"""
    from pyipmi.session import Session
    s.set_session_type_rmcp(fsd(bytes.fromhex(cfg['host'])), cfg['port'])
    s.set_priv_level(PRIV_NAMES[cfg['priv']])
    a = cfg['auth']
    if a[0] == 'password':
        s.set_auth_type_user(fsd(bytes.fromhex(a[1])), fsd(bytes.fromhex(a[2])))
    else:
        s.auth_type = Session.AUTH_TYPE_NONE
    s.set_session_type_serial(fsd(bytes.fromhex(cfg['sport'])), cfg['baud'])


def run_history(steps):
    """Run a history on live objects in THIS process: interfaces are created once ('new') and then
    re-configured in place; every command goes through the real _run_ipmitool, /bin/sh and the stub.
    Steps (each robust against the removal of earlier ones - a missing interface is created with
    the standard configuration):
      {'op':'new','id':k,'cfg':{type,cipher,host,port,priv,auth,sport,baud}}   new Ipmitool + new Session
      {'op':'set','id':k,'cfg':{...subset...}}    setters on the SAME Session, then session.establish()
      {'op':'newsession','id':k,'cfg':{...}}      a NEW Session object established on the same interface
      {'op':'raw','id':k,'target':..,'lun':..,'netfn':..,'raw':hex,'reply':hex}
      {'op':'ping','id':k}
    -> one record per command: (step index, op, configuration current at that moment, command line, observed, result)"""
    from pyipmi.interfaces.ipmitool import Ipmitool
    from pyipmi.session import Session
    st = {}
    recs = []
    outf = U.DIR / 'canned'

    def fresh(k, cfg):
        base = std_inp()
        base.update(cfg)
        ci = base.get('cipher')
        itf = Ipmitool(interface_type=base['type'],
                       cipher=None if ci is None else (int(ci[1]) if ci[0] == 'int' else str(ci[1])))
        s = Session()
        s.interface = itf
        configure_session(s, base)
        s.establish()
        st[k] = {'cfg': base, 'itf': itf, 'session': s}
        return st[k]

    def get(k):
        return st[k] if k in st else fresh(k, {})

    for i, step in enumerate(steps):
        op, k = step['op'], step.get('id', 0)
        if op == 'new':
            fresh(k, step['cfg'])
        elif op == 'set':
            e = get(k)
            e['cfg'] = dict(e['cfg'], **step['cfg'])
            configure_session(e['session'], e['cfg'])
            e['session'].establish()
        elif op == 'newsession':
            e = get(k)
            e['cfg'] = dict(e['cfg'], **step['cfg'])
            s = Session()
            s.interface = e['itf']
            configure_session(s, e['cfg'])
            s.establish()
            e['session'] = s
        else:
            e = get(k)
            cap = []
            itf = e['itf']
            reply = bytes.fromhex(step.get('reply', ''))
            outf.write_bytes(fmt_reply(reply))
            with U.LibraryEnv(out=outf, rc=0) as le, popen_patch(recording_popen(cap)):
                try:
                    if op == 'ping':
                        r = itf.rmcp_ping()
                    else:
                        r = itf.send_and_receive_raw(mk_target(step['target']), step['lun'], step['netfn'],
                                                     bytes.fromhex(step['raw']))
                except Exception as ex:  # noqa
                    r = ex
                inv = le.invocations()
            inp = dict(e['cfg'])
            if op == 'raw':
                inp.update(target=step['target'], lun=step['lun'], netfn=step['netfn'], raw=step['raw'])
            recs.append({'i': i, 'op': op, 'inp': inp, 'cmd': as_bytes(cap[0]) if cap else None,
                         'obs': U.observed(inv), 'n': len(inv), 'result': r, 'reply': reply})
    return recs


def oracle_history(inp):
    """every command of a history must carry the configuration current at that moment - exactly what
    the same command carries when it is the first one sent (argv prescribed by spec_argv)"""
    steps = inp['calls']
    return judge_history(run_history(steps), len(steps))


def judge_history(recs, nsteps):
    for rec in recs:
        exp = spec_ping_argv(rec['inp']) if rec['op'] == 'ping' else spec_argv(rec['inp'])
        where = 'step %d of %d (%s)' % (rec['i'], nsteps, rec['op'])
        if rec['obs'] is None:
            return '%s: ipmitool was started %d times (result %r); expected argv %s' % (
                where, rec['n'], rec['result'], show(exp[0]))
        if rec['obs'][0] != exp[0]:
            return '%s: ipmitool received %s, but the configuration current at that moment prescribes %s' % (
                where, show(rec['obs'][0]), show(exp[0]))
        if rec['obs'][1] != exp[1]:
            return '%s: stderr %s redirected to stdout' % (where, 'is' if rec['obs'][1] else 'is not')
        r = rec['result']
        if rec['op'] == 'raw' and (isinstance(r, Exception) or bytes(r) != b'\0' + rec['reply']):
            return '%s: reply %s came back as %r' % (where, rec['reply'].hex(), r)
        if rec['op'] == 'ping' and r is not None:
            return '%s: rmcp_ping returned %r' % (where, r)
    return None


def rand_history(rng, n):
    def auth():
        k = rng.randrange(6)
        if k == 0:
            return ['none']
        if k <= 2:
            return ['password', plain(rng).hex(), plain(rng).hex()]
        return ['password', rand_str(rng, rng.randrange(0, 10)).hex(), rand_str(rng, rng.randrange(0, 16)).hex()]

    def cfg(full):
        d = {}
        for key, gen in (('auth', auth), ('priv', lambda: rng.choice([2, 3, 4])),
                         ('host', lambda: rng.choice([b'10.0.1.1', b'bmc-7.example.org', plain(rng)]).hex()),
                         ('port', lambda: rng.choice([623, 1623, rng.randrange(1, 65536)])),
                         ('sport', lambda: rng.choice([b'/dev/tty2', b'/dev/ttyUSB0']).hex()),
                         ('baud', lambda: rng.choice([9600, 115200]))):
            if full or rng.randrange(3) == 0:
                d[key] = gen()
        if not full and not d:
            d['auth'] = auth()
        return d

    def new(k):
        c = cfg(True)
        c['type'] = rng.choice(['lan', 'lan', 'lanplus', 'lanplus', 'open', 'serial-terminal'])
        c['cipher'] = rng.choice([None, None, ['int', rng.randrange(0, 255)], ['str', rng.randrange(0, 255)]])
        return {'op': 'new', 'id': k, 'cfg': c}
    steps = [new(0)]
    ids = [0]
    types = {0: steps[0]['cfg']['type']}
    while len(steps) < n:
        k = rng.choice(ids)
        r = rng.randrange(20)
        if r < 9:
            steps.append({'op': 'raw', 'id': k, 'target': rand_target(rng), 'lun': rng.randrange(4),
                          'netfn': rng.randrange(64),
                          'raw': bytes(rng.randrange(256) for _ in range(rng.randrange(1, 9))).hex(),
                          'reply': bytes(rng.randrange(256) for _ in range(rng.randrange(0, 20))).hex()})
        elif r < 11:
            if types[k] != 'serial-terminal':
                steps.append({'op': 'ping', 'id': k})
        elif r < 16:
            steps.append({'op': 'set', 'id': k, 'cfg': cfg(False)})
        elif r < 18:
            steps.append({'op': 'newsession', 'id': k, 'cfg': cfg(True)})
        elif len(ids) < 3:
            k2 = len(ids)
            steps.append(new(k2))
            ids.append(k2)
            types[k2] = steps[-1]['cfg']['type']
    return steps


ORACLES = {'argv': oracle_argv, 'ping': oracle_ping, 'reply': oracle_reply, 'pingrc': oracle_pingrc,
           'history': oracle_history}


def replay(data):
    U.ensure_stub()
    r = data['replay']
    if 'oracle' not in r:
        return False
    return ORACLES[r['oracle']](r['input']) is None


# ------------------------------------------------------------------ generators
def rand_str(rng, n, alphabet=LONG_ALPHABET):
    return b''.join(rng.choice(alphabet) for _ in range(n))


def plain(rng, n=None):
    return bytes(rng.choice(b'abcxyzABC0129_.-') for _ in range(n or rng.randrange(1, 10)))


def rand_target(rng, depth=None):
    k = rng.randrange(8) if depth is None else 10
    if depth is None and k == 0:
        return None
    if depth is None and k <= 2:
        return {'addr': rng.choice([None, 0, 0x20, 0x82, 0xb0, rng.randrange(256), rng.randrange(1, 16)]), 'routing': None}
    d = depth if depth is not None else rng.choice([1, 2, 2, 3, 3])
    rt = [[rng.choice([0x81, 0x20]), rng.choice([0x20, 0x82, 0x72, rng.randrange(256)]), rng.randrange(16)]
          for _ in range(d)]
    return {'addr': rng.choice([None, 0x20, rt[-1][1]]), 'routing': rt}


def rand_inp(rng, user=None, pw=None, **kw):
    ty = rng.choice(['lan', 'lan', 'lanplus', 'lanplus', 'serial-terminal', 'open'])
    ci = rng.choice([None, None, ['int', rng.randrange(1, 255)], ['str', rng.randrange(0, 255)], ['int', 17]])
    d = {'type': ty, 'cipher': ci, 'host': rng.choice([b'10.0.1.1', b'bmc-7.example.org', b'fe80::1', plain(rng)]).hex(),
         'port': rng.choice([623, 623, 1623, rng.randrange(1, 65536)]), 'priv': rng.choice([2, 3, 4]),
         'auth': ['password', (plain(rng) if user is None else user).hex(), (plain(rng) if pw is None else pw).hex()],
         'sport': rng.choice([b'/dev/tty2', b'/dev/ttyUSB0', plain(rng)]).hex(),
         'baud': rng.choice([9600, 38400, 115200]),
         'target': rand_target(rng), 'lun': rng.randrange(4), 'netfn': rng.randrange(64),
         'raw': bytes(rng.randrange(256) for _ in range(rng.randrange(1, 41))).hex()}
    d.update(kw)
    return d


def py_cmd(inp, ping=False):
    """the command line the library hands to the OS (None = it raised), observed at Popen through the public
    send_and_receive_raw / rmcp_ping"""
    cap = []
    try:
        itf = mk_iface(inp)
        with popen_patch(fake_popen(b'', 0, cap)):
            if ping:
                itf.rmcp_ping()
            else:
                itf.send_and_receive_raw(mk_target(inp['target']), inp['lun'], inp['netfn'], bytes.fromhex(inp['raw']))
    except SkipCase:
        raise
    except Exception:  # noqa
        return None
    return as_bytes(cap[0]) if cap else None


def py_parse(out):
    """optional finer observation (cc and data separately) through _parse_output, which /repo/tests pin;
    None when the method does not exist - chk_receive (public path) then carries the correspondence alone"""
    from pyipmi.interfaces.ipmitool import Ipmitool
    if not hasattr(Ipmitool, '_parse_output'):
        return None
    try:
        cc, rsp = Ipmitool()._parse_output(out)
        return ('ok', cc, None if rsp is None else bytes(rsp))
    except Exception as e:  # noqa
        return ('err', C.exc_class(e))


def py_receive(out, rc):
    """public send_and_receive_raw; only the process creation is substituted, so the library's own exit-status
    rule is exercised too"""
    try:
        itf = mk_iface(std_inp())
        with popen_patch(fake_popen(out, rc)):
            return ('ok', bytes(itf.send_and_receive_raw(mk_target({'addr': 0x20, 'routing': None}), 0, 6, b'\x01')))
    except Exception as e:  # noqa
        return ('err', C.exc_class(e))


JUNK = ['ab', 'AB', '0x1f', '0X1F', '1_0', '_1', '1_', '1__0', '0x_1', '+1f', '-0', '-1', '100', 'ff', 'fff',
        'g1', '', '\t12', '12\t', '\x0b1', '1\xa0', '\x851', 'zz', '0x', 'x', '0', '00', '000a', '+', '-', '1 ', '7f',
        '0x100', '0_0', 'a_b_c', '١']


def rand_output(rng):
    """structured mostly-valid + malformed ipmitool outputs (no backslash: see Model precondition)"""
    parts = []
    for _ in range(rng.randrange(1, 5)):
        k = rng.randrange(14)
        n = rng.randrange(0, 40)
        bs = bytes(rng.randrange(256) for _ in range(n))
        if k <= 3:
            parts.append(fmt_reply(bs, rng.choice([16, 16, 8, 1, 5]), rng.choice([b'\n', b'\r\n', b' \r\n', b'    \n'])))
        elif k == 4:
            parts.append(rsp_line(rng.randrange(16), rng.randrange(64), rng.randrange(4), rng.randrange(256),
                                  rng.randrange(256), rng.choice(CC_TEXT)))
        elif k == 5:
            parts.append(timeout_line(rng.randrange(16), rng.randrange(64), rng.randrange(4), rng.randrange(256)))
        elif k == 6:
            parts.append(rng.choice([b'Get HPM.x Capabilities request failed, compcode = c9\n',
                                     b'Activate Session command failed\n', b'failed\n',
                                     b'Unable to send RAW command (cmd=0x1) failed\n']))
        elif k == 7:
            parts.append(rng.choice([b'Error: Unable to establish IPMI v2 / RMCP+ session\n',
                                     b'Error: Unable to establish LAN session',
                                     b'Could not open device at /dev/ipmi0 or /dev/ipmi/0: No such file\n',
                                     b'lanplus: password is longer than 20 bytes.\n',
                                     b'lan: password is longer than 16 bytes.']))
        elif k == 8:
            parts.append(rng.choice([
                b'Unable to send RAW command (channel=0x0 netfn=0x6 lun=0x0 cmd=0xA)\n',
                b'Unable to send RAW command (channel=0x0 cmd=0x1 rsp=0x)\n',
                b'Unable to send RAW command (rsp=0x12) rsp=0x34): x\n',
                b'Unable to send RAW command (rsp=0x12)) cmd=0x1)\n',
                b'Unable to send RAW command (cmd=0x1 rsp=0xC3)\n',
                b'Unable to send RAW command (cmd=0x1 rsp=0xc3\n',
                b' Unable to send RAW command (cmd=0x1)\n',
                b'Unable to send RAW command cmd=0x1)\n',
                b'Unable to send RAW command (cmd=0x12c)\n',
                b'Unable to send RAW command (x rsp=0x1ff): big\n',
                b'Unable to send RAW command (rsp=0xcmd=0x5)\n',
                b'xx Unable to establish\n']))
        elif k == 9:
            parts.append(b'\n' * rng.randrange(1, 3))
        else:
            toks = [rng.choice(JUNK) if rng.randrange(3) == 0 else '%02x' % rng.randrange(256)
                    for _ in range(rng.randrange(1, 6))]
            parts.append(rng.choice([' ', ' ', '  ']).join(toks).encode('latin-1', 'replace') +
                         rng.choice([b'\n', b'', b'\r\n']))
    return b''.join(parts)


# ------------------------------------------------------------------ run
def run(ctx):
    rng = ctx.rng
    q = ctx.quick
    res = C.Result(model_map=MODEL_MAP)
    D = C.Distinct()
    stub_kind = U.ensure_stub()
    terms, meta = [], []
    fails = {}

    def add(term, info):
        terms.append(term)
        meta.append(info)

    def oracle(name, inp, key):
        res.evaluations += 1
        if key in fails:
            # keep looking only for a smaller witness of the same class
            return
        msg = ORACLES[name](inp)
        if msg:
            fails[key] = C.Violation(key=key, what=msg, replay={'oracle': name, 'input': inp})

    # ---------------- (a) shell model against the real /bin/sh
    xs = [('single', bytes([b])) for b in range(1, 256)]
    xs += [('pair', bytes([a, b])) for a in SPECIALS for b in SPECIALS]
    if not q:
        tri = [bytes([a, b, c]) for a in b'\\"$`\'a ' for b in b'\\"$`\'a (' for c in b'\\"$`\'a )']
        xs += [('triple', x) for x in tri]
    xs += [('long', rand_str(rng, rng.randrange(3, 25))) for _ in range(300 if q else 3000)]
    shell_cases = []
    for kind, x in xs:
        ctxs = [('dq', b'ipmitool -P "' + x + b'" t 2>&1'), ('bare', b'ipmitool -a ' + x + b' t')]
        if kind != 'pair' or not q:
            ctxs.append(('sq', b"ipmitool '" + x + b"' t"))
        if kind == 'single':
            ctxs.append(('bs', b'ipmitool a\\' + x + b'b 2>&1'))
        esc = b''.join((b'\\' + bytes([c])) if c in DQ_SPECIAL else bytes([c]) for c in x)
        ctxs.append(('escaped', b'ipmitool -U "' + esc + b'" -P "' + esc + b'" t 2>&1'))
        for cn, cmd in ctxs:
            shell_cases.append((kind, cn, cmd))
    shell_cases += [('fixed', 'fixed', c) for c in (
        b'ipmitool', b'ipmitool 2>&1', b'ipmitool  -I\tlan', b'ipmitool 2>&1 x', b'ipmitool 12>&1', b'ipmitool 2>&1x',
        b'ipmitool "2">&1', b'ipmitool \\2>&1', b'ipmitool ""', b"ipmitool '' \"\"", b'ipmitool a""b', b'ipmitool 2 >&1',
        b'ipmitool 2>&2', b'ipmitool -P "" -t 0x20 -l 0 raw 0x06 0x01 2>&1', b'ipmitool a#b #c', b'ipmitool a~ ~', b'  ', b'')]

    def one(args):
        i, (kind, cn, cmd) = args
        inv, rc, so = U.run_sh(cmd, slot=i % 8)
        return i, U.observed(inv)
    # 8 slots -> 8 workers, each index class uses its own log file; run slot-wise to avoid sharing a log
    obs = [None] * len(shell_cases)

    def worker(slot):
        for i in range(slot, len(shell_cases), 8):
            obs[i] = one((i, shell_cases[i]))[1]
    with cf.ThreadPoolExecutor(max_workers=8) as ex:
        list(ex.map(worker, range(8)))
    words_idx = []
    for (kind, cn, cmd), o in zip(shell_cases, obs):
        add('chk_lex %s %s' % (C.c_hex(cmd), c_obs(o)), ('sh', kind, cn, cmd.hex(), None if o is None else [a.hex() for a in o[0]]))
        words_idx.append(len(terms))
        add('is_words %s' % C.c_hex(cmd), ('is_words', kind, cn, cmd.hex()))
        D.add(('sh', cmd), True, 'shell-%s-%s' % (kind, cn))

    # ---------------- (b) builders, parser, result mapping against the Python functions
    inps = []
    for ty in TYPES:
        for tgt in (None, {'addr': 0x20, 'routing': None}, {'addr': None, 'routing': None}, {'addr': 0, 'routing': None},
                    {'addr': 0xb0, 'routing': [[0x81, 0x20, 0]]},
                    {'addr': None, 'routing': [[0x81, 0x20, 7], [0x20, 0x82, 0]]},
                    {'addr': 0x72, 'routing': [[0x81, 0x20, 0], [0x20, 0x82, 7], [0x20, 0x72, None]]},
                    {'addr': None, 'routing': [[0x81, 0x20, 0], [0x20, 0x82, None]]},
                    {'addr': None, 'routing': [[0x81, 0x20, None], [0x20, 0x82, 3]]},
                    {'addr': None, 'routing': [[0x81, 0x20, 0], [0x20, 0x82, None], [0x20, 0x72, None]]},
                    {'addr': None, 'routing': []},
                    {'addr': 1, 'routing': [[0x81, 0x20, 1]] * 4}):
            inps.append(std_inp(type=ty, target=tgt))
    for ci in (['int', 0], ['str', 0], ['int', 3], ['str', 17], ['int', 254]):
        inps.append(std_inp(cipher=ci))
        inps.append(std_inp(cipher=ci, type='lanplus', auth=['none']))
    inps += [std_inp(priv=p) for p in (1, 2, 3, 4, 5)] + [std_inp(auth=['other', 2]), std_inp(auth=['none'])]
    inps += [std_inp(lun=l, netfn=n) for l in range(4) for n in (0, 1, 0x2c, 63)]
    inps += [std_inp(netfn=300), std_inp(lun=17), std_inp(target={'addr': 0x123, 'routing': None}), std_inp(raw='')]
    for c in range(1, 128):
        inps.append(std_inp(auth=['password', bytes([c]).hex(), (b'p' + bytes([c]) + b'w').hex()]))
    inps += [rand_inp(rng) for _ in range(150 if q else 1500)]
    inps += [rand_inp(rng, user=rand_str(rng, rng.randrange(0, 12)), pw=rand_str(rng, rng.randrange(0, 24)))
             for _ in range(150 if q else 1500)]
    for inp in inps:
        try:
            cmd = py_cmd(inp)
        except SkipCase:
            continue
        add('chk_cmd %s %s' % (c_call(inp), C.c_opt(None if cmd is None else C.c_hex(cmd))),
            ('cmd', inp, None if cmd is None else cmd.decode('latin-1')))
        D.add(('cmd', repr(inp)), True, 'builder-' + inp['type'])
    for inp in inps[::3]:
        try:
            cmd = py_cmd(inp, ping=True)
        except SkipCase:
            continue
        add('chk_ping %s %s' % (c_config(inp), C.c_opt(None if cmd is None else C.c_hex(cmd))),
            ('ping', inp, None if cmd is None else cmd.decode('latin-1')))
        D.add(('ping', repr(inp)), True, 'builder-ping')

    outs = [fmt_reply(bytes(rng.randrange(256) for _ in range(n))) for n in range(0, 81)]
    outs += [fmt_reply(bytes(range(n)), w, e) for n in (1, 15, 16, 17, 32, 33) for w in (16, 8, 1, 40) for e in (b'\n', b'\r\n')]
    outs += [rsp_line(0, 6, 0, 1, cc, rng.choice(CC_TEXT)) for cc in range(256)]
    outs += [timeout_line(0, 6, 0, 1), b'', b'\n', b' ', b'00', b' 0', b'\r\n', b'ff\n\n00\n']
    outs += [rand_output(rng) for _ in range(400 if q else 4000)]
    for out in outs:
        r = py_parse(out)
        if r is not None:
            add('chk_parse %s %s' % (C.c_hex(out), c_res(r, lambda r: '(%s, %s)' % (
                C.c_opt(None if r[1] is None else C.c_N(r[1])), C.c_opt(None if r[2] is None else C.c_hex(r[2]))))),
                ('parse', out.decode('latin-1'), repr(r)))
        rc = rng.choice([0, 0, 1, 1, 127, 2])
        r2 = py_receive(out, rc)
        add('chk_receive %s %d %s' % (C.c_hex(out), rc, c_res(r2, lambda r: C.c_hex(r[1]))),
            ('receive', out.decode('latin-1'), rc, repr(r2)))
        D.add(('out', out, rc), len(out) > 0, 'parser')

    # ---------------- (c) oracle: the real library through the real shell, stub on PATH
    e2e = []       # (inp, key-class) also compared with the composed model (chk_argv)
    hostile = [b'$x', b'a"b', b'`x`', b'a\\', b'$(x)', b'a b', b"a'b", b'*', b';x', b'a\\"b', b'$', b'\\$x', b'${x}',
               b'a\nb', b'#x', b'~', b'a&x', b'>x', b'', b' ', b'\\', b'"', b'`', b'\xc3\xa9\xe2\x82\xac', b'!!', b'%s']
    for pw in hostile:
        e2e.append(std_inp(auth=['password', b'admin'.hex(), pw.hex()], reply='0102'))
        e2e.append(std_inp(auth=['password', pw.hex(), b'secret'.hex()], type='lanplus'))
    for c in range(1, 128):
        e2e.append(std_inp(auth=['password', bytes([c]).hex(), (b'p' + bytes([c]) + b'w').hex()]))
    pairs = [bytes([a, b]) for a in SPECIALS for b in SPECIALS]
    for p in (pairs if not q else pairs[::4]):
        e2e.append(std_inp(auth=['password', b'admin'.hex(), p.hex()]))
    e2e.append(std_inp(target={'addr': 0x20, 'routing': [[0x81, 0x20, 0]]}))
    e2e.append(std_inp(target={'addr': 0x82, 'routing': [[0x81, 0x20, 0], [0x20, 0x82, 7]]}))
    e2e.append(std_inp(target={'addr': 0x72, 'routing': [[0x81, 0x20, 0], [0x20, 0x82, 7], [0x20, 0x72, None]]}))
    for d in (1, 2, 3):
        for ty in TYPES:
            for _ in range(2):
                t = rand_target(rng, depth=d)
                if d == 1:
                    t['addr'] = rng.choice([None, 0x20])
                e2e.append(rand_inp(rng, type=ty, target=t, cipher=None))
    for ci in (['int', 0], ['str', 0], ['int', 1], ['str', 17]):
        e2e.append(std_inp(cipher=ci, type='lanplus'))
    for _ in range(80 if q else 1500):
        e2e.append(rand_inp(rng, user=rand_str(rng, rng.randrange(0, 12)), pw=rand_str(rng, rng.randrange(0, 24)),
                            type=rng.choice(['lan', 'lanplus'])))
    for l in range(4):
        for n in range(64):
            e2e.append(std_inp(lun=l, netfn=n, raw=bytes(rng.randrange(256) for _ in range(rng.randrange(1, 41))).hex(),
                               type=rng.choice(TYPES), reply=bytes(rng.randrange(256) for _ in range(rng.randrange(0, 81))).hex()))
    for _ in range(100 if q else 2000):
        e2e.append(rand_inp(rng, reply=bytes(rng.randrange(256) for _ in range(rng.randrange(0, 81))).hex()))
    for inp in e2e:
        oracle('argv', inp, argv_key(inp))
        D.add(('e2e', repr(inp)), True, 'e2e-' + argv_key(inp).split(':')[1][:24])
    # end-to-end observation against the composed model (a sample; each costs one more process)
    for inp in e2e[::(4 if q else 2)]:
        r, inv = lib_run(inp)
        add('chk_argv %s %s' % (c_call(inp), c_obs(U.observed(inv))), ('argv', inp, [a.hex() for iv in inv for a in iv[0]]))
    for inp in [std_inp(), std_inp(auth=['none']), std_inp(type='open'), std_inp(type='lanplus', auth=['other', 2])] + \
            [std_inp(auth=['password', b'admin'.hex(), pw.hex()]) for pw in hostile]:
        if inp['type'] != 'serial-terminal':
            oracle('ping', inp, 'ping:' + argv_key(inp).split(':', 1)[1])
    # replies: every length 0..80 in ipmitool's layout, every completion code, the error lines
    for n in range(0, 81):
        bs = bytes(rng.randrange(256) for _ in range(n))
        oracle('reply', {'out': fmt_reply(bs).hex(), 'rc': 0, 'expect': {'data': (b'\0' + bs).hex()}}, 'reply:bytes-changed')
    for cc in range(1, 256):
        oracle('reply', {'out': rsp_line(rng.randrange(16), rng.randrange(64), rng.randrange(4), rng.randrange(256), cc,
                                         rng.choice(CC_TEXT)).hex(), 'rc': 1, 'expect': {'data': '%02x' % cc}},
               'reply:rsp-line-completion-code')
    pre = b'Get HPM.x Capabilities request failed, compcode = c9\n'
    for out, rc, exc in (
            (timeout_line(0, 6, 0, 1), 1, 'TimeoutError'), (pre + timeout_line(7, 0x2c, 3, 0xff), 1, 'TimeoutError'),
            (b'Error: Unable to establish IPMI v2 / RMCP+ session\n', 1, 'ConnectionError'),
            (b'Error: Unable to establish LAN session\n', 1, 'ConnectionError'),
            (b'Error: Unable to establish IPMI v1.5 / RMCP session\n', 1, 'ConnectionError'),
            (b'Activate Session command failed\nError: Unable to establish LAN session\n', 1, 'ConnectionError'),
            (b'lanplus: password is longer than 20 bytes.\n', 1, 'LongPasswordError'),
            (b'lan: password is longer than 16 bytes.\n', 1, 'LongPasswordError'),
            (b'', 1, 'OtherError'), (b'', 127, 'OtherError')):
        oracle('reply', {'out': out.hex(), 'rc': rc, 'expect': {'exc': exc}}, 'reply:error-mapping-' + exc)
    oracle('pingrc', {'rc': 0, 'expect': 'None'}, 'ping:status')
    oracle('pingrc', {'rc': 1, 'expect': 'TimeoutError'}, 'ping:status')

    # ---------------- (d) histories: ONE interface object + ONE Session re-configured in place, a second
    # interface created later; every command compared with the stateless model and the independent argv
    fixed_hist = [
        [{'op': 'new', 'id': 0, 'cfg': {'type': 'lanplus'}},
         {'op': 'raw', 'id': 0, 'target': {'addr': 0x20, 'routing': None}, 'lun': 0, 'netfn': 6, 'raw': '01', 'reply': '20'},
         {'op': 'set', 'id': 0, 'cfg': {'auth': ['password', b'admin'.hex(), b'new;pw && echo \\'.hex()]}},
         {'op': 'raw', 'id': 0, 'target': {'addr': 0x20, 'routing': None}, 'lun': 0, 'netfn': 6, 'raw': '01', 'reply': '20'},
         {'op': 'ping', 'id': 0},
         {'op': 'set', 'id': 0, 'cfg': {'auth': ['none']}},
         {'op': 'raw', 'id': 0, 'target': {'addr': 0x82, 'routing': [[0x81, 0x20, 0], [0x20, 0x82, 7]]}, 'lun': 1, 'netfn': 0x2c, 'raw': '0000', 'reply': ''},
         {'op': 'set', 'id': 0, 'cfg': {'auth': ['password', b'operator'.hex(), b''.hex()], 'priv': 3}},
         {'op': 'raw', 'id': 0, 'target': None, 'lun': 0, 'netfn': 6, 'raw': '01', 'reply': '0102'},
         {'op': 'new', 'id': 1, 'cfg': {'type': 'lan', 'cipher': ['int', 3], 'host': b'other'.hex(), 'priv': 2,
                                        'auth': ['password', b'u2'.hex(), b'$x'.hex()]}},
         {'op': 'raw', 'id': 1, 'target': {'addr': 0x20, 'routing': None}, 'lun': 0, 'netfn': 6, 'raw': '01', 'reply': '20'},
         {'op': 'raw', 'id': 0, 'target': {'addr': 0x20, 'routing': None}, 'lun': 0, 'netfn': 6, 'raw': '01', 'reply': '20'},
         {'op': 'newsession', 'id': 0, 'cfg': {'auth': ['password', b'root'.hex(), b'`x`'.hex()], 'host': b'10.0.0.9'.hex()}},
         {'op': 'raw', 'id': 0, 'target': {'addr': 0x20, 'routing': None}, 'lun': 0, 'netfn': 6, 'raw': '01', 'reply': '20'},
         {'op': 'ping', 'id': 1}]]
    histories = fixed_hist + [rand_history(rng, rng.randrange(6, 22)) for _ in range(30 if q else 300)]
    for steps in histories:
        recs = run_history(steps)
        for rec in recs:
            res.evaluations += 1
            if rec['op'] == 'raw':
                add('chk_argv %s %s' % (c_call(rec['inp']), c_obs(rec['obs'])),
                    ('history-argv', rec['i'], rec['inp'], None if rec['obs'] is None else [a.hex() for a in rec['obs'][0]]))
                add('chk_cmd %s %s' % (c_call(rec['inp']), C.c_opt(None if rec['cmd'] is None else C.c_hex(rec['cmd']))),
                    ('history-cmd', rec['i'], rec['inp'], None if rec['cmd'] is None else rec['cmd'].decode('latin-1')))
            else:
                add('chk_ping %s %s' % (c_config(rec['inp']), C.c_opt(None if rec['cmd'] is None else C.c_hex(rec['cmd']))),
                    ('history-ping', rec['i'], rec['inp'], None if rec['cmd'] is None else rec['cmd'].decode('latin-1')))
            D.add(('hist', rec['i'], repr(rec['inp'])), rec['i'] > 1, 'history-' + rec['op'])
        if HISTORY_KEY not in fails:
            msg = judge_history(recs, len(steps))
            if msg:
                # confirm from a clean start (fresh interpreter) and shrink; every candidate in a new process
                seq = C.shrink_history('C19', 'history', steps)
                if seq is not None:
                    fails[HISTORY_KEY] = C.Violation(
                        key=HISTORY_KEY,
                        what=(oracle_history({'calls': seq}) or msg) + ' [history of %d step(s)]' % len(seq),
                        replay={'oracle': 'history', 'input': {'calls': seq}})
                else:
                    fails[HISTORY_KEY + ':not-reproduced-in-fresh-process'] = C.Violation(
                        key=HISTORY_KEY + ':not-reproduced-in-fresh-process', what=msg,
                        replay={'oracle': 'history', 'input': {'calls': steps}})

    # ---------------- evaluate the model inside Coq
    failing, errors = C.coq_cases('C19', 'Model.Shell Model.IpmitoolIf Corr.C19', terms)
    fset = set(failing)
    not_words = sum(1 for i in words_idx if i in fset)
    res.mismatches = [{'case': meta[i], 'term': terms[i][:2000]} for i in failing if meta[i][0] != 'is_words'][:50]
    res.corr_errors = errors
    res.evaluations += len(terms) - len(words_idx)
    res.distinct_nontrivial = D.distinct
    res.histogram = D.hist
    res.extra['shell_validation'] = {
        'command_lines_run_through_/bin/sh': len(shell_cases),
        'model_answers_Words (checked equal to the argv the stub saw)': len(words_idx) - not_words,
        'model_answers_expansion/substitution/unterminated/other (no claim)': not_words,
        'stub': stub_kind}
    res.rule = ('shell model: every single byte 1..255 and every pair of %d shell-special characters, each inside double quotes, '
                'bare, (single-quoted, after a backslash,) and escaped by the quoting rule; random strings of '
                'specials/non-ASCII; builders: every interface type x target shape, ciphers, privilege levels, LUN x netfn, every '
                'ASCII character as user/password, random configurations; parser: reply lengths 0..80, widths 16/8/1/40, CR LF, '
                'every rsp=0xNN, error lines, malformed fields; oracle: real _run_ipmitool via /bin/sh with stub ipmitool; '
                'histories: one interface + one Session re-configured in place (auth, level, host, new Session, second '
                'interface) between commands, each command against the stateless model and the independent argv. '
                'distinct = distinct canonical inputs; non-trivial = non-empty input' % len(SPECIALS))
    pick = [0, len(terms) // 3, len(terms) // 2, len(terms) - 1]
    res.samples = [{'term': terms[i][:400], 'case': str(meta[i])[:400]} for i in pick]
    res.oracle_failures = list(fails.values())
    return res
