"""C15 - FRU inventory parsing inverts the FRU storage format and enforces its checksums.

Correspondence: Model/FruParse.v evaluated in Coq (Corr/C15.v) against pyipmi.fru on the
same images (bytes, array('B'), get_fru_inventory_from_file, the area classes on exact
slices as the device path builds them).  Oracle: images come from the independent encoder
below (written from the FRU storage definition; its Coq twin Model/FruSpec.enc_inventory is
compared with it byte for byte on every generated inventory); the implementation has to
report exactly the encoded values, and has to reject every image in which a byte inside a
checksummed region of unchanged extent was altered.
"""
import array
import datetime
import os

from . import common as C

GENS = ['fru_tables']
TRUSTED = ['gen/gen_fru_tables.py (BCD_MAP and CUSTOM_FIELD_END literals re-read from the source on every run)',
           'independent FRU encoder: Model/FruSpec.v and its Python twin in harness/c15.py '
           '(written from the storage definition; compared with each other on every run)',
           'datetime arithmetic of CPython (mfg_date is compared as minutes since 1996-01-01)']
MODEL_MAP = [
    {'python': 'pyipmi/fru.py:FruData.__init__', 'coq': 'Model.FruParse.area_st/mr_st Shell, parse_inventory None'},
    {'python': 'pyipmi/fru.py:InventoryCommonHeader._from_data', 'coq': 'Model.FruParse.parse_header'},
    {'python': 'pyipmi/fru.py:CommonInfoArea._from_data', 'coq': 'Model.FruParse.common_info'},
    {'python': 'pyipmi/fru.py:InventoryChassisInfoArea._from_data', 'coq': 'Model.FruParse.chassis_area (parse_area false 2)'},
    {'python': 'pyipmi/fru.py:InventoryBoardInfoArea._from_data', 'coq': 'Model.FruParse.board_area (parse_area true 5)'},
    {'python': 'pyipmi/fru.py:InventoryProductInfoArea._from_data', 'coq': 'Model.FruParse.product_area (parse_area false 7)'},
    {'python': 'pyipmi/fru.py:_decode_custom_fields', 'coq': 'Model.FruParse.decode_custom_fields'},
    {'python': 'pyipmi/fru.py:FruDataMultiRecord._from_data', 'coq': 'Model.FruParse.mr_base'},
    {'python': 'pyipmi/fru.py:FruDataMultiRecord.create_from_record_id, FruPicmgRecord.create_from_record_id/_from_data, '
               'FruPicmgPowerModuleCapabilityRecord._from_data, FruDataUnknown', 'coq': 'Model.FruParse.parse_record'},
    {'python': 'pyipmi/fru.py:InventoryMultiRecordArea.__init__/_from_data', 'coq': 'Model.FruParse.multi_at/parse_records'},
    {'python': 'pyipmi/fru.py:FruInventory.__init__/_from_data, get_fru_inventory_from_file', 'coq': 'Model.FruParse.parse_inventory'},
    {'python': 'pyipmi/fru.py:Fru.get_fru_inventory and the get_fru_*_area / read_fru_data / write_fru_data it uses (request loops: C10)',
     'coq': 'stateless: Model.FruParse.parse_inventory on the device content at the time of the call (Corr.C15.chk_dev)'},
    {'python': 'pyipmi/fields.py:TypeLengthString._from_data, FruTypeLengthString (with fix F15a)', 'coq': 'Model.FruParse.tls'},
    {'python': 'pyipmi/fields.py:_unpack6bitascii (with fix F15b)', 'coq': 'Model.FruParse.quad/unpack6_groups/unpack6'},
    {'python': 'pyipmi/utils.py:bcd_decode, bcd_search', 'coq': 'Model.FruParse.bcd_decode/bcd_char'},
    {'python': 'pyipmi/utils.py:BCD_MAP, pyipmi/fru.py:CUSTOM_FIELD_END', 'coq': 'Gen.FruTables (generated)'},
]

KEY_F15A = 'TypeLengthString:bcd-plus:non-bytes-input'
KEY_F15B = '_unpack6bitascii:length-not-multiple-of-3'
KEY_F15C = 'FruPicmgRecord:type-0xC0-record-shorter-than-the-PICMG-structure'
EPOCH = datetime.datetime(1996, 1, 1)
TMP = C.BUILD / 'c15'


def _fru():
    import pyipmi.fru as fru
    return fru


# =============================================================================
# independent encoder (Platform Management FRU Information Storage Definition)
# an inventory is a dict: internal: bytes, chassis/board/product: area or None,
# multi: [(type_id, payload bytes)];  area: dict b2, minutes, fields, custom;
# field: (kind, value) kind in bin|bcd|six|text, value bytes (bin) or str
# =============================================================================
BCD_ALPHABET = '0123456789 -.'


def zero_sum(b):
    return (-sum(b)) % 256


def field_payload(f):
    kind, v = f
    if kind == 'bin':
        return bytes(v)
    if kind == 'text':
        return v.encode('latin-1')
    if kind == 'bcd':
        assert len(v) % 2 == 0
        return bytes(BCD_ALPHABET.index(v[i]) << 4 | BCD_ALPHABET.index(v[i + 1]) for i in range(0, len(v), 2))
    if kind == 'six':
        # one little-endian bit string: character k occupies bits 6k..6k+5
        acc = 0
        for k, ch in enumerate(v):
            acc |= (ord(ch) - 0x20) << (6 * k)
        return acc.to_bytes((6 * len(v) + 7) // 8, 'little')
    raise ValueError(kind)


FTYPE = {'bin': 0, 'bcd': 1, 'six': 2, 'text': 3}


def enc_field(f):
    p = field_payload(f)
    assert len(p) < 64
    return bytes([FTYPE[f[0]] << 6 | len(p)]) + p


def enc_area(a, dated):
    body = bytes([a['b2']])
    if dated:
        body += a['minutes'].to_bytes(3, 'little')
    for f in a['fields'] + a['custom']:
        body += enc_field(f)
    body += b'\xc1'
    blocks = (2 + len(body) + 1 + 7) // 8
    pre = bytes([1, blocks]) + body
    pre += bytes(blocks * 8 - len(pre) - 1)
    return pre + bytes([zero_sum(pre)])


def enc_rec(r, last):
    t, p = r
    h = bytes([t, (0x80 if last else 0) | 2, len(p), zero_sum(p)])
    return h + bytes([zero_sum(h)]) + p


def enc_inventory(inv):
    """-> (image, layout).  layout: name -> (start, length) of every checksummed region,
    'areas' for the info areas, 'records' list of (start, payload length)."""
    parts = [inv['internal']]
    offs = [1 if inv['internal'] else 0]
    pos = 8 + len(inv['internal'])
    layout = {'areas': {}, 'records': []}
    for name, dated in (('chassis', False), ('board', True), ('product', False)):
        a = inv[name]
        if a is None:
            offs.append(0)
            continue
        b = enc_area(a, dated)
        assert pos % 8 == 0 and pos // 8 < 256
        offs.append(pos // 8)
        layout['areas'][name] = (pos, len(b))
        parts.append(b)
        pos += len(b)
    if inv['multi']:
        assert pos % 8 == 0 and pos // 8 < 256
        offs.append(pos // 8)
        for i, r in enumerate(inv['multi']):
            b = enc_rec(r, i == len(inv['multi']) - 1)
            layout['records'].append((pos, len(r[1])))
            parts.append(b)
            pos += len(b)
    else:
        offs.append(0)
    h = bytes([1] + offs + [0])
    return h + bytes([zero_sum(h)]) + b''.join(parts), layout


def starts_ok(inv):
    pos = 8 + len(inv['internal'])
    for name, dated in (('chassis', False), ('board', True), ('product', False)):
        if inv[name] is not None:
            if pos >= 2048:
                return False
            pos += len(enc_area(inv[name], dated))
    return not inv['multi'] or pos < 2048


# ---- what a correct parser reports (canonical observation form), from the inventory ----
def expect_field(off, f):
    p = field_payload(f)
    s = bytes(f[1]) if f[0] == 'bin' else f[1].encode('latin-1')
    return {'off': off, 'type': FTYPE[f[0]], 'len': len(p), 'raw': p.hex(), 'str': s.hex()}


def expect_fields(off, fs):
    out = []
    for f in fs:
        e = expect_field(off, f)
        out.append(e)
        off += e['len'] + 1
    return out


def expect_area(a, dated):
    return {'version': 1, 'length': len(enc_area(a, dated)), 'b2': a['b2'], 'minutes': a['minutes'] if dated else 0,
            'fields': expect_fields(6 if dated else 3, a['fields']), 'custom': expect_fields(0, a['custom'])}


def expect_rec(r, last):
    t, p = r
    e = {'type': t, 'fver': 2, 'eol': last, 'len': len(p), 'raw': p.hex(), 'kind': ['unknown']}
    if t == 0xc0 and len(p) >= 5:
        mfr = int.from_bytes(p[0:3], 'little')
        e['fver'] = p[4]
        if p[3] == 0x27 and len(p) >= 7:
            e['kind'] = ['power', mfr, p[3], int.from_bytes(p[5:7], 'little')]
        else:
            e['kind'] = ['picmg', mfr, p[3]]
    return e


def expect_inventory(inv, layout):
    hdr = {'version': 1, 'internal': 8 if inv['internal'] else 0, 'multi': 0}
    out = {'header': hdr}
    for name, dated in (('chassis', False), ('board', True), ('product', False)):
        hdr[name] = layout['areas'][name][0] if inv[name] is not None else 0
        out[name] = expect_area(inv[name], dated) if inv[name] is not None else 'absent'
    if inv['multi']:
        hdr['multi'] = layout['records'][0][0]
        out['multi'] = [expect_rec(r, i == len(inv['multi']) - 1) for i, r in enumerate(inv['multi'])]
    else:
        out['multi'] = 'absent'
    return out


# =============================================================================
# observation of the implementation (canonical form)
# =============================================================================
AREA_FIELDS = {
    'chassis': ['part_number', 'serial_number'],
    'board': ['manufacturer', 'product_name', 'serial_number', 'part_number', 'fru_file_id'],
    'product': ['manufacturer', 'name', 'part_number', 'version', 'serial_number', 'asset_tag', 'fru_file_id'],
}


def str_canon(x):
    """a decoded string as hex of its code points; 'cp:..' when one is above 255 (cannot be right)"""
    if not isinstance(x, str):
        return 'not-a-str:%s' % type(x).__name__
    if all(ord(c) < 256 for c in x):
        return x.encode('latin-1').hex()
    return 'cp:' + ','.join(str(ord(c)) for c in x)


def obs_field(f):
    return {'off': f.offset, 'type': f.field_type, 'len': f.length, 'raw': bytes(bytearray(f.raw)).hex(),
            'str': str_canon(f.string)}


def obs_area(a, name):
    if a is None:
        return 'absent'
    if not hasattr(a, 'format_version'):
        return 'shell'
    minutes = 0
    if name == 'board':
        delta = a.mfg_date - EPOCH
        minutes, rem = divmod(delta, datetime.timedelta(minutes=1))
        if rem:
            raise AssertionError('mfg_date is not a whole number of minutes')
    return {'version': a.format_version, 'length': a.length,
            'b2': a.type if name == 'chassis' else a.language_code, 'minutes': minutes,
            'fields': [obs_field(getattr(a, n)) for n in AREA_FIELDS[name]],
            'custom': [obs_field(f) for f in (a.custom_chassis_info if name == 'chassis' else a.custom_mfg_info)]}


def obs_rec(r):
    fru = _fru()
    e = {'type': r.record_type_id, 'fver': r.format_version, 'eol': r.end_of_list, 'len': r.length,
         'raw': bytes(bytearray(r.raw)).hex(), 'kind': ['unknown']}
    if isinstance(r, fru.FruPicmgPowerModuleCapabilityRecord):
        cur10 = int(round(r.maximum_current_output * 10))
        if not isinstance(r.maximum_current_output, float) or r.maximum_current_output != cur10 / 10:
            raise AssertionError('maximum_current_output is not n/10')
        e['kind'] = ['power', r.manufacturer_id, r.picmg_record_type_id, cur10]
    elif isinstance(r, fru.FruPicmgRecord):
        e['kind'] = ['picmg', r.manufacturer_id, r.picmg_record_type_id]
    elif type(r) is not fru.FruDataUnknown:
        raise AssertionError('unexpected record class %s' % type(r).__name__)
    return e


def obs_multi(m):
    if m is None:
        return 'absent'
    if not hasattr(m, 'records'):
        return 'shell'
    return [obs_rec(r) for r in m.records]


def obs_inventory(o):
    if not hasattr(o, 'common_header'):
        return None
    h = o.common_header
    return {'header': {'version': h.format_version, 'internal': h.internal_use_area_offset or 0,
                       'chassis': h.chassis_info_area_offset or 0, 'board': h.board_info_area_offset or 0,
                       'product': h.product_info_area_offset or 0, 'multi': h.multirecord_area_offset or 0},
            'chassis': obs_area(o.chassis_info_area, 'chassis'), 'board': obs_area(o.board_info_area, 'board'),
            'product': obs_area(o.product_info_area, 'product'), 'multi': obs_multi(o.multirecord_area)}


def exc_name(e):
    n = C.exc_class(e)
    if n != 'OtherError':
        return n
    for cls, nm in ((IndexError, 'IndexError'), (AttributeError, 'AttributeError'), (ValueError, 'ValueError'),
                    (TypeError, 'TypeError'), (KeyError, 'KeyError')):
        if isinstance(e, cls):
            return nm
    return 'OtherExc'


def as_kind(img, kind):
    if kind == 'bytes':
        return bytes(img)
    if kind == 'array':
        return array.array('B', img)
    if kind == 'list':
        return list(img)
    raise ValueError(kind)


def parse_impl(img, kind):
    """-> ('ok', observation) | ('exc', name)"""
    fru = _fru()
    try:
        if kind == 'file':
            TMP.mkdir(parents=True, exist_ok=True)
            p = TMP / ('img-%d.bin' % os.getpid())
            p.write_bytes(bytes(img))
            try:
                o = fru.get_fru_inventory_from_file(str(p))
            finally:
                p.unlink()
        else:
            o = fru.FruInventory(as_kind(img, kind))
        return ('ok', obs_inventory(o))
    except AssertionError:
        raise
    except Exception as e:  # noqa
        return ('exc', exc_name(e))


def parse_part(what, data, kind):
    """the area classes on exact slices (as Fru.get_fru_*_area builds them)"""
    fru = _fru()
    try:
        d = as_kind(data, kind)
        if what == 'multi':
            return ('ok', obs_multi(fru.InventoryMultiRecordArea(d)))
        cls = {'chassis': fru.InventoryChassisInfoArea, 'board': fru.InventoryBoardInfoArea,
               'product': fru.InventoryProductInfoArea}[what]
        return ('ok', obs_area(cls(d), what))
    except AssertionError:
        raise
    except Exception as e:  # noqa
        return ('exc', exc_name(e))


def tls_impl(data, off, kind):
    from pyipmi.fields import FruTypeLengthString
    try:
        f = FruTypeLengthString(as_kind(data, kind), off)
        return ('ok', obs_field(f))
    except Exception as e:  # noqa
        return ('exc', exc_name(e))


# =============================================================================
# Coq literals
# =============================================================================
def hexs(h):
    return '(hx "%s")' % h


def c_err(name):
    if name in ('DecodingError', 'EncodingError'):
        return name
    if name.startswith('CCError'):
        return '(CCError %s)' % name.split()[1]
    if name in ('IndexError', 'AttributeError', 'ValueError', 'TypeError', 'KeyError'):
        return '(OtherError %s)' % name
    return '(OtherError OtherExc)'


def c_obs_field(f):
    st = f['str']
    if st.startswith('cp:'):
        cst = C.c_list(st[3:].split(','))
    elif st.startswith('not-a-str'):
        cst = '[999999]'
    else:
        cst = hexs(st)
    return '(mkF %d %d %d %s %s)' % (f['off'], f['type'], f['len'], hexs(f['raw']), cst)


def c_obs_area(a):
    if a == 'absent':
        return 'Absent'
    if a == 'shell':
        return 'Shell'
    return '(Parsed (mkArea %d %d %d %d %s %s))' % (
        a['version'], a['length'], a['b2'], a['minutes'],
        C.c_list([c_obs_field(f) for f in a['fields']]), C.c_list([c_obs_field(f) for f in a['custom']]))


def c_obs_rec(r):
    k = r['kind']
    kind = {'unknown': 'KUnknown', 'picmg': '(KPicmg %s)', 'power': '(KPower %s)'}[k[0]]
    if k[0] != 'unknown':
        kind = kind % ' '.join(str(x) for x in k[1:])
    return '(mkRec %d %d %s %d %s %s)' % (r['type'], r['fver'], C.c_bool(r['eol']), r['len'], hexs(r['raw']), kind)


def c_obs_multi(m):
    if m == 'absent':
        return 'MAbsent'
    if m == 'shell':
        return 'MShell'
    return '(MParsed %s)' % C.c_list([c_obs_rec(r) for r in m])


def c_obs_inventory(o):
    if o is None:
        return 'None'
    h = o['header']
    return '(Some (mkInv (mkHeader %d %d %d %d %d %d) %s %s %s %s))' % (
        h['version'], h['internal'], h['chassis'], h['board'], h['product'], h['multi'],
        c_obs_area(o['chassis']), c_obs_area(o['board']), c_obs_area(o['product']), c_obs_multi(o['multi']))


def c_outcome(r, printer):
    return '(Ok %s)' % printer(r[1]) if r[0] == 'ok' else '(Err %s)' % c_err(r[1])


def c_sfield(f):
    kind, v = f
    ctor = {'bin': 'SBin', 'bcd': 'SBcd', 'six': 'S6', 'text': 'SText'}[kind]
    b = bytes(v) if kind == 'bin' else v.encode('latin-1')
    return '(%s %s)' % (ctor, hexs(b.hex()))


def c_sarea(a):
    if a is None:
        return 'None'
    return '(Some (mkSArea %d %d %s %s))' % (a['b2'], a['minutes'], C.c_list([c_sfield(f) for f in a['fields']]),
                                             C.c_list([c_sfield(f) for f in a['custom']]))


def c_sinv(inv):
    return '(mkSInv %s %s %s %s %s)' % (
        hexs(inv['internal'].hex()), c_sarea(inv['chassis']), c_sarea(inv['board']), c_sarea(inv['product']),
        C.c_list(['(mkSRec %d %s)' % (t, hexs(p.hex())) for t, p in inv['multi']]))


# =============================================================================
# generators
# =============================================================================
# content of binary / 8-bit fields that a decoder with ANY interpretation beyond chr(byte) gets wrong:
# escape sequences of every flavour, format directives, control characters, high bytes, broken UTF-8
EDGE_CONTENT = [
    b'\\u0037', b'Board \\u0037', b'\\U0001F600', b'\\U0001f600!', b'\\u', b'\\U', b'\\u12', b'\\U0000', b'\\uD800',
    b'\\x41', b'\\x4', b'\\n', b'\\t', b'\\0', b'\\101', b'\\N{DASH}', b'\\', b'\\\\', b'\\\\u0041', b'a\\', b'\\\\srv\\upload',
    b'C:\\Users\\u', b'C:\\Users\\Public', b'D:\\Updates\\x86', b'%s', b'%d%%', b'%(x)s', b'{0}', b'{}', b'{name!r}', b'$HOME', b'`id`',
    b'\x00', b'\x00\x00', b'ab\x00cd', b'\r\n', b'line1\nline2', b'\x1b[0m', b'\x7f', b'\x80', b'\xff', b'\xfe\xff', b'\xff\xfe',
    b'\xef\xbb\xbf', b'\xc3\xa9', b'\xc3', b'\xe2\x82', b'\xf0\x9f\x98\x80', b'\xed\xa0\x80', b'\xc0\x80', b'\x80\x81\x82\xfd',
    b'caf\xe9', b'\xa0price\xa4', b'&amp;', b'<b>', b'"quoted"', b"it's", b'a,b;c', b' lead', b'trail ', b'\xc1', b'\xc1\xc1',
]
BIASED = b'\\\\\\\\uUuUxxNn0123456789abcdefABCDEF%%{{}}s$\x00\r\n'


def biased_bytes(rng, n):
    """n bytes biased towards backslash, u U x N, hex digits, % { } and a few controls"""
    return bytes(rng.choice(BIASED) if rng.random() < 0.75 else rng.randrange(256) for _ in range(n))


def edge_bytes(rng, hi):
    """an entry of EDGE_CONTENT, bare or embedded in a longer field of at most hi bytes"""
    e = rng.choice(EDGE_CONTENT)
    if len(e) > hi:
        return biased_bytes(rng, hi)
    r = rng.random()
    if r < 0.4:
        return e
    pre = biased_bytes(rng, rng.randrange(0, max(1, (hi - len(e)) // 2 + 1))) if r < 0.7 else b'Board '[:max(0, hi - len(e))]
    post = biased_bytes(rng, rng.randrange(0, max(1, hi - len(e) - len(pre) + 1)))
    return (pre + e + post)[:hi]


def rand_field(rng, small=False, custom=False, kinds=('bin', 'bcd', 'six', 'text'), edgy=0.35):
    kind = rng.choice(kinds)
    hi = 6 if small else 63
    n = rng.randrange(0, hi + 1) if rng.random() < 0.5 else rng.randrange(0, min(hi, 9) + 1)
    if kind in ('bin', 'text'):
        r = rng.random()
        if r < edgy / 2:
            b = edge_bytes(rng, max(hi, 12))
        elif r < edgy:
            b = biased_bytes(rng, n)
        else:
            b = bytes(rng.randrange(256) for _ in range(n))
        if kind == 'bin':
            return (kind, b)
        if custom and len(b) == 1:
            b = b + b'\\'                  # 0xC1 is the end-of-fields byte: no 1-byte text custom field
        return (kind, b.decode('latin-1'))
    if kind == 'bcd':
        return (kind, ''.join(rng.choice(BCD_ALPHABET) for _ in range(2 * n)))
    # six: n bytes hold 8n//6 characters; a character count of 3 mod 4 is not expressible
    k = n * 8 // 6
    if k % 4 == 3:
        k -= 1
    return (kind, ''.join(chr(0x20 + rng.randrange(64)) for _ in range(k)))


def rand_area(rng, name, small=False, kinds=('bin', 'bcd', 'six', 'text')):
    ncust = rng.choice([0, 0, 1, 2, 3, 8]) if not small else rng.choice([0, 1, 2])
    return {'b2': rng.randrange(256), 'minutes': rng.randrange(1 << 24) if name == 'board' else 0,
            'fields': [rand_field(rng, small, False, kinds) for _ in AREA_FIELDS[name]],
            'custom': [rand_field(rng, small, True, kinds) for _ in range(ncust)]}


def rand_rec(rng, small=False):
    style = rng.choice(['plain', 'plain', 'picmg', 'power'])
    n = rng.randrange(0, 12) if small or rng.random() < 0.6 else rng.randrange(0, 256)
    if style == 'plain':
        t = rng.choice([0, 1, 2, 3, 4, 5, 0x0c, 0xc1, 0xd0, 0xff, rng.randrange(256)])
        if t == 0xc0:
            t = 0xc2
        return (t, bytes(rng.randrange(256) for _ in range(n)))
    mfr = b'\x5a\x31\x00' if rng.random() < 0.7 else bytes(rng.randrange(256) for _ in range(3))
    if style == 'power':
        return (0xc0, mfr + bytes([0x27, rng.randrange(256)]) + rng.randrange(65536).to_bytes(2, 'little')
                + bytes(rng.randrange(256) for _ in range(n % 5)))
    pid = rng.choice([0x04, 0x10, 0x16, 0x19, 0x2d, rng.randrange(256)])
    if pid == 0x27:
        pid = 0x26
    return (0xc0, mfr + bytes([pid, rng.randrange(256)]) + bytes(rng.randrange(256) for _ in range(min(n, 250))))


def rand_inventory(rng, small=False, kinds=('bin', 'bcd', 'six', 'text'), subset=None):
    while True:
        if subset is None:
            subset = rng.randrange(32)
        inv = {'internal': bytes(rng.randrange(256) for _ in range(8 * rng.choice([1, 1, 2, 8]))) if subset & 1 else b'',
               'chassis': rand_area(rng, 'chassis', small, kinds) if subset & 2 else None,
               'board': rand_area(rng, 'board', small, kinds) if subset & 4 else None,
               'product': rand_area(rng, 'product', small, kinds) if subset & 8 else None,
               'multi': [rand_rec(rng, small) for _ in range(rng.choice([1, 1, 2, 3, 8]) if not small
                                                             else rng.choice([1, 2, 3]))] if subset & 16 else []}
        if starts_ok(inv):
            return inv
        small = True


def has_kind(inv, pred):
    for name in ('chassis', 'board', 'product'):
        if inv[name] is not None:
            for f in inv[name]['fields'] + inv[name]['custom']:
                if pred(f):
                    return True
    return False


def first_diff(a, b, path=''):
    """path of the first difference between two canonical observations"""
    if type(a) is not type(b):
        return path or '.'
    if isinstance(a, dict):
        for k in a:
            if k not in b:
                return path + '.' + k
            d = first_diff(a[k], b[k], path + '.' + k)
            if d:
                return d
        return None
    if isinstance(a, list):
        if len(a) != len(b):
            return path + '.len'
        for i, (x, y) in enumerate(zip(a, b)):
            d = first_diff(x, y, path + '[]')
            if d:
                return d
        return None
    return None if a == b else (path or '.')


# =============================================================================
# oracles (the property, on the implementation)
# =============================================================================
def oracle_parse(inp):
    """an encoded inventory is parsed to exactly the encoded values"""
    got = parse_impl(bytes.fromhex(inp['image']), inp['kind'])
    if got[0] == 'exc':
        return 'well-formed image (%s) raises %s' % (inp['kind'], got[1])
    d = first_diff(inp['expect'], got[1])
    return None if d is None else 'well-formed image (%s): parsed value differs from the encoded one at %s' % (inp['kind'], d)


def short_c0(t, n, p3):
    """a type-0xC0 record too short for what pyipmi decodes it as (class of finding F15c)"""
    return t == 0xc0 and (n < 5 or (p3 == 0x27 and n < 7))


def oracle_parse_c0(inp):
    """as oracle_parse; for the short type-0xC0 records only type, version, end-of-list,
    length and payload are required (the PICMG members are not encoded in them)"""
    got = parse_impl(bytes.fromhex(inp['image']), inp['kind'])
    if got[0] == 'exc':
        return 'well-formed image with a short type-0xC0 OEM record (%s) raises %s' % (inp['kind'], got[1])
    exp = inp['expect']
    if isinstance(got[1], dict) and isinstance(got[1].get('multi'), list) and len(got[1]['multi']) == len(exp['multi']):
        for e, g in zip(exp['multi'], got[1]['multi']):
            raw = bytes.fromhex(e['raw'])
            if short_c0(e['type'], e['len'], raw[3] if len(raw) > 3 else None):
                g['kind'] = e['kind']
    d = first_diff(exp, got[1])
    return None if d is None else 'image with a short type-0xC0 OEM record (%s): parsed value differs from the encoded one at %s' % (inp['kind'], d)


def oracle_field(inp):
    got = tls_impl(bytes.fromhex(inp['data']), inp['off'], inp['kind'])
    if got[0] == 'exc':
        return 'type/length field %s (%s input) raises %s' % (inp['data'][:2 * inp['off'] + 2][-2:], inp['kind'], got[1])
    d = first_diff(inp['expect'], got[1])
    return None if d is None else 'type/length field (%s input): decoded %s differs from the encoded value' % (inp['kind'], d)


def oracle_altered(inp):
    """a byte inside a checksummed region (whose extent is unchanged) was altered: must not be accepted"""
    got = parse_impl(bytes.fromhex(inp['image']), inp['kind'])
    return None if got[0] == 'exc' else 'image accepted although byte %d (%s) was altered' % (inp['pos'], inp['region'])


def oracle_part(inp):
    got = parse_part(inp['what'], bytes.fromhex(inp['data']), inp['kind'])
    if got[0] == 'exc':
        return '%s area class on the exact area slice raises %s' % (inp['what'], got[1])
    d = first_diff(inp['expect'], got[1])
    return None if d is None else '%s area class on the exact slice: %s differs from the encoded value' % (inp['what'], d)


# =============================================================================
# device path, with history: ONE Ipmi object (or a few) reading FRU devices whose content changes
# =============================================================================
KEY_HIST = 'Fru.get_fru_inventory:result-depends-on-what-the-same-Ipmi-object-read-earlier'
KEY_DEV = 'Fru.get_fru_inventory:device-image-misparsed'


def inv_to_json(inv):
    def fld(f):
        return [f[0], (bytes(f[1]) if f[0] == 'bin' else f[1].encode('latin-1')).hex()]

    def area(a):
        return None if a is None else {'b2': a['b2'], 'minutes': a['minutes'], 'fields': [fld(f) for f in a['fields']],
                                       'custom': [fld(f) for f in a['custom']]}
    return {'internal': inv['internal'].hex(), 'chassis': area(inv['chassis']), 'board': area(inv['board']),
            'product': area(inv['product']), 'multi': [[t, p.hex()] for t, p in inv['multi']]}


def inv_from_json(j):
    def fld(f):
        b = bytes.fromhex(f[1])
        return (f[0], b if f[0] == 'bin' else b.decode('latin-1'))

    def area(a):
        return None if a is None else {'b2': a['b2'], 'minutes': a['minutes'], 'fields': [fld(f) for f in a['fields']],
                                       'custom': [fld(f) for f in a['custom']]}
    return {'internal': bytes.fromhex(j['internal']), 'chassis': area(j['chassis']), 'board': area(j['board']),
            'product': area(j['product']), 'multi': [(t, bytes.fromhex(p)) for t, p in j['multi']]}


class FruDevices:
    """reference FRU devices (one memory per fru id) behind Get FRU Inventory Area Info (0x10),
    Read FRU Data (0x11), Write FRU Data (0x12) of NetFn Storage; a read past the end answers 0xC9"""

    def __init__(self):
        self.mem = {}
        self.maxret = 255    # a conforming device may answer a read with FEWER bytes than asked ("count returned")

    def handler(self, netfn, cmd, lun, data, req):
        if netfn != 0x0a or not data or data[0] not in self.mem:
            return bytes([0xcb])
        m = self.mem[data[0]]
        if cmd == 0x10:
            return bytes([0, len(m) & 0xff, len(m) >> 8, 0])
        if cmd == 0x11 and len(data) == 4:
            off, n = data[1] | data[2] << 8, data[3]
            if off + n > len(m):
                return bytes([0xc9])
            n = min(n, self.maxret) if n else n
            return bytes([0, n]) + bytes(m[off:off + n])
        if cmd == 0x12 and len(data) >= 3:
            off, d = data[1] | data[2] << 8, data[3:]
            if off > len(m):
                return bytes([0xc9])
            m[off:off + len(d)] = d
            return bytes([0, len(d)])
        return bytes([0xc1])


def obs_device(o):
    """Ipmi.get_fru_inventory result: the four areas (the object has no common_header)"""
    return {'chassis': obs_area(o.chassis_info_area, 'chassis'), 'board': obs_area(o.board_info_area, 'board'),
            'product': obs_area(o.product_info_area, 'product'), 'multi': obs_multi(o.multirecord_area)}


def run_history(calls, on_read=None):
    """calls: {'op':'set'|'write'|'read', 'fru':n, 'obj':k, 'inv':json}.  set = the device content is replaced
    (hot swap / other programmer); write = obj k re-programs the device with Fru.write_fru_data; read = obj k
    calls get_fru_inventory(fru).  Every read is judged against the inventory the device holds at that moment.
    Returns (message, index, fresh_ok) of the first failing read or None."""
    from . import fakeif
    dev = FruDevices()
    cur = {}
    objs = {}

    def obj(k):
        if k not in objs:
            objs[k] = fakeif.connect(dev.handler)
        return objs[k][0]

    def read(ipmi, fru):
        try:
            return ('ok', obs_device(ipmi.get_fru_inventory(fru_id=fru)))
        except AssertionError:
            raise
        except Exception as e:  # noqa
            return ('exc', exc_name(e))

    for n, c in enumerate(calls):
        if c['op'] == 'dev':      # the device answers reads with at most this many bytes from now on
            dev.maxret = max(1, int(c['maxret']))
            continue
        fru = c['fru']
        if c['op'] in ('set', 'write'):
            inv = inv_from_json(c['inv'])
            img, layout = enc_inventory(inv)
            exp = expect_inventory(inv, layout)
            del exp['header']
            if c['op'] == 'set' or fru not in dev.mem:
                dev.mem[fru] = bytearray(img)
            else:
                obj(c['obj']).write_fru_data(img, 0, fru)
                if bytes(dev.mem[fru][:len(img)]) != img:
                    return ('write_fru_data did not store the image (call %d)' % n, n, True)
            cur[fru] = exp
        elif fru in cur:
            ipmi = obj(c['obj'])
            log = objs[c['obj']][1].log
            start = len(log)
            got = read(ipmi, fru)
            if on_read:
                on_read(n, bytes(dev.mem[fru]), got, fru, log[start:])
            bad = None
            if got[0] == 'exc':
                bad = 'raises %s' % got[1]
            else:
                d = first_diff(cur[fru], got[1])
                if d:
                    bad = 'reports a value that is not the encoded one at %s' % d
            if bad:
                fresh = read(fakeif.connect(dev.handler)[0], fru)
                fresh_ok = fresh[0] == 'ok' and first_diff(cur[fru], fresh[1]) is None
                return ('call %d: get_fru_inventory(fru_id=%d) of Ipmi object %d on a well-formed device image %s%s'
                        % (n, fru, c['obj'], bad,
                           ' - a fresh Ipmi object parses the same device correctly' if fresh_ok else ''), n, fresh_ok)
    return None


def oracle_device_history(inp):
    r = run_history(inp['calls'])
    return None if r is None else r[0]


ORACLES = {'device_history': oracle_device_history, 'part': oracle_part, 'parse': oracle_parse, 'parse_c0': oracle_parse_c0, 'field': oracle_field, 'altered': oracle_altered}


def replay(data):
    r = data['replay']
    return ORACLES[r['oracle']](r['input']) is None


def covered_regions(layout):
    """position -> region name, for every byte under a zero-sum checksum whose region extent
    does not depend on that byte (the area length byte is left out)"""
    cov = {i: 'common header' for i in range(8)}
    for name, (start, n) in layout['areas'].items():
        for i in range(start, start + n):
            if i != start + 1:
                cov[i] = '%s info area' % name
    for start, n in layout['records']:
        for i in range(start, start + 5):
            cov[i] = 'multi-record header'
        for i in range(start + 5, start + 5 + n):
            cov[i] = 'multi-record body'
    return cov


# =============================================================================
def run(ctx):
    rng = ctx.rng
    q = ctx.quick
    res = C.Result(model_map=MODEL_MAP)
    D = C.Distinct()
    terms, meta = [], []
    fails = {}

    def add(term, info):
        terms.append(term)
        meta.append(info)

    def oracle(name, inp, key):
        msg = ORACLES[name](inp)
        res.evaluations += 1
        if msg and key not in fails:
            fails[key] = C.Violation(key=key, what=msg, replay={'oracle': name, 'input': inp})
        return msg

    # ---- 1. single type/length fields: every type x every length 0..63, bytes and array input
    for kind in ('bin', 'bcd', 'six', 'text'):
        for n in range(64):
            for rep in range(1 if q else 4):
                if kind == 'bin':
                    f = (kind, bytes(rng.randrange(256) for _ in range(n)))
                elif kind == 'text':
                    f = (kind, ''.join(chr(rng.randrange(256)) for _ in range(n)))
                elif kind == 'bcd':
                    f = (kind, ''.join(rng.choice(BCD_ALPHABET) for _ in range(2 * n)))
                else:
                    k = n * 8 // 6
                    if k % 4 == 3:
                        # not expressible; use the n-byte encoding of k-1 characters + explicit space
                        f = (kind, ''.join(chr(0x20 + rng.randrange(64)) for _ in range(k - 1)) + ' ')
                    else:
                        f = (kind, ''.join(chr(0x20 + rng.randrange(64)) for _ in range(k)))
                off = rng.randrange(0, 4)
                data = bytes(rng.randrange(256) for _ in range(off)) + enc_field(f) + bytes(rng.randrange(256) for _ in range(rng.randrange(3)))
                if len(field_payload(f)) != n:
                    raise AssertionError('generator: payload length')
                exp = expect_field(off, f)
                for ik in ('bytes', 'array'):
                    got = tls_impl(data, off, ik)
                    add('chk_tls %s %d %s' % (C.c_hex(data), off, c_outcome(got, c_obs_field)), ('tls', kind, n, ik, data.hex()))
                    key = 'TypeLengthString:%s:%s' % (kind, ik)
                    if kind == 'bcd' and ik != 'bytes':
                        key = KEY_F15A
                    if kind == 'six' and n % 3 != 0:
                        key = KEY_F15B
                    oracle('field', {'data': data.hex(), 'off': off, 'kind': ik, 'expect': exp}, key)
                D.add(('tls', data, off), n > 0, 'field-' + kind)
    # binary / 8-bit fields whose content looks like something a decoder might interpret: every byte value
    # as a 1-byte field, every pair (0x5c, x) and (x, 0x5c), the escape corpus bare and embedded, biased random
    edge = [bytes([x]) for x in range(256)] + [bytes([0x5c, x]) for x in range(256)] + [bytes([x, 0x5c]) for x in range(256)]
    edge += list(EDGE_CONTENT)
    edge += [edge_bytes(rng, 63) for _ in range(150 if q else 1500)]
    edge += [biased_bytes(rng, rng.randrange(2, 64)) for _ in range(150 if q else 1500)]
    for i, b in enumerate(edge):
        for kind in ('text', 'bin'):
            f = (kind, b if kind == 'bin' else b.decode('latin-1'))
            off = i % 3
            data = bytes(rng.randrange(256) for _ in range(off)) + enc_field(f) + bytes(rng.randrange(256) for _ in range(i % 2))
            exp = expect_field(off, f)
            for ik in (('bytes', 'array') if kind == 'text' or i % 4 == 0 else ('bytes',)):
                got = tls_impl(data, off, ik)
                add('chk_tls %s %d %s' % (C.c_hex(data), off, c_outcome(got, c_obs_field)), ('tls-edge', kind, ik, data.hex()))
                oracle('field', {'data': data.hex(), 'off': off, 'kind': ik, 'expect': exp},
                       'TypeLengthString:%s:content-interpreted' % kind)
        D.add(('tlse', b), True, 'field-edge-content')
    # malformed fields: arbitrary bytes incl. invalid BCD digits, truncated data, offset at/after the end
    for _ in range(150 if q else 1500):
        n = rng.randrange(0, 12)
        data = bytes(rng.randrange(256) for _ in range(n))
        off = rng.randrange(0, n + 2)
        for ik in ('bytes', 'array'):
            if not data:
                continue     # "if data:" - no attributes at all; not a parse
            got = tls_impl(data, off, ik)
            add('chk_tls %s %d %s' % (C.c_hex(data), off, c_outcome(got, c_obs_field)), ('tls-malformed', ik, data.hex(), off))
        D.add(('tlsm', data, off), True, 'field-malformed')

    # ---- 2. encoded inventories: all 32 area subsets, then random; three input forms
    n_inv = 150 if q else 2000
    invs = [rand_inventory(rng, small=(i % 3 == 0), subset=i % 32) for i in range(64)]
    invs += [rand_inventory(rng, small=(rng.random() < 0.4)) for _ in range(n_inv - 64)]
    # single-encoding inventories (so that a defect in one encoding cannot hide another)
    for kinds in (('bin',), ('text',), ('bcd',), ('six',), ('bin', 'text')):
        invs += [rand_inventory(rng, small=True, kinds=kinds, subset=rng.choice([2, 4, 8, 14, 30])) for _ in range(6 if q else 40)]
    # every binary / 8-bit field of every area, custom fields included, from the escape corpus / biased generator
    for k in range(40 if q else 400):
        inv = rand_inventory(rng, small=True, kinds=('text', 'bin') if k % 4 else ('text',), subset=[2, 4, 8, 14, 30, 31][k % 6])
        for name in ('chassis', 'board', 'product'):
            a = inv[name]
            if a is None:
                continue
            if not a['custom']:
                a['custom'] = [('text', 'x\\')]
            for lst, cust in ((a['fields'], False), (a['custom'], True)):
                for j in range(len(lst)):
                    knd = lst[j][0]
                    b = edge_bytes(rng, 16) if rng.random() < 0.7 else biased_bytes(rng, rng.randrange(0, 10))
                    if knd == 'text' and cust and len(b) == 1:
                        b += b'\\'
                    lst[j] = (knd, b if knd == 'bin' else b.decode('latin-1'))
        if starts_ok(inv):
            invs.append(inv)
    for inv in invs:
        img, layout = enc_inventory(inv)
        exp = expect_inventory(inv, layout)
        add('chk_enc %s %s' % (c_sinv(inv), C.c_hex(img)), ('enc', img.hex()))
        seen = {}
        for ik in ('bytes', 'array', 'file'):
            got = parse_impl(img, ik)
            seen.setdefault(repr(got), (got, ik))
            key = None
            if got[0] == 'exc' and got[1] == 'AttributeError' and ik != 'bytes' and has_kind(inv, lambda f: f[0] == 'bcd'):
                key = KEY_F15A
            elif got[0] == 'exc' and got[1] == 'IndexError' and has_kind(inv, lambda f: f[0] == 'six' and len(field_payload(f)) % 3):
                key = KEY_F15B
            elif got[0] == 'exc':
                key = 'FruInventory:well-formed-image-raises-%s' % got[1]
            elif first_diff(exp, got[1]):
                key = 'FruInventory:wrong-value:%s' % first_diff(exp, got[1])
            if key and key not in fails:
                oracle('parse', {'image': img.hex(), 'kind': ik, 'expect': exp}, key)
            else:
                res.evaluations += 1
        for got, ik in seen.values():
            add('chk_parse %s %s' % (C.c_hex(img), c_outcome(got, c_obs_inventory)), ('parse', ik, img.hex()))
        D.add(('inv', img), True, 'inventory-%d-areas' % sum(1 for k in ('chassis', 'board', 'product') if inv[k]) +
              ('+mr' if inv['multi'] else ''))
        # device path: the area classes on exact slices
        if len(terms) < (6000 if q else 60000):
            for name, (start, n) in layout['areas'].items():
                got = parse_part(name, img[start:start + n], 'bytes')
                add('chk_area %d %s %s' % ({'chassis': 0, 'board': 1, 'product': 2}[name], C.c_hex(img[start:start + n]),
                                           c_outcome(got, c_obs_area)), ('area-slice', name, img[start:start + n].hex()))
                if 'slice:' + name not in fails and not (got[0] == 'exc' and (KEY_F15A in fails or KEY_F15B in fails)):
                    oracle('part', {'what': name, 'data': img[start:start + n].hex(), 'kind': 'bytes', 'expect': exp[name]},
                           '%s-area-class-on-exact-slice' % name)
            if inv['multi']:
                start = layout['records'][0][0]
                got = parse_part('multi', img[start:], 'array')
                add('chk_multi %s %s' % (C.c_hex(img[start:]), c_outcome(got, c_obs_multi)), ('multi-slice', img[start:].hex()))

    # ---- 3. the class of the known finding F15c: type-0xC0 records shorter than the PICMG structure
    # pyipmi decodes them as (outside wf_inv, inside wf_inv_full).  Encoders compared, model<->implementation
    # compared, and the oracle demands type/version/end-of-list/length/payload as encoded.
    for _ in range(20 if q else 200):
        inv = rand_inventory(rng, small=True, subset=rng.choice([16, 20, 24]))
        k = rng.randrange(len(inv['multi']))
        inv['multi'][k] = (0xc0, bytes(rng.randrange(256) for _ in range(rng.randrange(0, 5))))
        if rng.random() < 0.3:
            inv['multi'][k] = (0xc0, b'\x5a\x31\x00\x27' + bytes(rng.randrange(256) for _ in range(rng.randrange(0, 3))))
        img0, layout = enc_inventory(inv)
        exp = expect_inventory(inv, layout)
        img = img0 + bytes(rng.randrange(256) for _ in range(rng.choice([0, 0, 1, 4, 9])))
        add('chk_enc_only %s %s' % (c_sinv(inv), C.c_hex(img0)), ('enc-only', img0.hex()))
        for ik in ('bytes', 'array'):
            add('chk_parse %s %s' % (C.c_hex(img), c_outcome(parse_impl(img, ik), c_obs_inventory)), ('parse-short-c0', ik, img.hex()))
            oracle('parse_c0', {'image': img.hex(), 'kind': ik, 'expect': exp}, KEY_F15C)
        D.add(('c0', img), True, 'inventory-short-0xC0-record')

    # ---- 4. the real images of the test-suite
    for p in sorted((C.REPO / 'tests' / 'fru_bin').glob('*.bin')):
        img = p.read_bytes()
        seen = {}
        for ik in ('bytes', 'array', 'file'):
            got = parse_impl(img, ik)
            seen.setdefault(repr(got), (got, ik))
            if got[0] == 'exc':
                k = 'real-image:%s:%s' % (p.name, got[1])
                fails.setdefault(k, C.Violation(key=k, what='vendor image %s (%s) raises %s' % (p.name, ik, got[1]),
                                                replay={'oracle': 'parse', 'input': {'image': img.hex(), 'kind': ik, 'expect': {}}}))
        if len(seen) > 1:
            k = 'real-image:%s:input-forms-differ' % p.name
            fails.setdefault(k, C.Violation(key=k, what='vendor image %s parses differently as bytes/array/file' % p.name,
                                            replay={'oracle': 'parse', 'input': {'image': img.hex(), 'kind': 'array', 'expect': seen[min(seen)][0][1] if seen[min(seen)][0][0] == 'ok' else {}}}))
        for got, ik in seen.values():
            add('chk_parse %s %s' % (C.c_hex(img), c_outcome(got, c_obs_inventory)), ('real', p.name, ik))
        D.add(('real', img), True, 'real-image')
        res.evaluations += 3

    # ---- 5. single-byte alterations
    n_alt = 50 if q else 2000
    alt_corr_budget = 2500 if q else 12000
    region_hist = {}
    for k in range(n_alt):
        inv = rand_inventory(rng, small=True, kinds=('bin', 'text') if k % 2 else ('bin', 'bcd', 'six', 'text'),
                             subset=[30, 31, 6, 16, 24, 10, 2, 4, 8, 0][k % 10] if k < 40 else None)
        img, layout = enc_inventory(inv)
        cov = covered_regions(layout)
        ik = ('bytes', 'array', 'file')[k % 3] if q else ('bytes', 'array')[k % 2]
        base = parse_impl(img, 'bytes')
        for i in range(len(img)):
            vals = {img[i] ^ 1, img[i] ^ 0x80, (img[i] + 1) % 256, rng.randrange(256)} - {img[i]}
            if not q and k < 20:
                vals = set(range(256)) - {img[i]}
            for j, b in enumerate(sorted(vals)):
                g = img[:i] + bytes([b]) + img[i + 1:]
                if i in cov:
                    region_hist[cov[i]] = region_hist.get(cov[i], 0) + 1
                    oracle('altered', {'image': g.hex(), 'kind': ik if j == 0 else 'bytes', 'pos': i, 'region': cov[i]},
                           'altered-byte-accepted:%s' % cov[i])
                if j == 0 and alt_corr_budget > 0:
                    alt_corr_budget -= 1
                    add('chk_parse %s %s' % (C.c_hex(g), c_outcome(parse_impl(g, 'bytes'), c_obs_inventory)),
                        ('altered', i, cov.get(i, 'uncovered'), g.hex()))
        D.add(('alt', img), True, 'altered-image-set')

    # ---- 6. malformed stream (correspondence only): truncations, offsets beyond the end,
    # zero-length areas, record lists without end-of-list, random bodies under a valid header
    for k in range(120 if q else 1500):
        inv = rand_inventory(rng, small=True)
        img, layout = enc_inventory(inv)
        mode = k % 6
        if mode == 0:
            g = img[:rng.randrange(0, len(img) + 1)]
        elif mode == 1:
            h = bytearray(img[:8])
            h[rng.randrange(1, 6)] = rng.choice([len(img) // 8, len(img) // 8 + 1, 255, 1, 2])
            h[7] = zero_sum(h[:7])
            g = bytes(h) + img[8:]
        elif mode == 2 and layout['areas']:
            start, n = rng.choice(list(layout['areas'].values()))
            g = bytearray(img)
            g[start + 1] = rng.choice([0, 1, n // 8 + 1, 255])
            g = bytes(g)
        elif mode == 3 and layout['records']:
            start, n = layout['records'][-1]
            g = bytearray(img)
            g[start + 1] &= 0x7f
            g[start + 4] = zero_sum(g[start:start + 4])
            g = bytes(g) + bytes(rng.randrange(256) for _ in range(rng.randrange(0, 8)))
        elif mode == 4:
            h = bytearray(rng.randrange(256) for _ in range(7))
            h[0] = rng.choice([1, 0x11, 0xf1, 2])
            for i in range(1, 6):
                h[i] = rng.choice([0, 0, 1, 2, 3])
            g = bytes(h) + bytes([zero_sum(h)]) + bytes(rng.choice([0, 1, 0xc1, 0xc0, rng.randrange(256)]) for _ in range(rng.randrange(0, 40)))
        else:
            g = bytearray(img)
            for _ in range(rng.randrange(1, 4)):
                g[rng.randrange(len(g))] = rng.randrange(256)
            g = bytes(g)
        for ik in ('bytes', 'array'):
            add('chk_parse %s %s' % (C.c_hex(g), c_outcome(parse_impl(g, ik), c_obs_inventory)), ('malformed', mode, ik, g.hex()))
        D.add(('mal', g), True, 'malformed-%d' % mode)

    # ---- 7. device path with history: Ipmi objects that live across changes of the device content
    def layouts(rng_):
        """inventories with the same area subset but different area offsets"""
        subset = rng_.choice([4, 6, 8, 12, 14, 28, 30, 20])
        return [rand_inventory(rng_, small=True, subset=subset | (1 if k % 2 else 0)) for k in range(4)]

    for hno in range(10 if q else 120):
        frus = rng.sample([0, 1, 2, 5, 17, 254], 2)
        pool = {f: layouts(rng) for f in frus}
        calls = []
        if hno % 2:   # every second history: a device that returns short answers (1..31 bytes per read)
            calls.append({'op': 'dev', 'maxret': rng.choice([1, 2, 3, 5, 7, 8, 15, 16, 20, 31])})
        for f in frus:
            calls.append({'op': 'set', 'fru': f, 'obj': 0, 'inv': inv_to_json(pool[f][0])})
        for f in frus:
            calls.append({'op': 'read', 'fru': f, 'obj': 0})
        for step in range(rng.randrange(4, 9)):
            f = rng.choice(frus)
            o = 0 if step < 3 or rng.random() < 0.6 else 1       # the second object appears later
            calls.append({'op': rng.choice(['set', 'write']), 'fru': f, 'obj': o,
                          'inv': inv_to_json(pool[f][1 + step % 3])})
            calls.append({'op': 'read', 'fru': f, 'obj': o})
            if rng.random() < 0.5:
                calls.append({'op': 'read', 'fru': rng.choice(frus), 'obj': rng.choice([0, 1])})

        def on_read(n, mem, got, fru, exch):
            exp = '(Ok (%s, %s, %s, %s))' % (c_obs_area(got[1]['chassis']), c_obs_area(got[1]['board']),
                                             c_obs_area(got[1]['product']), c_obs_multi(got[1]['multi'])) \
                if got[0] == 'ok' else '(Err %s)' % c_err(got[1])
            add('chk_dev %s %s' % (C.c_hex(mem), exp), ('device-history', hno, n))
            # the composed model client (C10 transfer loops + the area classes) against the recorded replies
            from . import fakeif
            add('chk_dev_replay %s %d %s %s %s' % (C.c_nat(len(mem) // 5 + 2), fru,
                                                   C.c_list([fakeif.c_reply(x) for x in exch]),
                                                   C.c_list([fakeif.c_request(x) for x in exch]), exp),
                ('device-replay', hno, n, len(exch)))
            res.evaluations += 2
        r = run_history(calls, on_read)
        D.add(('hist', repr(calls)), True, 'device-history')
        if r is not None:
            key = KEY_HIST if r[2] else KEY_DEV
            if key not in fails:
                seq = C.shrink_history('C15', 'device_history', calls[:r[1] + 1]) or calls[:r[1] + 1]
                fails[key] = C.Violation(key=key, what=(oracle_device_history({'calls': seq}) or r[0]) +
                                         ' [history of %d call(s)]' % len(seq),
                                         replay={'oracle': 'device_history', 'input': {'calls': seq}})

    failing, errors = C.coq_cases('C15', 'Lib.Prog Model.FruParse Model.FruSpec Corr.C15', terms, shard=250)
    res.mismatches = [{'case': meta[i], 'term': terms[i][:1500]} for i in failing[:50]]
    res.corr_errors = errors
    res.evaluations += len(terms)
    res.distinct_nontrivial = D.distinct
    res.histogram = dict(D.hist, **{'altered:' + k: v for k, v in region_hist.items()})
    res.rule = ('fields: every encoding x every length 0..63 as bytes and array + malformed; binary/8-bit content: every 1-byte value, every pair with 0x5c, escape/format/control/high-byte/broken-UTF-8 corpus bare and embedded, random biased to \\ u U x % {, also inside every area and custom field; inventories from the independent '
                'encoder: all 32 area subsets, random field encodings/lengths, 0..8 custom fields, 1..8 multi-records of 0..255 '
                'bytes incl. PICMG, parsed as bytes, array and file and compared with the encoded values (oracle) and with the '
                'model in Coq; the Coq encoder must give the same bytes; single-byte alterations: per image every position x 3-4 '
                'values (thorough: all 255 for 20 images), rejection required inside checksummed regions; 3 vendor images; '
                'device path: histories of set/write_fru_data/get_fru_inventory over 2 fru ids and 2 Ipmi objects (every second history on a device that answers reads with fewer bytes than asked, 1..31 per read), every read judged '
                'against the image the device holds then (oracle, shrunk in fresh processes) and against the model; '
                'malformed stream. distinct = distinct canonical inputs; non-trivial = non-empty payload')
    pick = [0, len(terms) // 4, len(terms) // 2, len(terms) - 1]
    res.samples = [{'term': terms[i][:600], 'case': [str(x)[:120] for x in meta[i]]} for i in pick]
    res.oracle_failures = list(fails.values())
    return res
