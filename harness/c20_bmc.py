"""A small conforming BMC for the C20 check (specification side; written from the IPMI /
PICMG / HPM.1 command descriptions, NOT from pyipmi's message classes).

`Bmc.handle(netfn, cmd, lun, data, req) -> bytes` (completion code + response data) is
the handler of harness.fakeif.ScriptedInterface.  Faults: `fault = (index, cc | 'timeout')`
makes the index-th request (0-based) answer with that completion code / raise
IpmiTimeoutError.  The device is deterministic; two devices built from the same
`spec` answer identically, so the CLI run and the direct API run can be compared.
"""
import hashlib

PICMG = 0x00


def le(v, n):
    return bytes((v >> (8 * i)) & 0xff for i in range(n))


def zsum(b):
    return (-sum(b)) & 0xff


# ---------------------------------------------------------------- SDR records
def pack6(s):
    """6-bit packed ASCII (0x20..0x5f), 4 characters in 3 bytes, least significant first"""
    v = [ord(c) - 0x20 for c in s]
    out = bytearray()
    for i in range(0, len(v), 4):
        g = v[i:i + 4] + [0] * (4 - len(v[i:i + 4]))
        w = g[0] | g[1] << 6 | g[2] << 12 | g[3] << 18
        out += bytes([w & 0xff, (w >> 8) & 0xff, (w >> 16) & 0xff])
    return bytes(out)


def pack_bcd(s):
    """BCD plus: 0-9, ' ', '-', '.' two per byte, first character in the high nibble"""
    m = {' ': 0xa, '-': 0xb, '.': 0xc}
    d = [int(c) if c.isdigit() else m[c] for c in s]
    if len(d) % 2:
        d.append(0xa)
    return bytes(d[i] << 4 | d[i + 1] for i in range(0, len(d), 2))


def tl(s, enc='ascii'):
    """type/length byte + payload; enc: ascii | bcd (digits, blank, dash, dot) | 6bit (upper case) | bin"""
    if enc == 'bcd':
        b = pack_bcd(''.join(c if c in '0123456789 -.' else '.' for c in s) or '0')
        return bytes([0x40 | len(b)]) + b
    if enc == '6bit':
        t = ''.join(c if 0x20 <= ord(c) <= 0x5f else '_' for c in s.upper())
        t += ' ' * ((-len(t)) % 4)            # whole groups only
        b = pack6(t)
        return bytes([0x80 | len(b)]) + b
    b = s.encode('latin-1')
    return bytes([(0x00 if enc == 'bin' else 0xc0) | len(b)]) + b


def tl_ascii(s, enc='ascii'):
    return tl(s, enc)


def sdr_header(rid, typ, body):
    return le(rid, 2) + bytes([0x51, typ, len(body)]) + body


def sdr_full(rid, number, name, lun=0, entity=(3, 1), thresholds=(250, 240, 230, 5, 10, 20),
             m=1, b=0, k1=0, k2=0, fmt=0, enc='ascii'):
    body = bytes([0x20, lun & 3, number]) + bytes(entity)          # key + entity
    body += bytes([0x7f, 0x68, 0x01, 0x01])                        # init, caps, type=temp, threshold
    body += le(0x7a95, 2) + le(0x7a95, 2) + le(0x3f3f, 2)          # masks
    body += bytes([(fmt & 3) << 6, 0x01, 0x00])                    # units
    body += bytes([0x00])                                          # linear
    body += bytes([m & 0xff, (m >> 2) & 0xc0])                     # M, tolerance
    body += bytes([b & 0xff, (b >> 2) & 0xc0, 0x00])               # B, accuracy
    body += bytes([((k2 & 0xf) << 4) | (k1 & 0xf)])                # R exp, B exp
    body += bytes([0x07, 40, 80, 10, 255, 0])                      # analog flags, nominal, max, min, smax, smin
    body += bytes(thresholds)                                      # unr ucr unc lnr lcr lnc
    body += bytes([2, 2, 0, 0, 0])                                 # hysteresis, reserved, oem
    body += tl_ascii(name, enc)
    return sdr_header(rid, 0x01, body)


def sdr_compact(rid, number, name, lun=0, entity=(7, 1), enc='ascii'):
    body = bytes([0x20, lun & 3, number]) + bytes(entity)
    body += bytes([0x67, 0x40, 0xf0, 0x6f])                        # init, caps, type=hot swap, sensor specific
    body += le(0x00ff, 2) + le(0x0000, 2) + le(0x00ff, 2)
    body += bytes([0xc0, 0x00, 0x00])                              # units
    body += le(0, 2) + bytes([0, 0]) + bytes(3) + bytes([0])       # sharing, hysteresis, reserved, oem
    body += tl_ascii(name, enc)
    return sdr_header(rid, 0x02, body)


def sdr_event_only(rid, number, name, lun=0, entity=(0x20, 1), enc='ascii'):
    body = bytes([0x20, lun & 3, number]) + bytes(entity)
    body += bytes([0x12, 0x6f]) + le(0, 2) + bytes([0, 0])          # type, event type, sharing, reserved, oem
    body += tl_ascii(name, enc)
    return sdr_header(rid, 0x03, body)


def sdr_fru_locator(rid, name, fru_id=0, entity=(0xa0, 0x60), enc='ascii'):
    body = bytes([0x20 << 0, fru_id, 0x80, 0x00, 0x00, 0x10, 0x00]) + bytes(entity) + bytes([0x00]) + tl_ascii(name, enc)
    return sdr_header(rid, 0x11, body)


def sdr_mc_locator(rid, name, entity=(0xa0, 0x60), enc='ascii'):
    body = bytes([0x20, 0x00, 0x00, 0xbf, 0, 0, 0]) + bytes(entity) + bytes([0x00]) + tl_ascii(name, enc)
    return sdr_header(rid, 0x12, body)


def sdr_oem(rid, payload=b'\x5a\x3c\x00KONTRON'):
    return sdr_header(rid, 0xc0, payload)


def sdr_unknown(rid, typ=0x0a, payload=bytes(range(6))):
    return sdr_header(rid, typ, payload)


def sdr_from(d):
    """record descriptor (JSON-able dict) -> record bytes"""
    k = d['k']
    kw = {x: d[x] for x in ('lun', 'enc') if x in d}
    if 'entity' in d:
        kw['entity'] = tuple(d['entity'])
    if k == 'full':
        for x in ('m', 'b', 'k1', 'k2', 'fmt'):
            if x in d:
                kw[x] = d[x]
        if 'thresholds' in d:
            kw['thresholds'] = tuple(d['thresholds'])
        return sdr_full(d['id'], d['num'], d.get('name', 'S'), **kw)
    if k == 'compact':
        return sdr_compact(d['id'], d['num'], d.get('name', 'C'), **kw)
    if k == 'event':
        return sdr_event_only(d['id'], d['num'], d.get('name', 'E'), **kw)
    if k == 'fru':
        kw.pop('lun', None)
        return sdr_fru_locator(d['id'], d.get('name', 'FRU'), d.get('fru_id', 0), **kw)
    if k == 'mc':
        kw.pop('lun', None)
        return sdr_mc_locator(d['id'], d.get('name', 'MC'), **kw)
    if k == 'oem':
        return sdr_oem(d['id'], bytes.fromhex(d['payload'])) if 'payload' in d else sdr_oem(d['id'])
    return sdr_unknown(d['id'], d.get('type', 0x0a))


# ---------------------------------------------------------------- FRU image
def fru_tl(s, enc='ascii'):
    if enc == 'ascii' and len(s) == 1:
        s += ' '                      # 0xC1 is the end-of-fields marker
    return tl(s, enc)


def fru_area(body):
    pad = (-(len(body) + 3)) % 8
    b = bytes([1, (len(body) + 3 + pad) // 8]) + body + bytes(pad)
    return b + bytes([zsum(b)])


def fru_image(tag, multirecord=True, chassis=True, board=True, product=True, custom=1, enc='ascii', nrec=2):
    """a well-formed FRU inventory: common header, optional chassis / board / product areas with `custom`
    custom fields each, `nrec` multirecords (when multirecord); serial numbers / part numbers in `enc`"""
    cust = b''.join(fru_tl('custom%d' % i) for i in range(custom)) + b'\xc1'
    areas = []
    if chassis:
        areas.append(fru_area(bytes([0x17]) + fru_tl('CH-PN-' + tag, enc) + fru_tl('CH-SN-' + tag) + cust))
    if board:
        areas.append(fru_area(bytes([0x19]) + le(0x123456, 3) + fru_tl('ACME') + fru_tl('Board ' + tag) + fru_tl('B-SN-' + tag, enc)
                              + fru_tl('B-PN') + fru_tl('file1') + cust))
    if product:
        areas.append(fru_area(bytes([0x19]) + fru_tl('ACME') + fru_tl('Prod ' + tag) + fru_tl('P-PN', enc) + fru_tl('1.0')
                              + fru_tl('P-SN-' + tag) + fru_tl('asset') + fru_tl('file2') + cust))
    recs = b''
    kinds = [(0xc0, b'\x5a\x31\x00\x16\x00' + bytes(5)), (0x02, bytes(13)), (0x01, bytes(range(24))), (0xd3, b'\x01\x02\x03')]
    n = nrec if multirecord else 0
    for i, (typ, payload) in enumerate(kinds[:n]):
        last = 0x80 if i == n - 1 else 0
        h = bytes([typ, 0x02 | last, len(payload), zsum(payload)])
        recs += h + bytes([zsum(h)]) + payload
    off = 8
    offs = {}
    present = [k for k, on in (('c', chassis), ('b', board), ('p', product)) if on]
    for k, a in zip(present, areas):
        offs[k] = off // 8
        off += len(a)
    mr = off // 8 if n else 0
    hdr = bytes([1, 0, offs.get('c', 0), offs.get('b', 0), offs.get('p', 0), mr, 0])
    hdr += bytes([zsum(hdr)])
    img = hdr + b''.join(areas) + recs
    return img + bytes((-len(img)) % 8)


def sel_from(d):
    """SEL record descriptor -> 16 bytes.  type 0x02 system event; 0xc0-0xdf OEM timestamped; 0xe0-0xff OEM"""
    t = d.get('type', 0x02)
    if t == 0x02:
        return sel_record(d['id'], 0x02, d.get('ts', 0x5f000000), d.get('gen', 0x20), d.get('stype', 1), d.get('num', 0),
                          d.get('ev', 1), tuple(d.get('data', (0x50, 0x30, 0x28))))
    if 0xc0 <= t <= 0xdf:
        return le(d['id'], 2) + bytes([t]) + le(d.get('ts', 0x5f000000), 4) + le(d.get('mfg', 15000), 3) + bytes(d.get('oem', [1, 2, 3, 4, 5, 6]))
    return le(d['id'], 2) + bytes([t]) + bytes(d.get('oem', list(range(13))))


# ---------------------------------------------------------------- SEL
def sel_record(rid, typ=0x02, ts=0x5f000000, gen=0x0020, stype=0x01, num=5, ev=0x01, data=(0x50, 0x30, 0x28)):
    return le(rid, 2) + bytes([typ]) + le(ts, 4) + le(gen, 2) + bytes([0x04, stype, num, ev]) + bytes(data)


# ---------------------------------------------------------------- HPM.1 image (for 'hpm check' / 'hpm install')
def hpm_image(device_id, manufacturer_id, product_id, component=0, firmware=bytes(range(50)), inaccessibility=0):
    def bcd(m):
        return ((m // 10) << 4) | (m % 10)
    h = b'PICMGFWU' + bytes([0, device_id]) + le(manufacturer_id, 3) + le(product_id, 2) + le(0x5f000000, 4)
    h += bytes([0x00, 1 << component, 0, 0, inaccessibility, 1, bcd(0)])
    h += bytes([1, bcd(23)]) + bytes(4) + le(0, 2)
    h += bytes([zsum(h)])
    acts = b''
    for typ in (0, 1, 2):
        a = bytes([typ, 1 << component])
        a += bytes([zsum(a)])
        if typ == 2:
            a += bytes([1, bcd(24)]) + bytes(4) + b'firmware'.ljust(21, b'\0') + le(len(firmware), 4) + firmware
        acts += a
    body = h + acts
    return body + hashlib.md5(body).digest()


DEFAULT_SPEC = {
    'device_id': 0x21, 'manufacturer_id': 15000, 'product_id': 0x1234,
    'support': 0xbf,                 # additional device support byte
    'aux': True,
    'sel': 3, 'sdr': 'mixed', 'frus': 3,
    'power_state': 0x61, 'last_event': 0x10, 'misc': 0x40, 'front_panel': True,
    'components': 0x05,
}


class Bmc:
    def __init__(self, spec=None, fault=None):
        s = dict(DEFAULT_SPEC)
        s.update(spec or {})
        self.spec = s
        self.fault = fault
        self.n = 0
        self.resv = 0x100
        if isinstance(s['sel'], int):
            self.sel = [sel_record(1 + i, typ=(0x02, 0x02, 0xc5, 0xe3)[i % 4], num=i) for i in range(s['sel'])]
        else:
            self.sel = [sel_from(d) for d in s['sel']]
        self.sel_erase = 0
        kinds = {
            'mixed': [sdr_full(1, 1, 'Temp CPU'), sdr_compact(2, 2, 'Hot Swap'), sdr_full(4, 3, 'Temp Board', fmt=2, m=2, b=5, k2=-1),
                      sdr_full(5, 5, 'Temp LUN2', lun=2), sdr_event_only(6, 6, 'Events', lun=1),
                      sdr_fru_locator(7, 'FRU0'), sdr_mc_locator(8, 'BMC'), sdr_compact(9, 7, 'Version')],
            'sensors': [sdr_full(1, 1, 'Temp CPU'), sdr_compact(2, 2, 'Hot Swap'), sdr_full(4, 3, 'V 12'),
                        sdr_fru_locator(7, 'FRU0'), sdr_mc_locator(8, 'BMC')],
            'oem': [sdr_full(1, 1, 'Temp CPU'), sdr_oem(2), sdr_compact(3, 2, 'Hot Swap')],
            'one': [sdr_full(1, 9, 'Only')],
        }
        self.sdrs = kinds[s['sdr']] if isinstance(s['sdr'], str) else [sdr_from(d) for d in s['sdr']]
        if isinstance(s['frus'], int):
            self.frus = {i: fru_image(str(i), multirecord=(i == 0)) for i in range(s['frus'])}
        else:
            self.frus = {int(k): fru_image(**{**{'tag': str(k)}, **v}) for k, v in s['frus'].items()}
        # populated ports: (interface, channel); default: channels 1..4 on interfaces 0 and 1
        self.ports = set((i, c) for i in (0, 1) for c in (1, 2, 3, 4)) if s.get('ports') is None else \
            set((p[0], p[1]) for p in s['ports'])
        self.hpm_state = {'blocks': 0, 'bytes': 0}
        self.power_actions = []

    # -- helpers
    def reserve(self):
        self.resv = (self.resv + 1) & 0xffff or 1
        return self.resv

    def sdr_read(self, data):
        resv, rid, off, cnt = data[0] | data[1] << 8, data[2] | data[3] << 8, data[4], data[5]
        ids = [r[0] | r[1] << 8 for r in self.sdrs]
        if rid == 0:
            rid = ids[0]
        if rid not in ids:
            return b'\xcb'
        if off != 0 and resv != self.resv:
            return b'\xc5'
        i = ids.index(rid)
        rec = self.sdrs[i]
        nxt = ids[i + 1] if i + 1 < len(ids) else 0xffff
        if cnt == 0xff:
            cnt = len(rec) - off
        if off > len(rec):
            return b'\xc9'
        if cnt > 0x24:
            return b'\xca'
        return b'\x00' + le(nxt, 2) + rec[off:off + cnt]

    def sensors(self):
        """(owner lun, number) -> record, for the records that have a reading (full, compact)"""
        return {(r[6] & 3, r[7]): r for r in self.sdrs if r[3] in (1, 2)}

    def sensor_numbers(self):
        return {r[7]: r for r in self.sdrs if r[3] in (1, 2, 3)}

    def sdr_ids(self):
        return [r[0] | r[1] << 8 for r in self.sdrs]

    # -- the device
    def handle(self, netfn, cmd, lun, data, req=None):
        import pyipmi.errors as E
        idx = self.n
        self.n += 1
        if self.fault is not None and self.fault[0] == idx:
            if self.fault[1] == 'timeout':
                raise E.IpmiTimeoutError()
            return bytes([self.fault[1]])
        return self.dispatch(netfn, cmd, lun, bytes(data))

    def dispatch(self, netfn, cmd, lun, d):
        s = self.spec
        if netfn == 0x06:
            if cmd == 0x01 and not d:
                r = bytes([s['device_id'], 0x81, 0x02, 0x15, 0x02, s['support']]) + le(s['manufacturer_id'], 3) + le(s['product_id'], 2)
                return b'\x00' + r + (bytes([1, 2, 3, 4]) if s['aux'] else b'')
            if cmd in (0x02, 0x03) and not d:
                return b'\x00'
        if netfn == 0x00:
            if cmd == 0x01 and not d:
                r = bytes([s['power_state'], s['last_event'], s['misc']])
                return b'\x00' + r + (b'\x0f' if s['front_panel'] else b'')
            if cmd == 0x02 and len(d) == 1:
                if d[0] > 5:
                    return b'\xcc'
                self.power_actions.append(d[0])
                return b'\x00'
        if netfn == 0x0a:
            if cmd == 0x40 and not d:
                return b'\x00' + bytes([0x51]) + le(len(self.sel), 2) + le(0x1000, 2) + le(0x5f000010, 4) + le(0x5e000000, 4) + b'\x0f'
            if cmd == 0x42 and not d:
                return b'\x00' + le(self.reserve(), 2)
            if cmd == 0x43 and len(d) == 6:
                resv, rid, off, cnt = d[0] | d[1] << 8, d[2] | d[3] << 8, d[4], d[5]
                if not self.sel:
                    return b'\xcb'
                ids = [r[0] | r[1] << 8 for r in self.sel]
                if rid == 0:
                    rid = ids[0]
                elif rid == 0xffff:
                    rid = ids[-1]
                if rid not in ids:
                    return b'\xcb'
                if off != 0 and resv != self.resv:
                    return b'\xc5'
                i = ids.index(rid)
                nxt = ids[i + 1] if i + 1 < len(ids) else 0xffff
                if cnt == 0xff:
                    cnt = 16 - off
                if off + cnt > 16:
                    return b'\xc9'
                return b'\x00' + le(nxt, 2) + self.sel[i][off:off + cnt]
            if cmd == 0x47 and len(d) == 6:
                if (d[0] | d[1] << 8) != self.resv:
                    return b'\xc5'
                if d[2:5] != b'CLR':
                    return b'\xcc'
                if d[5] == 0xaa:
                    self.sel = []
                    return b'\x00\x01'            # erase completed
                if d[5] == 0x00:
                    return b'\x00\x01'
                return b'\xcc'
            if cmd == 0x20 and not d:
                return b'\x00' + bytes([0x51]) + le(len(self.sdrs), 2) + le(0x800, 2) + le(0x5f000000, 4) + le(0x5e000000, 4) + b'\x2f'
            if cmd == 0x22 and not d:
                return b'\x00' + le(self.reserve(), 2)
            if cmd == 0x23 and len(d) == 6:
                return self.sdr_read(d)
            if cmd == 0x10 and len(d) == 1:
                if d[0] not in self.frus:
                    return b'\xcb'
                return b'\x00' + le(len(self.frus[d[0]]), 2) + b'\x00'
            if cmd == 0x11 and len(d) == 4:
                if d[0] not in self.frus:
                    return b'\xcb'
                img = self.frus[d[0]]
                off, cnt = d[1] | d[2] << 8, d[3]
                if off > len(img):
                    return b'\xc9'
                if cnt > 32:
                    return b'\xca'
                chunk = img[off:off + cnt]
                return b'\x00' + bytes([len(chunk)]) + chunk
        if netfn == 0x04:
            if cmd == 0x22 and not d:
                return b'\x00' + le(self.reserve(), 2)
            if cmd == 0x21 and len(d) == 6:
                return self.sdr_read(d)
            if cmd == 0x2d and len(d) == 1:
                sens = self.sensors()
                if (lun, d[0]) not in sens:          # a sensor answers only on its owner LUN
                    return b'\xcb'
                if sens[(lun, d[0])][3] == 1:
                    return b'\x00' + bytes([(0x20 + d[0]) & 0xff, 0xc0, 0xc0 | (d[0] & 1)])
                return b'\x00' + bytes([0x00, 0xc0, 0x01 << (d[0] & 7), 0x80])
            if cmd == 0x2a and len(d) == 6:
                return b'\x00' if d[0] in self.sensor_numbers() else b'\xcb'
        if netfn == 0x2c and d[:1] == bytes([PICMG]):
            p = d[1:]
            ok = b'\x00' + bytes([PICMG])
            if cmd == 0x04 and len(p) == 2:
                return ok if p[0] == 0 and p[1] <= 3 else b'\xcc'
            if cmd == 0x12 and len(p) == 2:
                return ok + bytes([0x02, 0x05, 0x0a, 10, 15, 20])
            if cmd == 0x0f and len(p) == 1:
                ch, itf = p[0] & 0x3f, p[0] >> 6
                if (itf, ch) not in self.ports:
                    return b'\xcc'
                # link info: channel/interface, flags/type, class/extension, grouping, state
                return ok + bytes([p[0], 0x21, 0x01 if itf == 0 else 0x00, 0x00, 0x01])
            if cmd == 0x25 and len(p) == 2:
                return ok + bytes([16, 0x06, 0x0f])
            if cmd == 0x28 and len(p) == 2:
                return ok
            if cmd == 0x24 and len(p) == 5:
                return ok
            if cmd == 0x2e and not p:
                return ok + bytes([0x00, 0xe1, 10, 5, 5, 20, s['components']])
            if cmd == 0x2f and len(p) == 2:
                if not (s['components'] >> p[0]) & 1:
                    return b'\x82'
                if p[1] in s.get('hpm_missing', []):
                    return b'\x83'
                if p[1] == 0:
                    return ok + bytes([0x2d])
                if p[1] == 1:
                    return ok + bytes([1, 0x23, 0, 0, 0, p[0]])
                if p[1] == 2:
                    return ok + ('component-%d' % p[0]).encode().ljust(12, b'\0')
                if p[1] == 3:
                    return ok + bytes([1, 0x20, 0, 0, 0, 0])
                if p[1] == 4:
                    return ok + bytes([1, 0x24, 0, 0, 0, 0])
                return b'\x83'
            if cmd == 0x30 and not p:
                self.hpm_state = {'blocks': 0, 'bytes': 0}
                return ok
            if cmd == 0x31 and len(p) == 2:
                return ok if p[1] <= 3 and (p[0] & ~s['components']) == 0 else b'\xcc'
            if cmd == 0x32 and len(p) >= 2:
                if p[0] != self.hpm_state['blocks'] & 0xff:
                    return b'\xcc'
                self.hpm_state['blocks'] += 1
                self.hpm_state['bytes'] += len(p) - 1
                return ok
            if cmd == 0x33 and len(p) == 5:
                n = p[1] | p[2] << 8 | p[3] << 16 | p[4] << 24
                return ok if n == self.hpm_state['bytes'] else b'\x81'
            if cmd == 0x34 and not p:
                return ok + bytes([0x35, 0x00])
            if cmd == 0x35 and len(p) <= 1:
                return ok
        return b'\xc1'
