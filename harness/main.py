"""./check entry point."""
import argparse
import importlib
import json
import os
import random
import signal
import sys
import threading
import time
import traceback

from . import common as C


def main(argv=None):
    ap = argparse.ArgumentParser(prog='check')
    ap.add_argument('prop', nargs='?')
    ap.add_argument('--setup', action='store_true')
    ap.add_argument('--tier', default=os.environ.get('VERIF_TIER', 'quick'), choices=['quick', 'thorough'])
    ap.add_argument('--replay')
    a = ap.parse_args(argv)
    if a.setup:
        return C.setup()
    if not a.prop:
        ap.error('property id required')
    pid = a.prop.upper()
    seed = int(os.environ.get('VERIF_SEED', '20260930'))
    mod = importlib.import_module('harness.%s' % pid.lower())
    if a.replay:
        data = json.loads(open(a.replay).read())
        ok = mod.replay(data)
        print('replay %s: %s' % (a.replay, 'property holds on this input' if ok else 'FAILS'))
        return 0 if ok else 1
    t0 = time.time()
    ctx = C_ctx(pid, a.tier, seed)
    ctx.t0 = t0
    # A check that depends on generated files (Gen/*.v are shared and belong to ONE tree at a time)
    # keeps the build lock from regeneration until its cases are evaluated, so that a concurrent
    # check against another tree cannot swap the generated model under it. Checks over hand models
    # only take the lock while building.
    import contextlib
    hold = C.Lock() if (getattr(mod, 'GENS', None) and getattr(mod, 'HOLD_LOCK', True)) else contextlib.nullcontext()
    with hold:
        ps, res = _proof_and_run(mod, pid, ctx)
    checker = 'make -C coq Props/%s.vo && coqc -Q coq PyIpmi coq/Props/%s.v (Print Assumptions)' % (pid, pid)
    if a.tier == 'thorough' and ps.ok and not os.environ.get('VERIF_NO_COQCHK'):
        rc, out = C.sh(['coqchk', '-silent', '-o', '-Q', '.', 'PyIpmi', 'PyIpmi.Props.%s' % pid],
                       cwd=C.COQ, timeout=1800)
        res.extra['coqchk'] = {'rc': rc, 'tail': out[-1500:]}
        checker += ' ; coqchk -o PyIpmi.Props.%s' % pid
        if rc != 0:
            ps.ok = False
            ps.failed_theorem = 'coqchk'
            ps.log += out[-2000:]
    return C.finish(pid, a.tier, seed, ps, res, t0, checker, getattr(mod, 'TRUSTED', ()))


def _children(pid):
    out = []
    for d in os.listdir('/proc'):
        if d.isdigit():
            try:
                st = open('/proc/%s/stat' % d).read()
                if int(st[st.rindex(')') + 2:].split()[1]) == pid:
                    out.append(int(d))
                    out.extend(_children(int(d)))
            except (OSError, ValueError):
                pass
    return out


def _watchdog(mod, pid, ctx, ps, done):
    """A run that does not finish (an implementation that sleeps on the real clock, or loops) fails closed
    instead of hanging: the property is no longer shown to hold."""
    cap = float(os.environ.get('VERIF_MAX_SECONDS', '2700' if ctx.quick else '21600'))
    if done.wait(cap):
        return
    res = C.Result(rule='the run did not finish within %d s' % cap, evaluations=0)
    res.corr_errors = [('harness-timeout', 'running the implementation under the harness did not finish within %d s '
                        '(real sleeping or non-termination in the implementation under test?)' % cap)]
    for c in _children(os.getpid()):
        try:
            os.kill(c, signal.SIGKILL)
        except OSError:
            pass
    try:
        C.finish(pid, ctx.tier, ctx.seed, ps, res, ctx.t0, 'make -C coq Props/%s.vo' % pid, getattr(mod, 'TRUSTED', ()))
    finally:
        sys.stdout.flush()
        os._exit(1)


def _proof_and_run(mod, pid, ctx):
    ps = C.proof_status(pid, gens=getattr(mod, 'GENS', None))
    done = threading.Event()
    threading.Thread(target=_watchdog, args=(mod, pid, ctx, ps, done), daemon=True).start()
    try:
        res = mod.run(ctx)
    except Exception:
        # The harness crashed - typically because the implementation raised where the
        # harness did not expect it. Fail closed: the correspondence could not be
        # established, so the property is no longer shown to hold.
        tb = traceback.format_exc()
        print(tb)
        res = C.Result(rule='harness crashed before completing', evaluations=0)
        res.corr_errors = [('harness-crash', tb[-3000:])]
    finally:
        done.set()
    return ps, res


class C_ctx:
    def __init__(self, pid, tier, seed):
        self.pid, self.tier, self.seed = pid, tier, seed
        self.rng = random.Random(seed)
        self.quick = tier == 'quick'
        self.t0 = time.time()


if __name__ == '__main__':
    sys.exit(main())
