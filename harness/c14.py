"""C14 - one LAN interface shared by threads, including its keep-alive.

Correspondence: REAL Python threads over ONE real Rmcp object are driven by the
deterministic scheduler of harness/c14_sched.py (no repo hook); for every schedule the
observed step trace, socket log, per-thread outcomes and final shared state are compared
with Model/Threads.v executed inside Coq on the same schedule (Corr/C14.v: chk_run).
Schedules: systematic enumeration at the model's granularity (one step per access to
next_sequence_number / lock / socket) up to a pre-emption bound, then seeded random
schedules at source-line granularity (sys.settrace in rmcp.py and session.py, plus every
access to Session.sequence_number).

Oracle (the property on the implementation, independent of the model): every caller gets
the reply to its own request; the socket log is a sequence of complete send/receive
pairs; session sequence numbers strictly increase in send order (32-bit wrap
0xffffffff -> 1 excepted); no deadlock, no exception.
"""
import hashlib
import json

from . import common as C
from . import c14_sched as S

MODEL_MAP = [
    {'python': 'pyipmi/interfaces/rmcp.py:Rmcp.__init__ (next_sequence_number, _q, transaction_lock)',
     'coq': 'Model.Threads.init / gstate'},
    {'python': 'pyipmi/interfaces/rmcp.py:Rmcp._inc_sequence_number', 'coq': 'Model.Threads.step_l (PIdle, PInc)'},
    {'python': 'pyipmi/interfaces/rmcp.py:Rmcp._send_and_receive', 'coq': 'Model.Threads.step_l / after_rx'},
    {'python': 'pyipmi/interfaces/rmcp.py:Rmcp._send_ipmi_msg -> IpmiMsg.pack (session sequence increment)',
     'coq': 'Model.Threads.pack_sseq (step PSend)'},
    {'python': 'pyipmi/session.py:Session.increment_sequence_number', 'coq': 'Model.Threads.next_sseq'},
    {'python': 'pyipmi/interfaces/rmcp.py:Rmcp._receive_ipmi_msg + ipmb.rx_filter (default options, abstract frame)',
     'coq': 'Model.Threads.rx_match (step PRecv)'},
    {'python': 'pyipmi/interfaces/rmcp.py:call_repeatedly + the job establish_session gives it (keep-alive = one more thread)',
     'coq': 'a thread of Model.Threads whose requests are (6, 1)'},
]
TRUSTED = [
    'C14: the deterministic scheduler (harness/c14_sched.py): a data descriptor for next_sequence_number on a '
    'harness-side subclass of Rmcp, cooperative lock objects for every lock the code creates, a scripted socket with '
    'an in-order reference BMC, sys.settrace line events; exactly one Python thread runs at a time',
    'C14: CPython byte-code atomicity and the GIL are below the model; threading.Lock itself is replaced, not verified',
]

KIND = {'rd': 0, 'wr': 1, 'acq': 2, 'snd': 3, 'rcv': 4, 'tmo': 5, 'rel': 6, 'ret': 8}
WRAP = 0xffffffff


# ----------------------------------------------------------------------------
# oracle: the property, stated on the observation of the implementation only
# ----------------------------------------------------------------------------
def judge(cfg, obs):
    """-> list of (key, what); empty = property holds on this schedule"""
    fails = []
    if obs['status'] == 'harness-timeout':
        raise RuntimeError('C14 harness: scheduler hand-off timed out')
    if obs['status'] == 'deadlock':
        fails.append(('c14:deadlock', 'no thread can move but requests are outstanding (lock owner %r)'
                      % (obs['lock_owner'],)))
    elif obs['status'] != 'ok':
        fails.append(('c14:no-termination', 'step budget exhausted (%s)' % obs['status']))
    wire = obs['wire']
    # complete, non-interleaved exchanges (IPMI request/reply or ASF ping/pong alike)
    def norm(e):
        if e[0] == 'tx':
            return ('tx', e[1], e[7])
        if e[0] == 'atx':
            return ('tx', e[1], e[3])
        if e[0] == 'rx':
            return ('rx', e[1], e[5])
        if e[0] == 'krx':
            return ('ack', e[1], e[2])
        return ('rx', e[1], e[2])
    nw = [norm(e) for e in wire]
    stale = set(cfg.get('stale', ()))
    lose = set(cfg.get('lose', ()))
    i = 0
    while i < len(nw):
        a = nw[i]
        ok = a[0] == 'tx'
        # the reply to this datagram is lost: the same thread has to retransmit (a new datagram)
        while ok and a[2] in lose and wire[i][0] == 'tx' and i + 1 < len(nw):
            nxt = nw[i + 1]
            if nxt[0] == 'tx' and nxt[1] == a[1]:
                i += 1
                a = nxt
            else:
                ok = False
        j = i + 1
        if ok and wire[i][0] == 'tx':
            # bridged: the acknowledges of the Send Message wrappers are read by the same thread first
            for _ in range(wire[i][8].get('depth', 0)):
                if j < len(nw) and nw[j] == ('ack', a[1], a[2]):
                    j += 1
                elif j < len(nw):
                    ok = False
        if ok and a[2] in stale and wire[i][0] == 'tx':
            # the BMC sent an unrelated frame (payload n + 100) first: the same thread has to read past it
            if j < len(nw) and nw[j] == ('rx', a[1], a[2] + 100):
                j += 1
            elif j < len(nw):
                ok = False
        b = nw[j] if j < len(nw) else None
        if not ok or b is None or b[0] != 'rx' or b[1] != a[1] or b[2] != a[2]:
            if not (obs['status'] != 'ok' and b is None and ok):
                fails.append(('c14:interleaved-exchange',
                              'socket log is not a sequence of complete send/receive exchanges of one thread at event %d: %s'
                              % (i, ' '.join('%s%d' % (e[0], e[1]) for e in wire))))
            break
        i = j + 1
    # nothing is left unread on the socket
    if obs['status'] == 'ok' and obs.get('unread'):
        fails.append(('c14:reply-left-unread', 'datagram(s) left unread on the socket at the end: %s' % obs['unread']))
    # session sequence numbers strictly increasing in transmission order
    if cfg.get('active', True):
        seqs = [e[3] for e in wire if e[0] == 'tx']     # IPMI datagrams only (ASF has none)
        prev = None
        for k, x in enumerate(seqs):
            bad = not (1 <= x <= WRAP)
            if prev is not None and not (x > prev or (prev == WRAP and x == 1)):
                bad = True
            if bad:
                fails.append(('c14:session-seq-order',
                              'session sequence numbers on the wire not strictly increasing: %s' % seqs))
                break
            prev = x
    # every datagram is well-formed by itself: its auth code is computed over exactly the
    # sequence number, session id and payload it carries (an exchange assembled outside the
    # lock can mix the values of two requests)
    pw = S.PASSWORD.encode().ljust(16, b'\x00')
    for e in wire:
        if e[0] != 'tx' or len(e) < 9:
            continue
        d = e[8]
        if d['auth'] == 2:
            exp = hashlib.md5(pw + bytes.fromhex(d['raw_sid']) + bytes.fromhex(d['msg'])
                              + bytes.fromhex(d['raw_seq']) + pw).hexdigest()
        elif d['auth'] == 4:
            exp = pw.hex()
        else:
            continue
        if d['authcode'] != exp:
            fails.append(('c14:datagram-auth-code',
                          'exchange assembled outside the lock: datagram %d (thread %d, session seq %d) carries an '
                          'authentication code that is not the one over its own sequence number / session id / payload '
                          '(got %s, expected %s)' % (e[7], e[1], e[3], d['authcode'], exp)))
            break
    # own reply
    sent, got = {}, {}
    for e in wire:
        if e[0] == 'tx':
            sent.setdefault((e[1], e[2]), []).append(e[7])
        elif e[0] == 'atx':
            sent.setdefault((e[1], e[2]), []).append(e[3])
    for e, n in zip(wire, nw):
        if n[0] == 'rx':
            got.setdefault(e[1], []).append(n[2])
    done = False
    for t, spec in enumerate(cfg['threads']):
        outs = obs['results'][t]
        for j in range(len(spec['reqs'])):
            if done:
                break
            if j >= len(outs):
                if obs['status'] == 'ok':
                    fails.append(('c14:request-unanswered', 'thread %d request %d never completed' % (t, j)))
                    done = True
                continue
            kind, val = outs[j]
            if kind == 'done':
                # a keep-alive job that returns nothing (e.g. an ASF ping): judged on the wire -
                # the datagram(s) it read must be the answers to the datagram(s) it sent
                mine = sent.get((t, j), [])
                if not mine or any(x not in got.get(t, []) for x in mine):
                    fails.append(('c14:own-reply', 'thread %d (keep-alive job) iteration %d did not read the answer '
                                  'to its own datagram(s) %s; it read %s' % (t, j, mine, got.get(t, []))))
                    done = True
                continue
            if kind != 'ok':
                fails.append(('c14:exception:%s' % val, 'thread %d request %d raised %s' % (t, j, val)))
                done = True
                continue
            cc, serial = bytes.fromhex(val)
            mine = sent.get((t, j), [])
            if cc != 0 or serial not in mine:
                fails.append(('c14:own-reply',
                              'thread %d request %d got the reply to datagram %d, its own datagram(s): %s'
                              % (t, j, serial, mine)))
                done = True
    return fails


def replay(data):
    r = data['replay']
    if r.get('oracle') != 'schedule':
        return True
    inp = r['input']
    obs = S.run_schedule(inp['cfg'], inp['choices'], fine=inp.get('fine', False))
    return not judge(inp['cfg'], obs)


# ----------------------------------------------------------------------------
# Coq case term
# ----------------------------------------------------------------------------
def lN(xs):
    return C.c_list([C.c_N(x) for x in xs])


def term(cfg, obs):
    progs = C.c_list([C.c_list(['(%d, %d, %d)' % (n, c, th.get('routing', 0)) for n, c in th['reqs']])
                      for th in cfg['threads']])
    tr = [lN([t, KIND[k], v]) for t, k, v in obs['trace'] if k in KIND]
    wire = []
    for e in obs['wire']:
        if e[0] == 'tx':
            wire.append(lN([0, e[1], e[2], e[3], e[4], e[5], e[6]]))
        elif e[0] == 'rx':
            wire.append(lN([1, e[1], e[2], e[3], e[4], e[5]]))
        elif e[0] == 'krx':
            wire.append(lN([4, e[1], e[2]]))
        elif e[0] == 'atx':     # ASF traffic: not produced by the model -> the case mismatches
            wire.append(lN([2, e[1], e[2], e[3]]))
        else:
            wire.append(lN([3, e[1], e[2]]))
    outs = []
    for t in range(len(cfg['threads'])):
        o = []
        for kind, val in obs['results'][t]:
            o.append(C.c_opt(C.c_N(bytes.fromhex(val)[1])) if kind == 'ok' else 'None')
        outs.append(C.c_list(o))
    return 'chk_run %d %s %s %s %d %d %s %s %s %s %s %d %d %s' % (
        cfg.get('max_retries', 0), C.c_bool(cfg.get('active', True)), lN(cfg.get('stale', [])), lN(cfg.get('lose', [])), cfg['nsn0'], cfg['s0'], progs,
        lN(obs['model_sched']), C.c_list(tr), C.c_list(wire), C.c_list(outs),
        obs['final_nsn'], obs['final_sseq'], C.c_bool(obs['lock_owner'] is None))


# ----------------------------------------------------------------------------
# schedules
# ----------------------------------------------------------------------------
def tid_of(c):
    """a choice is a thread id, or -(tid + 1) = let that thread's timed acquire time out"""
    return c if c >= 0 else -c - 1


def preemptions(taken, enabled_log):
    n = 0
    for j in range(1, len(taken)):
        prev = tid_of(taken[j - 1])
        if tid_of(taken[j]) != prev and prev in enabled_log[j][0]:
            n += 1
    return n


def enumerate_schedules(cfg, bound, cap=None):
    """all schedules at the scheduler's (model) granularity with <= bound pre-emptions;
    stateless DFS: each schedule is one fresh execution of the real code"""
    stack = [[]]
    n = 0
    while stack:
        prefix = stack.pop()
        obs = S.run_schedule(cfg, prefix)
        n += 1
        yield obs
        if cap is not None and n >= cap:
            return
        taken, elog = obs['taken'], obs['enabled_log']
        for i in range(len(prefix), len(taken)):
            for alt in elog[i][0]:
                if alt == taken[i]:
                    continue
                cand = taken[:i] + [alt]
                # pre-emptions of the candidate prefix (enabled sets up to i are those of this run)
                p = 0
                for j in range(1, i + 1):
                    prev = tid_of(cand[j - 1])
                    if tid_of(cand[j]) != prev and prev in elog[j][0]:
                        p += 1
                if p <= bound:
                    stack.append(cand)


def random_choices(rng, nthreads, n, pswitch):
    out, cur = [], rng.randrange(nthreads)
    for _ in range(n):
        if rng.random() < pswitch:
            cur = rng.randrange(nthreads)
        # now and then: let the timed acquire of some thread time out (a no-op unless one is waiting)
        out.append(-(rng.randrange(nthreads) + 1) if rng.random() < 0.03 else cur)
    return out


GDI = [6, 1]


def configs(quick):
    ka = lambda n: {'kind': 'keepalive', 'reqs': [GDI] * n}

    def raw(*r, target=0x20, routing=0):
        d = {'kind': 'raw', 'reqs': [list(x) for x in r], 'target': target}
        if routing:
            d['routing'] = routing      # bridged: number of Send Message wrappers
        return d
    msg = lambda n: {'kind': 'msg', 'reqs': [GDI] * n}
    SEL = (0x0a, 0x10)
    cs = [
        # wire-identical requests (duplicate rq_seq possible), all to the BMC address 0x20
        ('2x1', {'threads': [raw(GDI), ka(1)], 'nsn0': 0, 's0': 5, 'auth': 0}),
        # another responder address (0x82) and another command than the keep-alive's
        ('2x1-targets', {'threads': [raw(SEL, target=0x82), ka(1)], 'nsn0': 63, 's0': 5, 'auth': 2}),   # MD5 session
        ('2x2-wrap', {'threads': [raw(GDI, GDI), ka(2)], 'nsn0': 62, 's0': WRAP - 2, 'auth': 2}),      # MD5 session
        ('2x(2,1)-mixed', {'threads': [raw(SEL, GDI, target=0x82), ka(1)], 'nsn0': 63, 's0': 1000, 'auth': 4}),
        ('3x1', {'threads': [raw(SEL, target=0x82), msg(1), ka(1)], 'nsn0': 63, 's0': WRAP - 1, 'auth': 2}),   # MD5 session
        ('3x1-same', {'threads': [raw(GDI), msg(1), ka(1)], 'nsn0': 63, 's0': WRAP - 1, 'auth': 0,
                      'quick_bound': 1}),      # identical requests; full bound in the thorough tier
        # the BMC sends an unrelated frame (stale rq_seq) before the reply to the listed datagrams;
        # max_retries >= 1 lets the code read past it (the branch repaired by F4)
        ('2x2-stale', {'threads': [raw(GDI, GDI), ka(2)], 'nsn0': 63, 's0': 9, 'auth': 0,
                       'max_retries': 1, 'stale': [0, 1, 3]}),
        # the reply to the listed datagrams is lost (socket.timeout): the code packs and sends again
        ('2x1-lost', {'threads': [raw(GDI), ka(1)], 'nsn0': 5, 's0': 100, 'auth': 2,
                      'max_retries': 1, 'lose': [0]}),
        ('2x2-lost', {'threads': [raw(SEL, GDI, target=0x82), ka(2)], 'nsn0': 62, 's0': WRAP - 2, 'auth': 0,
                      'max_retries': 1, 'lose': [1, 4]}),
        # bridged targets (Send Message; the BMC acknowledges, then forwards the reply) next to direct
        # requests and the keep-alive on the same interface; retries 0 and > 0
        ('2x1-bridged', {'threads': [raw(SEL, routing=1), ka(1)], 'nsn0': 0, 's0': 5, 'auth': 0}),
        ('2x2-bridged2', {'threads': [raw(GDI, SEL, routing=2), ka(2)], 'nsn0': 62, 's0': 50, 'auth': 2,
                          'max_retries': 1, 'stale': [0], 'lose': [2], 'quick_bound': 1}),
        ('3x1-bridged', {'threads': [raw(SEL, routing=1), raw(GDI), ka(1)], 'nsn0': 63, 's0': 7, 'auth': 0,
                         'quick_bound': 1}),
    ]
    if not quick:
        cs += [
            ('3x(2,1,1)', {'threads': [raw(GDI, SEL), raw(GDI, target=0x84), ka(1)], 'nsn0': 7, 's0': 0, 'auth': 2}),
            ('3x1-stale', {'threads': [raw(GDI, target=0x82), msg(1), ka(1)], 'nsn0': 0, 's0': WRAP, 'auth': 0,
                           'max_retries': 2, 'stale': [1, 2]}),
            ('3x2', {'threads': [raw(GDI, GDI), msg(2), ka(2)], 'nsn0': 61, 's0': WRAP - 3, 'auth': 0}),
            ('2x3', {'threads': [raw(GDI, SEL, GDI, target=0x82), ka(3)], 'nsn0': 0, 's0': 77, 'auth': 4}),
            ('2x1-retries', {'threads': [raw(GDI), ka(1)], 'nsn0': 0, 's0': 5, 'auth': 0, 'max_retries': 2}),
        ]
    return cs


def run(ctx):
    rng = ctx.rng
    q = ctx.quick
    res = C.Result(model_map=MODEL_MAP)
    D = C.Distinct()
    terms, meta, seen_terms = [], [], set()
    unlocked_mismatch = []
    fails = {}
    hist = {}
    nruns = 0

    def consider(name, cfg, obs, fine, bound_note):
        nonlocal nruns
        nruns += 1
        switches = sum(1 for a, b in zip(obs['taken'], obs['taken'][1:]) if a != b)
        tx = [e for e in obs['wire'] if e[0] == 'tx']
        dup = len({(e[4], e[5], e[6]) for e in tx}) < len(tx)
        D.add((name, tuple(obs['model_sched'])), switches > 0, name)
        if dup:
            hist['schedules with two wire-identical IPMB headers (duplicate rq_seq)'] = \
                hist.get('schedules with two wire-identical IPMB headers (duplicate rq_seq)', 0) + 1
        if cfg.get('lose') and any(k == 'tmo' for _, k, _ in obs['trace']):
            hist['schedules with a lost reply (socket.timeout, re-pack, re-send)'] = \
                hist.get('schedules with a lost reply (socket.timeout, re-pack, re-send)', 0) + 1
        nst = sum(1 for e in obs['wire'] if e[0] == 'rx' and e[5] >= 100)
        if nst:
            hist['schedules in which an unrelated frame was read and dropped'] = \
                hist.get('schedules in which an unrelated frame was read and dropped', 0) + 1
        if any(e[3] == 1 for e in tx) and cfg['s0'] > 1:
            hist['schedules crossing the 32-bit session sequence wrap'] = \
                hist.get('schedules crossing the 32-bit session sequence wrap', 0) + 1
        for key, what in judge(cfg, obs):
            if key not in fails:
                fails[key] = C.Violation(
                    key=key, what='%s [config %s, %s]' % (what, name, bound_note),
                    replay={'oracle': 'schedule',
                            'input': {'cfg': cfg, 'choices': obs['taken'], 'fine': fine},
                            'observed': {'status': obs['status'], 'wire': obs['wire'], 'results': obs['results'],
                                         'model_steps': [[t, k, v] for t, k, v in obs['trace'] if k in KIND]},
                            'expected': 'complete non-interleaved send/receive pairs; strictly increasing session '
                                        'sequence numbers; every request returns the payload of the reply to its '
                                        'own datagram'})
        ka = obs.get('keepalive', {})
        if not ka_bad and any(t['kind'] == 'keepalive' for t in cfg['threads']) and not (
                ka.get('captured') and ka.get('threads_created') == 1 and ka.get('args') == [[]]
                and ka.get('intervals') in ([], [ka.get('expected_interval')])):
            ka_bad.append({'case': 'establish_session did not hand exactly one argument-less keep-alive job with '
                                   'interval = keep_alive_interval to call_repeatedly', 'observed': ka})
        res.extra.setdefault('keepalive', dict(ka, job=obs.get('keepalive_job')))
        if obs.get('unlocked_session_accesses') and not unlocked_mismatch:
            unlocked_mismatch.append({'case': 'Session.sequence_number accessed by a thread holding no lock (%d accesses); '
                                              'the model packs under the lock' % obs['unlocked_session_accesses'],
                                      'config': name, 'choices': obs['taken'][:80]})
        t = term(cfg, obs)
        if t not in seen_terms:
            seen_terms.add(t)
            terms.append(t)
            meta.append({'config': name, 'fine': fine, 'choices': obs['taken'] if len(obs['taken']) < 80 else
                         obs['model_sched'], 'cfg': cfg})

    # the keep-alive job is whatever establish_session hands to call_repeatedly in each run (captured by
    # substituting the module global `threading`); it is judged by what it DOES - every schedule compares
    # its exchanges (one Get Device ID through the same interface under the same lock) with the model -
    # plus, here: exactly one timer thread, no arguments, interval = keep_alive_interval
    ka_bad = []
    bound = 2 if q else 3
    per_cfg = {}
    for name, cfg in configs(q):
        cap = (5000 if q else 4500)
        k = 0
        b = min(bound, cfg.get('quick_bound', bound)) if q else bound
        cfg = {kk: v for kk, v in cfg.items() if kk != 'quick_bound'}
        for obs in enumerate_schedules(cfg, b, cap=cap):
            consider(name, cfg, obs, False, 'systematic, <= %d pre-emptions' % b)
            k += 1
        per_cfg[name] = {'schedules': k, 'capped': k >= cap, 'preemption_bound': b}
    # random schedules at source-line granularity
    nrand = 150 if q else 1500
    cfgs = configs(False)
    for i in range(nrand):
        name, cfg = cfgs[rng.randrange(len(cfgs))]
        cfg = {kk: v for kk, v in cfg.items() if kk != 'quick_bound'}
        cfg['nsn0'] = rng.choice([0, 1, 31, 62, 63])
        cfg['auth'] = rng.choice([0, 2, 2, 4])
        cfg['s0'] = rng.choice([0, 1, 5, 123456, WRAP - 3, WRAP - 1, WRAP])
        nt = len(cfg['threads'])
        ch = random_choices(rng, nt, rng.choice([40, 150, 400, 1200]), rng.choice([0.02, 0.05, 0.15, 0.4]))
        obs = S.run_schedule(cfg, ch, fine=True)
        consider(name + '/line', cfg, obs, True, 'random, source-line granularity')
    failing, errors = C.coq_cases('C14', 'Corr.C14 Model.Threads', terms)
    res.mismatches = ka_bad + unlocked_mismatch + [{'case': meta[i], 'term': terms[i][:1500]} for i in failing[:20]]
    res.corr_errors = errors
    res.evaluations = nruns
    res.distinct_nontrivial = D.distinct
    hist.update(D.hist)
    res.histogram = hist
    res.extra['systematic'] = {'preemption_bound': bound, 'per_config': per_cfg}
    res.extra['coq_cases'] = len(terms)
    res.rule = ('systematic: every schedule of the listed 2-3 thread x 1-2 (thorough: up to 3) request configurations at '
                'the granularity read/write next_sequence_number, acquire, sendto, recvfrom, release with <= %d '
                'pre-emptions (per-config cap noted in coverage.systematic); random: %d seeded schedules at source-line '
                'granularity (rmcp.py, session.py lines and Session.sequence_number accesses). distinct = distinct '
                '(configuration, projected model schedule); non-trivial = at least one context switch' % (bound, nrand))
    res.samples = [{'term': terms[i][:800], 'case': meta[i]} for i in (0, len(terms) // 2, len(terms) - 1)]
    res.oracle_failures = list(fails.values())
    res.exhaustive = False
    res.assumptions = [
        'in-order reference BMC that answers every datagram, optionally preceded by ONE unrelated frame (stale rq_seq) '
        'with max_retries >= 1, optionally losing the reply to listed datagrams with max_retries >= 1 '
        '(no delay, no frames outside an exchange: those are C04); exchange theorems assume no loss (bmc_ok), '
        'the sequence-number theorems assume nothing about the BMC',
        'direct (non-bridged) targets; default rx_filter options',
        'atomicity of one access to next_sequence_number / lock / socket; CPython byte code and the GIL are not modelled',
    ]
    return res
