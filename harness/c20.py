"""C20 - the command-line tool drives the same requests as the API.

Obligations: Props/C20.v over the command / option / exit / chassis-power tables that
gen/gen_cli.py REGENERATES from $VERIF_REPO on every run.
Correspondence: pyipmi.ipmitool.main() is run IN-PROCESS (sys.argv set, stdout/stderr
captured, SystemExit caught, pyipmi.interfaces.create_interface / pyipmi.create_connection /
the COMMANDS entries wrapped from outside - no hook in /repo) over a conforming Python BMC
(harness/c20_bmc.py) behind harness.fakeif.ScriptedInterface; what main handed to the
library (interface name + options, selected entry + remaining arguments, target address,
routing, session) is compared with Model.Cli.main_model evaluated inside Coq; cmd_raw, the
hex print, the error -> exit status mapping, int() parsing and the generated tables are
compared likewise.
Oracle (independent of the model): the property text - for every table entry x argument
vectors the requests seen by the BMC equal those of the corresponding API call made
directly on an Ipmi object over an identical BMC, no Python error; options arrive exactly
as given; raw sends exactly (lun, netfn, bytes) and prints the reply bytes in hex; injected
completion codes / time-outs that the API call lets through end the tool with a message and
a non-zero status.
"""
import ast
import contextlib
import io
import os
import re
import sys

from . import common as C
from . import fakeif as F
from . import c20_bmc as B

GENS = ['cli', 'api', 'layouts']
MODEL_MAP = [
    {'python': 'pyipmi/ipmitool.py:COMMANDS, cmd_* handlers (names of the Ipmi operations they use), '
               'getopt string, option if/elif chain, except clauses of main', 'coq': 'Gen.CliTable (GENERATED each run)'},
    {'python': 'pyipmi/chassis.py:Chassis.chassis_control, chassis_control_*; msgs/chassis.py CONTROL_*',
     'coq': 'Gen.CliTable.power_table / chassis_control_req (GENERATED each run), Model.Cli.power_sends'},
    {'python': 'pyipmi/ipmitool.py:_get_command_function + main 615-622', 'coq': 'Model.Cli.get_command_function/find_command'},
    {'python': 'getopt.getopt (short options) + pyipmi/ipmitool.py:main 549-598', 'coq': 'Model.Cli.getopt/apply_opts/parse_stage'},
    {'python': 'pyipmi/ipmitool.py:parse_interface_options', 'coq': 'Model.Cli.parse_interface_options'},
    {'python': 'pyipmi/ipmitool.py:main 600-645; pyipmi/__init__.py:Target.__init__/set_routing, create_connection; '
               'pyipmi/session.py:set_session_type_rmcp/set_auth_type_user/set_priv_level',
     'coq': 'Model.Cli.plan_stage/set_routing/mk_session/priv_level'},
    {'python': 'pyipmi/ipmitool.py:cmd_raw', 'coq': 'Model.Cli.cmd_raw/print_hex'},
    {'python': 'pyipmi/ipmitool.py:main 647-666', 'coq': 'Model.Cli.command_error_end'},
    {'python': 'pyipmi/ipmitool.py:main 647-666 (try / except / finally around open + cmd) + pyipmi/__init__.py:Ipmi.open/close + '
               'pyipmi/session.py:Session.establish/close', 'coq': 'Model.Cli.main_run/do_steps (shape: Gen.CliTable.run_shape, GENERATED)'},
    {'python': 'int(s, 0) / int(s)', 'coq': 'Model.Cli.int_base0/int_base10'},
    {'python': 'pyipmi/ipmitool.py: single-call handlers (which operation, where its arguments come from) + the bodies of those '
               'operations in pyipmi/{bmc,chassis,sensor,picmg}.py + their message layouts',
     'coq': 'Gen.CliTable.call_specs + Gen.ApiContent + Gen.Layouts (all GENERATED each run), composed by Model.CliApi.cli_request '
            'through Model.ApiSem/ApiRun (C07)'},
]
TRUSTED = ['translator gen/gen_cli.py (fail-closed; its output is compared with the live COMMANDS / Ipmi objects each run)',
           'ast.literal_eval (the -r routing literal; a Section variable in Coq, its result is passed to the checker)',
           'the conforming BMC harness/c20_bmc.py and the table API_EQUIV of "corresponding API calls" (specification side)']

SCRATCH = C.BUILD / 'c20'
# commands covered by theorem C20_same_request (mirror of Proofs/CliApiProofs.v:cli_api_spec); the others
# are decided by the oracle only (oracle_only there) - both lists are copied into the evidence
THEOREM_COVERED = ['bmc info', 'bmc reset cold', 'bmc reset warm', 'sensor rearm', 'picmg frucontrol cr', 'picmg power get',
                   'picmg portstate get', 'picmg channel status', 'picmg send heartbeat', 'chassis status',
                   'chassis power off', 'chassis power on', 'chassis power cycle', 'chassis power reset',
                   'chassis power diag', 'chassis power soft']
POWER_CODES = {'off': 0, 'on': 1, 'cycle': 2, 'reset': 3, 'diag': 4, 'soft': 5}     # IPMI 2.0 table 28-4


# =====================================================================================
# running main() in-process
# =====================================================================================
class Clock:
    """stands in for the `time` module inside pyipmi.hpm / pyipmi.helper: never sleeps"""

    def __init__(self):
        self.t = 0.0

    def time(self):
        self.t += 0.25
        return self.t

    def sleep(self, s):
        self.t += s


def make_exc(f):
    """'timeout' | completion code -> the exception a transport raises"""
    import pyipmi.errors as E
    return E.IpmiTimeoutError() if f == 'timeout' else E.CompletionCodeError(f)


class Iface(F.ScriptedInterface):
    """stage_fault = (stage, 'timeout' | cc): the interface call of that stage ('open', 'establish',
    'close_session', 'close') raises; `calls` records the interface calls in order ('command' is added by
    the COMMANDS wrapper of run_cli)"""

    def __init__(self, handler, stage_fault=None):
        super().__init__(handler)
        self.session = None
        self.targets = []
        self.calls = []
        self.stage_fault = stage_fault

    def _stage(self, name):
        self.calls.append(name)
        if self.stage_fault is not None and self.stage_fault[0] == name:
            raise make_exc(self.stage_fault[1])

    def open(self):
        self._stage('open')

    def close(self):
        self._stage('close')

    def close_session(self):
        self._stage('close_session')

    def establish_session(self, session):
        self.session = session
        self._stage('establish')

    def send_and_receive_raw(self, target, lun, netfn, raw_bytes):
        self.targets.append(target)
        return super().send_and_receive_raw(target, lun, netfn, raw_bytes)

    def send_and_receive(self, req):
        self.targets.append(req.target)
        return super().send_and_receive(req)


@contextlib.contextmanager
def patched_time():
    import pyipmi.hpm
    import pyipmi.helper
    clk = Clock()
    old = (pyipmi.hpm.time, pyipmi.helper.time)
    pyipmi.hpm.time = pyipmi.helper.time = clk
    try:
        yield clk
    finally:
        pyipmi.hpm.time, pyipmi.helper.time = old


class Obs:
    """everything observed of one main() run"""
    status = None        # SystemExit code (0 when main returned)
    exc = None           # exception that left main
    stdout = ''
    stderr = ''
    factory = None       # (name, args, kwargs) given to create_interface
    itf = None
    ipmi = None
    selected = None      # (index into COMMANDS, args list) when a handler was called
    verbose = None
    json = None

    def requests(self):
        return [x.canon()[:4] for x in self.itf.log] if self.itf is not None else []


# every main() run / API connection made in THIS process, in order (histories for replays)
PROCESS_LOG = []


def run_cli(argv, handler, cfg=None, stage_fault=None):
    """pyipmi.ipmitool.main() with sys.argv = ['ipmitool.py'] + argv over `handler`"""
    PROCESS_LOG.append({'kind': 'cli', 'argv': list(argv)} if cfg is None else
                       {'kind': 'cli', 'argv': list(argv), 'cfg': cfg})
    import logging
    import pyipmi
    import pyipmi.interfaces
    import pyipmi.logger
    import pyipmi.ipmitool as T
    o = Obs()
    names = [c.NAME for c in pyipmi.interfaces.INTERFACES]

    def factory(name, *a, **kw):
        o.factory = (name, a, kw)
        if name not in names:           # as the real create_interface
            raise RuntimeError('unknown interface with name %s' % name)
        o.itf = Iface(handler, stage_fault)
        return o.itf

    real_conn = pyipmi.create_connection

    def conn(itf):
        o.ipmi = real_conn(itf)
        return o.ipmi

    def add_handler(h):
        o.verbose = (h.level == logging.DEBUG)

    real_cmds = T.COMMANDS

    def wrap(i, fn):
        def f(ipmi, args):
            o.selected = (i, list(args))
            if o.itf is not None:
                o.itf.calls.append('command')
            return fn(ipmi, args)
        return f
    saved = (pyipmi.interfaces.create_interface, pyipmi.create_connection, pyipmi.logger.add_log_handler,
             pyipmi.logger.set_log_level, sys.argv, T.json_output)
    pyipmi.interfaces.create_interface = factory
    pyipmi.create_connection = conn
    pyipmi.logger.add_log_handler = add_handler
    pyipmi.logger.set_log_level = lambda lvl: None
    T.COMMANDS = tuple(T.Command(c.name, wrap(i, c.fn)) for i, c in enumerate(real_cmds))
    T.json_output = False
    sys.argv = ['ipmitool.py'] + list(argv)
    out, err = io.StringIO(), io.StringIO()
    try:
        with contextlib.redirect_stdout(out), contextlib.redirect_stderr(err), patched_time():
            try:
                T.main()
                o.status = 0
            except SystemExit as e:
                o.status = 0 if e.code is None else e.code
            except BaseException as e:  # noqa
                o.exc = e
    finally:
        o.json = bool(T.json_output)
        (pyipmi.interfaces.create_interface, pyipmi.create_connection, pyipmi.logger.add_log_handler,
         pyipmi.logger.set_log_level, sys.argv, T.json_output) = saved
        T.COMMANDS = real_cmds
    o.stdout, o.stderr = out.getvalue(), err.getvalue()
    return o


def run_api(fn, handler):
    """the corresponding API call, made directly on an Ipmi object over `handler`"""
    import pyipmi
    PROCESS_LOG.append({'kind': 'api', 'session': None, 'judge': False})
    itf = Iface(handler)
    ipmi = pyipmi.create_connection(itf)
    ipmi.target = pyipmi.Target(0x20)
    out = io.StringIO()
    exc = None
    with contextlib.redirect_stdout(out), patched_time():
        try:
            ipmi.open()
            fn(ipmi)
        except Exception as e:  # noqa
            exc = e
        finally:
            ipmi.close()
    return [x.canon()[:4] for x in itf.log], exc


# =====================================================================================
# specification side: the API call that corresponds to each command, its argument grammar
# =====================================================================================
def _readings(i, s, with_lun):
    import pyipmi.errors as E
    try:
        if s.type == 0x01:
            i.get_sensor_reading(s.number, s.owner_lun) if with_lun else i.get_sensor_reading(s.number)
        elif s.type == 0x02:
            i.get_sensor_reading(s.number)
    except E.CompletionCodeError:
        if with_lun:
            raise


def _sdr_list(i, a):
    d = i.get_device_id()
    it = i.sdr_repository_entries() if d.supports_function('sdr_repository') else i.device_sdr_entries()
    for s in it:
        _readings(i, s, False)


def _portstate_all(i, a):
    import pyipmi.errors as E
    for itf in range(3):
        for ch in range(16):
            try:
                i.get_port_state(ch, itf)
            except E.CompletionCodeError:
                pass


def _hpm_caps(i, a):
    cap = i.get_target_upgrade_capabilities()
    for c in cap.components:
        i.get_component_properties(c)


def _raw(i, a):
    lun = 0
    if a and a[0] == 'lun':
        lun, a = int(a[1], 0), a[2:]
    i.raw_command(lun, int(a[0], 0), bytes(int(x, 0) for x in a[1:]))


# command -> (API call(ipmi, args), argument grammar); numbers: 'n0' = int(x, 0) (dec/hex), 'n' = decimal
API_EQUIV = {
    'bmc info': (lambda i, a: i.get_device_id(), []),
    'bmc reset cold': (lambda i, a: i.cold_reset(), []),
    'bmc reset warm': (lambda i, a: i.warm_reset(), []),
    'sel list': (lambda i, a: list(i.sel_entries()), []),
    'sel clear': (lambda i, a: i.clear_sel(), []),
    'sensor rearm': (lambda i, a: i.rearm_sensor_events(int(a[0], 0)), [('n0', 'sensor')]),
    'sdr list': (_sdr_list, []),
    'sdr raw': (lambda i, a: i.get_device_sdr(int(a[0], 0)), [('n0', 'sdr')]),
    'sdr show': (lambda i, a: _readings(i, i.get_device_sdr(int(a[0], 0)), True), [('n0', 'sdr')]),
    'sdr showall': (lambda i, a: [_readings(i, s, True) for s in i.device_sdr_entries()], []),
    'fru print': (lambda i, a: i.get_fru_inventory(int(a[0]) if a else 0), [('n?', 'fru'), ('all?',)]),
    'picmg frucontrol cr': (lambda i, a: i.fru_control_cold_reset(0), []),
    'picmg power get': (lambda i, a: i.get_power_level(0, 0), []),
    'picmg portstate get': (lambda i, a: i.get_port_state(int(a[0]), int(a[1])), [('n', 'channel'), ('n', 'interface')]),
    'picmg portstate getall': (_portstate_all, []),
    'picmg channel status': (lambda i, a: i.get_power_channel_status(int(a[0])), [('n', 'pchannel')]),
    'picmg send heartbeat': (lambda i, a: i.send_pm_heartbeat(), []),
    'picmg channel power': (lambda i, a: i.send_channel_power(int(a[0]), a[1] == 'on', float(a[2])),
                            [('n', 'pchannel'), ('onoff',), ('n', 'limit')]),
    'raw': (_raw, 'raw'),
    'hpm capabilities': (_hpm_caps, []),
    'hpm check': (lambda i, a: i.open_upgrade_image(a[0]), [('file',)]),
    'hpm install': (lambda i, a: i.install_component_from_file(a[0], int(a[1])), [('file',), ('n', 'component')]),
    'chassis status': (lambda i, a: i.get_chassis_status(), []),
}
for _sub, _code in POWER_CODES.items():
    API_EQUIV['chassis power ' + _sub] = ((lambda code: lambda i, a: i.chassis_control(code))(_code), [])

DOMAIN = {'sensor': [1, 2, 3, 7], 'sdr': [1, 2, 4, 7, 8, 9], 'fru': [0, 1, 2], 'channel': [1, 2, 3, 4],
          'interface': [0, 1], 'pchannel': [1, 2, 16], 'limit': [0, 1, 15], 'component': [0, 2]}


def render_num(rng, n, kind):
    if kind == 'n':
        return str(n)
    r = rng.random()
    if r < 0.4:
        return str(n)
    if r < 0.75:
        return '0x%x' % n
    if r < 0.9:
        return '0x%02X' % n
    return '0X%x' % n


def hpm_file(spec):
    SCRATCH.mkdir(parents=True, exist_ok=True)
    s = dict(B.DEFAULT_SPEC)
    s.update(spec or {})
    comp = 0 if s['components'] & 1 else 2
    p = SCRATCH / ('img-%02x-%06x-%04x-%d.hpm' % (s['device_id'], s['manufacturer_id'], s['product_id'], comp))
    p.write_bytes(B.hpm_image(s['device_id'], s['manufacturer_id'], s['product_id'], component=comp))
    return str(p), comp


def gen_args(rng, name, spec):
    gram = API_EQUIV[name][1]
    dev = B.Bmc(spec)
    out = []
    f, comp = hpm_file(spec)
    port = rng.choice(sorted(dev.ports)) if dev.ports else (0, 1)       # a populated (interface, channel)
    for g in gram:
        if g[0] in ('n0', 'n'):
            dom = {'sdr': dev.sdr_ids(), 'sensor': sorted(dev.sensor_numbers()) or [1], 'component': [comp],
                   'fru': sorted(dev.frus), 'channel': [port[1]], 'interface': [port[0]]}.get(g[1]) or DOMAIN[g[1]]
            out.append(render_num(rng, rng.choice(dom), g[0]))
        elif g[0] == 'n?':
            if rng.random() < 0.8:
                out.append(str(rng.choice(sorted(dev.frus))))
            else:
                break
        elif g[0] == 'all?':
            if rng.random() < 0.5:
                out.append('all')
        elif g[0] == 'onoff':
            out.append(rng.choice(['on', 'off']))
        elif g[0] == 'file':
            out.append(f)
    return out


ENCS = ['ascii', 'ascii', '6bit', 'bcd', 'bin']
NAMES = ['Temp CPU', 'V 12', 'FAN 1', 'HOT SWAP', '12.5-3', 'X', '', 'A_VERY_LONG_NAME_', 'IPMB-0']


def gen_sdrs(rng):
    """an SDR repository: full / compact / event-only / locator / OEM / unknown records, owner LUNs 0..3,
    sensor numbers incl. 0 and 255 (the same number may live on several LUNs), entity ids / instances,
    id strings in several encodings; record ids ascending with gaps"""
    out, rid = [], 0
    used = set()
    for _ in range(rng.choice([1, 2, 3, 5, 8, 12])):
        rid += rng.choice([1, 1, 2, 7, 0x100])
        k = rng.choice(['full', 'full', 'full', 'compact', 'compact', 'event', 'fru', 'mc', 'oem', 'unknown'])
        d = {'k': k, 'id': rid, 'enc': rng.choice(ENCS), 'name': rng.choice(NAMES),
             'entity': [rng.choice([0, 3, 7, 0x20, 0xa0, 0xff]), rng.choice([0, 1, 0x60, 0x7f, 0xff])]}
        if d['enc'] == 'bcd':
            d['name'] = rng.choice(['12.5-3', '007', '4 2', '0'])
        if k in ('full', 'compact', 'event'):
            for _try in range(20):
                lun, num = rng.choice([0, 0, 1, 2, 3]), rng.choice([0, 1, 2, 5, 0x7f, 0x80, 0xfe, 0xff, rng.randrange(256)])
                if (lun, num) not in used:
                    break
            used.add((lun, num))
            d['lun'], d['num'] = lun, num
        if k == 'full':
            d.update({'fmt': rng.choice([0, 1, 2]), 'm': rng.choice([1, 2, 10, -3, 511]), 'b': rng.choice([0, 5, -7]),
                      'k1': rng.choice([0, 1, -2]), 'k2': rng.choice([0, -1, 2]),
                      'thresholds': [rng.choice([0, 5, 0x7f, 0x80, 250, 255]) for _ in range(6)]})
        if k == 'fru':
            d['fru_id'] = rng.choice([0, 1, 2, 254])
        if k == 'oem':
            d['payload'] = bytes(rng.randrange(256) for _ in range(rng.choice([3, 4, 10, 30]))).hex()
        if k == 'unknown':
            d['type'] = rng.choice([0x08, 0x09, 0x0a, 0x10, 0x13, 0x14])
            if d['type'] == 0x13:
                continue          # type 0x13 has its own fixed layout; not generated
        out.append(d)
    if not out:
        out.append({'k': 'full', 'id': 1, 'num': 255, 'lun': 3, 'name': 'Only'})
    return out


def gen_sel(rng):
    out, rid = [], 0
    for _ in range(rng.choice([0, 1, 2, 4, 9])):
        rid += rng.choice([1, 1, 3, 0x100])
        t = rng.choice([0x02, 0x02, 0x02, 0xc0, 0xdf, 0xe0, 0xff, rng.randrange(0xc0, 0x100)])
        d = {'id': rid, 'type': t}
        if t == 0x02:
            d.update({'ts': rng.choice([0, 1, 0x5f000000, 0xffffffff]), 'gen': rng.choice([0x20, 0x0001, 0x8220, 0xffff]),
                      'stype': rng.choice([1, 2, 0x12, 0xf0, 0xff]), 'num': rng.choice([0, 7, 255]),
                      'ev': rng.choice([0x01, 0x6f, 0x81, 0xef]), 'data': [rng.randrange(256) for _ in range(3)]})
        out.append(d)
    return out


def gen_frus(rng):
    out = {}
    for fid in rng.sample([0, 1, 2, 5, 254], rng.choice([1, 2, 3])):
        c, b, p = rng.random() < 0.7, rng.random() < 0.8, rng.random() < 0.7
        if not (c or b or p):
            b = True
        out[str(fid)] = {'chassis': c, 'board': b, 'product': p, 'custom': rng.choice([0, 1, 3]),
                         'enc': rng.choice(ENCS), 'multirecord': rng.random() < 0.6, 'nrec': rng.choice([1, 2, 4])}
    return out


def gen_spec(rng):
    """one BMC: device id, support bits, SDR / SEL / FRU content, port population, HPM components"""
    s = {}
    r = rng.random()
    if r < 0.25:
        s['sdr'] = rng.choice(['mixed', 'sensors', 'oem', 'one'])
    elif r < 0.9:
        s['sdr'] = gen_sdrs(rng)
    if rng.random() < 0.5:
        s['support'] = rng.choice([0xbf, 0xbd, 0x3e, 0x01, 0x83])     # always SDR repository or sensor device
    r = rng.random()
    if r < 0.3:
        s['sel'] = rng.choice([0, 1, 2, 5])
    elif r < 0.8:
        s['sel'] = gen_sel(rng)
    if rng.random() < 0.6:
        s['frus'] = gen_frus(rng)
    if rng.random() < 0.3:
        s['aux'] = False
    if rng.random() < 0.5:
        s['power_state'], s['last_event'], s['misc'] = rng.randrange(128), rng.randrange(32), rng.randrange(128)
        s['front_panel'] = rng.random() < 0.5
    if rng.random() < 0.5:
        s['components'] = rng.choice([0x01, 0x05, 0x04, 0x81, 0xff])
    if rng.random() < 0.4:
        s['hpm_missing'] = rng.sample([1, 2, 3, 4], rng.choice([1, 2]))
    if rng.random() < 0.6:
        # port population with gaps: any of 3 interfaces x channels 0..15 (what `portstate getall` walks) and beyond
        s['ports'] = sorted(set((rng.randrange(3), rng.choice([0, 1, 2, 5, 15])) for _ in range(rng.choice([0, 1, 3, 8]))))
        s['ports'] = [list(p) for p in s['ports']]
    if rng.random() < 0.3:
        s['device_id'], s['product_id'] = rng.randrange(256), rng.randrange(65536)
    return s


# ---- options (specification side: a configuration and how it is written on the command line)
WORDS = ['admin', 'root', 'p4ss', 'Pa ss', 'x', '-dash', 'a=b', 'a,b', '"q"', "it's", '10.0.0.1', 'bmc.example', '']
LEVELS = {'user': 2, 'operator': 3, 'administrator': 4}
IFACE_OPTS = {
    'aardvark': [('serial=2237', {'serial_number': '2237'}), ('pullups=on', {'enable_i2c_pullups': True}),
                 ('pullups=off', {'enable_i2c_pullups': False}), ('power=on', {'enable_target_power': True}),
                 ('power=off', {'enable_target_power': False}), ('fastmode=on', {'enable_fastmode': True}),
                 ('fastmode=off', {'enable_fastmode': False})],
    'ipmitool': [('interface_type=lanplus', {'interface_type': 'lanplus'}), ('interface_type=serial-terminal', {'interface_type': 'serial-terminal'}),
                 ('cipher=3', {'cipher': '3'}), ('cipher=17', {'cipher': '17'})],
    'ipmbdev': [('port=/dev/ipmb-0', {'port': '/dev/ipmb-0'}), ('port=/dev/i2c=4', {'port': '/dev/i2c=4'})],
    'rmcp': [], 'mock': [],
}


def parse_expected(iface, opt):
    """what ONE interface option `name=value` means for that interface (usage text of the tool)"""
    name, _, value = opt.partition('=')
    if iface == 'aardvark':
        if name == 'serial':
            return {'serial_number': value}
        key = {'pullups': 'enable_i2c_pullups', 'power': 'enable_target_power', 'fastmode': 'enable_fastmode'}[name]
        return {key: value == 'on'}
    if iface == 'ipmitool':
        return {name: value}
    if iface == 'ipmbdev':
        return {'port': value}
    return {}


def gen_config(rng, full=False):
    """a configuration (what the user means) -> expected values; rendered by render_config"""
    cfg = {}
    p = 0.9 if full else 0.4
    if rng.random() < p:
        cfg['t'] = rng.choice([0x20, 0x82, 0x72, 1, 255, rng.randrange(1, 256)])
    r = rng.random()
    if r < 0.25:
        cfg['b'] = rng.choice([0, 1, 7, 15])
    elif r < 0.5:
        hops = [[(0x81, 0x20, 0), (0x20, 0x82, None)], [(0x81, 0x20, 0), (0x20, 0x82, 7), (0x20, 0x72, None)],
                [(0x20, 0x72, 7)], []]
        cfg['r'] = rng.choice(hops)
    if rng.random() < p:
        cfg['I'] = rng.choice(['aardvark', 'ipmitool', 'ipmbdev', 'rmcp', 'mock'])
    opts = IFACE_OPTS[cfg.get('I', 'aardvark')]
    if opts and rng.random() < p:
        cfg['o'] = rng.sample(opts, rng.randrange(1, min(3, len(opts)) + 1))
    if rng.random() < (0.7 if full else 0.4):
        cfg['H'] = rng.choice(['10.0.0.1', 'bmc.example', 'fe80::1'])
        if rng.random() < 0.6:
            cfg['p'] = rng.choice([623, 1623, 65535, rng.randrange(1, 65536)])
        if rng.random() < 0.7:
            cfg['U'] = rng.choice(WORDS)
        if rng.random() < 0.7:
            cfg['P'] = rng.choice(WORDS)
        if rng.random() < 0.6:
            cfg['L'] = rng.choice(list(LEVELS))
    elif rng.random() < 0.3:
        # session options without -H have no effect
        cfg['U'] = rng.choice(WORDS)
        cfg['L'] = rng.choice(list(LEVELS))
    if rng.random() < 0.2:
        cfg['v'] = True
    if rng.random() < 0.15:
        cfg['J'] = True
    return cfg


def render_routing(rng, hops):
    sp = rng.choice(['', ' '])
    def num(x):
        return 'None' if x is None else (('0x%02x' % x) if rng.random() < 0.6 else str(x))
    return '[' + (',' + sp).join('(' + (',' + sp).join(num(x) for x in h) + ')' for h in hops) + ']'


def render_config(rng, cfg):
    items = []
    for k, v in cfg.items():
        if k in ('v', 'J'):
            items.append(['-' + k])
            continue
        if k == 't':
            val = render_num(rng, v, 'n0')
        elif k == 'p':
            val = render_num(rng, v, 'n0')
        elif k == 'b':
            val = str(v)
        elif k == 'r':
            val = render_routing(rng, v)
        elif k == 'o':
            val = ','.join(x[0] for x in v)
        elif k == 'L':
            val = rng.choice([v, v.upper(), v.capitalize()])
        else:
            val = v
        if val != '' and rng.random() < 0.25:
            items.append(['-' + k + val])
        else:
            items.append(['-' + k, val])
    rng.shuffle(items)
    # -b and -r both set the routing: the later one wins, so keep at most one (gen_config does)
    return [w for it in items for w in it]


def expected_of(cfg):
    """what the options mean (property text): values the library must receive"""
    kw = {}
    for _, d in cfg.get('o', []):
        kw.update(d)
    routing = None
    if 'b' in cfg:
        routing = [(0x20, cfg['b'], 0)]
    if 'r' in cfg:
        routing = [tuple(h) for h in cfg['r']]
    sess = None
    if 'H' in cfg:
        sess = (cfg['H'], cfg.get('p', 623), cfg.get('U', ''), cfg.get('P', ''), LEVELS[cfg.get('L', 'administrator')])
    # (host, port, user, password, privilege level, auth type): untouched defaults without -H
    raw = (None, None, None, None, 4, 0) if sess is None else sess + (4,)
    return {'iface': cfg.get('I', 'aardvark'), 'kwargs': kw, 'addr': cfg.get('t', 0x20), 'routing': routing,
            'session': sess, 'session_raw': raw}


def session_raw(s):
    return (s.rmcp_host, s.rmcp_port, s.auth_username, s.auth_password, s.priv_level, s.auth_type)


def observed_setup(o):
    """what the library received"""
    if o.ipmi is None:
        return None
    t = o.ipmi.target
    routing = None if t.routing is None else [(r.rq_sa, r.rs_sa, r.channel) for r in t.routing]
    s = o.ipmi.session
    sess = None
    if s.rmcp_host is not None:
        sess = (s.rmcp_host, s.rmcp_port, s.auth_username, s.auth_password, s.priv_level)
    return {'iface': o.factory[0], 'kwargs': dict(o.factory[2]), 'addr': t.ipmb_address, 'routing': routing,
            'session': sess, 'session_raw': session_raw(s)}


# =====================================================================================
# Coq literals
# =====================================================================================
def c_strs(l):
    return C.c_list([C.c_str(x) for x in l])


def c_oz(x):
    return C.c_opt(None if x is None else C.c_Z(x))


def c_hops(h):
    return C.c_list([C.c_list([c_oz(x) for x in t]) for t in h])


def py_exc_term(e):
    n = C.exc_class(e)
    if n != 'OtherError':
        return C.c_err(n)
    k = {'ValueError': 'ValueError', 'KeyError': 'KeyError', 'TypeError': 'TypeError', 'AttributeError': 'AttributeError',
         'IndexError': 'IndexError', 'AssertionError': 'AssertionError'}.get(type(e).__name__, 'OtherExc')
    return '(OtherError %s)' % k


def c_outcome(o):
    """the observation of main's set-up as a term of Model.Cli.outcome"""
    if o.selected is None:
        if o.exc is not None:
            return '(Raise %s)' % py_exc_term(o.exc)
        return '(Exit %s)' % C.c_Z(o.status)
    s = observed_setup(o)
    kw = C.c_list(['(%s, %s)' % (C.c_str(k), ('IBool %s' % C.c_bool(v)) if isinstance(v, bool) else 'IStr %s' % C.c_str(v))
                   for k, v in sorted(s['kwargs'].items())])
    def sstr(x):
        return C.c_str('<None>' if x is None else str(x))          # None never equals what the model says
    sess = 'None' if s['session'] is None else '(Some (mkSession %s %s %s %s %d))' % (
        sstr(s['session'][0]), C.c_Z(s['session'][1] if isinstance(s['session'][1], int) else -1),
        sstr(s['session'][2]), sstr(s['session'][3]), s['session'][4] if isinstance(s['session'][4], int) else 0)
    return '(Run (mkPlan %s %s %s %s %s %s %s %s %s))' % (
        C.c_str(s['iface']), kw, C.c_nat(o.selected[0]), c_strs(o.selected[1]), c_oz(s['addr']),
        C.c_opt(None if s['routing'] is None else c_hops(s['routing'])), sess, C.c_bool(o.verbose), C.c_bool(o.json))


def literal_of(argv):
    """what ast.literal_eval gives for the LAST -r value on this command line (as main would see it)"""
    import getopt
    try:
        opts, _ = getopt.getopt(argv, 't:hvVI:H:U:P:L:o:b:p:r:J')
    except getopt.GetoptError:
        return 'None'
    val = None
    for k, v in opts:
        if k == '-r':
            val = v
    if val is None:
        return 'None'
    try:
        x = ast.literal_eval(val)
        ok = isinstance(x, (list, tuple)) and all(isinstance(t, (list, tuple)) and all(
            e is None or (isinstance(e, int) and not isinstance(e, bool)) for e in t) for t in x)
        if not ok:
            return '(Some (Err OutOfFuel))'
        return '(Some (Ok %s))' % c_hops(x)
    except Exception:  # noqa
        return '(Some (Err (OtherError OtherExc)))'


def printable(s):
    return all(32 <= ord(ch) < 127 for ch in s)


# =====================================================================================
# oracles (property text on the implementation; independent of the model)
# =====================================================================================
def bmc_of(inp):
    fault = inp.get('fault')
    return B.Bmc(inp.get('spec'), tuple(fault) if fault else None)


def oracle_command(inp):
    """no Python error; requests equal those of the corresponding API call"""
    name, args = inp['command'], inp['args']
    o = run_cli(inp.get('options', []) + name.split(' ') + args, bmc_of(inp).handle)
    if o.exc is not None:
        return 'Python error %s: %s' % (type(o.exc).__name__, str(o.exc)[:150])
    if name not in API_EQUIV:
        return None
    api_reqs, api_exc = run_api(lambda i: API_EQUIV[name][0](i, args), bmc_of(inp).handle)
    import pyipmi.errors as E
    if isinstance(api_exc, E.CompletionCodeError):
        # the BMC refuses the documented sequence too (e.g. a sensor read on a LUN where it does not live):
        # the tool must say so, exit non-zero, and have sent the same requests
        if not o.status or ('%02x' % api_exc.cc) not in o.stdout.lower():
            return 'the API call ends with completion code 0x%02x but the tool: status %r, output %r' % (
                api_exc.cc, o.status, o.stdout[-100:])
        if o.requests() != api_reqs:
            return 'requests differ from the API call (both end with 0x%02x): tool %s, API %s' % (
                api_exc.cc, o.requests()[-2:], api_reqs[-2:])
        return None
    if api_exc is not None:
        return 'the API call itself failed on the reference BMC (%s: %s) - harness/BMC defect' % (type(api_exc).__name__, api_exc)
    if o.status != 0:
        return 'exit status %r with output %r although the API call succeeds' % (o.status, o.stdout[-120:])
    if o.requests() != api_reqs:
        k = next((i for i, (a, b) in enumerate(zip(o.requests(), api_reqs)) if a != b), min(len(api_reqs), len(o.requests())))
        return 'requests differ from the API call at #%d: tool %s, API %s (%d vs %d requests)' % (
            k, o.requests()[k:k + 1], api_reqs[k:k + 1], len(o.requests()), len(api_reqs))
    return None


def oracle_power(inp):
    """'chassis power <x>' sends Chassis Control with its own option code, once"""
    sub = inp['sub']
    dev = B.Bmc(inp.get('spec'))
    o = run_cli(['chassis', 'power', sub], dev.handle)
    if o.exc is not None:
        return 'Python error %s: %s' % (type(o.exc).__name__, str(o.exc)[:150])
    want = [(0x00, 0x02, 0, bytes([POWER_CODES[sub]]).hex())]
    if o.requests() != want or dev.power_actions != [POWER_CODES[sub]]:
        return 'sent %s, expected Chassis Control with option %d' % (o.requests(), POWER_CODES[sub])
    return None


def oracle_options(inp):
    """options take effect exactly as given"""
    return judge_setup(run_cli(inp['argv'], B.Bmc().handle, cfg=inp['cfg']), inp['cfg'])


def judge_setup(o, cfg):
    cfg = dict(cfg)
    if 'o' in cfg:
        cfg['o'] = [tuple(x) for x in cfg['o']]
    if o.exc is not None:
        return 'Python error %s: %s' % (type(o.exc).__name__, str(o.exc)[:150])
    got = observed_setup(o)
    want = expected_of(cfg)
    if got is None:
        return 'no connection was made (exit status %r, output %r)' % (o.status, o.stdout[-100:])
    bad = [k for k in want if got[k] != want[k]]
    if bad:
        return 'option values arrive differently: ' + '; '.join('%s: got %r, given %r' % (k, got[k], want[k]) for k in bad)
    if o.itf is not None and o.itf.targets and o.itf.targets[0] is not o.ipmi.target:
        return 'the request does not carry the configured target'
    if want['session'] is not None and (o.itf.session is not o.ipmi.session):
        return 'the interface did not get the configured session'
    if o.ipmi.session.interface is not o.itf:
        return 'the session is not bound to the interface of this run'
    return None


def oracle_history(inp):
    """a sequence of main() runs / API connections in ONE process: every call must behave as if it
    were the only one - judged against what ITS OWN options say (stateless), whatever earlier calls
    configured; connections must not share a session"""
    import pyipmi
    made = []                                   # (ipmi, interface) of every connection so far
    for n, c in enumerate(inp['calls']):
        msg = None
        if c['kind'] == 'cli':
            o = run_cli(c['argv'], B.Bmc().handle)
            if 'cfg' in c:
                msg = judge_setup(o, c['cfg'])
            ipmi, itf = o.ipmi, o.itf
        else:
            itf = Iface(B.Bmc().handle)
            ipmi = pyipmi.create_connection(itf)
            if c.get('judge', True):
                if session_raw(ipmi.session) != (None, None, None, None, 4, 0):
                    msg = 'a new connection starts with session %r instead of the defaults' % (session_raw(ipmi.session),)
                elif c.get('session'):
                    h, port, u, pw, lvl = c['session']
                    ipmi.session.set_session_type_rmcp(h, port)
                    ipmi.session.set_auth_type_user(u, pw)
                    ipmi.session.set_priv_level(lvl)
                    if session_raw(ipmi.session) != (h, port, u, pw, LEVELS[lvl], 4):
                        msg = 'session setters: got %r' % (session_raw(ipmi.session),)
            elif c.get('session'):
                h, port, u, pw, lvl = c['session']
                ipmi.session.set_session_type_rmcp(h, port)
                ipmi.session.set_auth_type_user(u, pw)
                ipmi.session.set_priv_level(lvl)
        if msg is None and ipmi is not None and (c['kind'] == 'api' and c.get('judge', True) or 'cfg' in c):
            if ipmi.session.interface is not itf:
                msg = 'the session of this connection is bound to another interface'
            for k, (pi, pitf) in enumerate(made):
                if pi.session is ipmi.session:
                    msg = 'this connection shares its session object with connection %d' % k
                elif pi.session.interface is not pitf:
                    msg = 'the session of connection %d was re-bound to another interface' % k
        if ipmi is not None:
            made.append((ipmi, itf))
        if msg:
            return 'call %d of the history (%s): %s' % (n, ' '.join(c['argv']) if c['kind'] == 'cli' else 'API create_connection', msg)
    return None


class RawDev:
    def __init__(self, reply):
        self.reply = reply
        self.seen = []

    def handle(self, netfn, cmd, lun, data, req=None):
        self.seen.append((lun, netfn, bytes([cmd]) + bytes(data)))
        return self.reply


def oracle_raw(inp):
    """raw sends exactly (lun, netfn, bytes) and prints exactly the reply bytes in hex"""
    dev = RawDev(bytes.fromhex(inp['reply']))
    o = run_cli(inp['argv'], dev.handle)
    if o.exc is not None:
        return 'Python error %s: %s' % (type(o.exc).__name__, str(o.exc)[:150])
    want = (inp['lun'], inp['netfn'], bytes.fromhex(inp['data']))
    if dev.seen != [want]:
        return 'sent %s, given %s' % ([(a, b, c.hex()) for a, b, c in dev.seen], (want[0], want[1], want[2].hex()))
    line = o.stdout.rstrip('\n').split('\n')[-1] if o.stdout else ''
    try:
        back = bytes(int(t, 16) for t in line.split(' ')) if line else b''
        ok = back == dev.reply and all(len(t) == 2 for t in line.split(' ') if line)
    except ValueError:
        ok = False
    if not ok or o.status != 0:
        return 'printed %r (status %r) for reply %s' % (line, o.status, dev.reply.hex())
    return None


def oracle_fault(inp):
    """an error code / time-out that the API call lets through ends the tool with a message
    and a non-zero exit status"""
    import pyipmi.errors as E
    name, args = inp['command'], inp['args']
    api_reqs, api_exc = run_api(lambda i: API_EQUIV[name][0](i, args), bmc_of(inp).handle)
    o = run_cli(name.split(' ') + args, bmc_of(inp).handle)
    if isinstance(api_exc, E.CompletionCodeError):
        tag = '%02x' % api_exc.cc
        if o.exc is not None or not o.status or tag not in o.stdout.lower():
            return 'completion code 0x%s: status %r, exception %r, output %r' % (tag, o.status, o.exc, o.stdout[-100:])
    elif isinstance(api_exc, E.IpmiTimeoutError):
        if o.exc is not None or not o.status or not o.stdout.strip():
            return 'time-out: status %r, exception %r, output %r' % (o.status, o.exc, o.stdout[-100:])
    elif api_exc is None:
        if o.exc is not None or o.status != 0:
            return 'the API call absorbs this fault but the tool ends with status %r / %r' % (o.status, o.exc)
    return None


STAGES = ['open', 'establish', 'command', 'close_session', 'close']


def run_stage_fault(inp):
    stage, f = inp['stage'], inp['fault']
    if stage == 'command':          # the transport raises on the first request of the command
        dev = B.Bmc()
        state = {'n': 0}

        def handler(netfn, cmd, lun, data, req=None):
            state['n'] += 1
            if state['n'] == 1:
                raise make_exc(f)
            return dev.handle(netfn, cmd, lun, data, req)
        return run_cli(inp['argv'], handler)
    return run_cli(inp['argv'], B.Bmc().handle, stage_fault=(stage, f))


def oracle_stage_fault(inp):
    """a completion code / time-out raised while the interface is opened, the session established or the
    command runs ends the tool with a message (naming the code) and a non-zero status - no raw exception -
    and session and interface are closed.  A fault while closing is not judged (the property does not say)."""
    stage, f = inp['stage'], inp['fault']
    if stage in ('close_session', 'close'):
        return None
    o = run_stage_fault(inp)
    what = 'time-out' if f == 'timeout' else 'completion code 0x%02x' % f
    if o.exc is not None:
        return '%s while %s leaves main as %s (no message, no exit status)' % (what, stage, type(o.exc).__name__)
    if not o.status:
        return '%s while %s: exit status %r' % (what, stage, o.status)
    if not o.stdout.strip() or (f != 'timeout' and ('%02x' % f) not in o.stdout.lower()):
        return '%s while %s: output %r does not name it' % (what, stage, o.stdout[-100:])
    if o.itf is None or o.itf.calls[-2:] != ['close_session', 'close']:
        return '%s while %s: session / interface not closed (interface calls %s)' % (what, stage, o.itf and o.itf.calls)
    return None


# ---------------------------------------------------------------------------------------------
# the real `ipmitool` back-end below main(): pyipmi.interfaces.create_interface is NOT substituted; the
# subprocess it would start is (pyipmi.interfaces.ipmitool.Popen), and answers from the reference BMC
RAW_RE = re.compile(r' -l (\d+) raw ((?:0x[0-9a-f]{2} ?)+)')


def fake_popen_class(dev, lines):
    class FakePopen:
        def __init__(self, cmd, shell=False, stdout=None, **kw):
            lines.append(cmd)
            self.returncode = 0
            m = RAW_RE.search(cmd)
            self.out = b''
            if m:
                bs = [int(x, 16) for x in m.group(2).split()]
                rsp = dev.handle(bs[0], bs[1], int(m.group(1)), bytes(bs[2:]))
                if rsp[0] == 0:
                    self.out = (' ' + ' '.join('%02x' % b for b in rsp[1:]) + '\n').encode()
                else:
                    self.returncode = 1
                    self.out = ('Unable to send RAW command (channel=0x0 netfn=0x%x lun=0x%x cmd=0x%x rsp=0x%x): x\n'
                                % (bs[0], int(m.group(1)), bs[1], rsp[0])).encode()

        def communicate(self):
            return self.out, None
    return FakePopen


@contextlib.contextmanager
def patched_popen(dev, lines):
    import pyipmi.interfaces.ipmitool as M
    old = M.Popen
    M.Popen = fake_popen_class(dev, lines)
    try:
        yield
    finally:
        M.Popen = old


def run_cli_backend(argv):
    """main() over the REAL interface factory; returns (Obs-like, command lines started)"""
    import pyipmi
    import pyipmi.logger
    import pyipmi.ipmitool as T
    PROCESS_LOG.append({'kind': 'cli', 'argv': list(argv)})
    o = Obs()
    lines = []
    real_conn = pyipmi.create_connection

    def conn(itf):
        o.itf = itf
        o.ipmi = real_conn(itf)
        return o.ipmi
    saved = (pyipmi.create_connection, pyipmi.logger.add_log_handler, pyipmi.logger.set_log_level, sys.argv, T.json_output)
    pyipmi.create_connection = conn
    pyipmi.logger.add_log_handler = lambda h: None
    pyipmi.logger.set_log_level = lambda lvl: None
    sys.argv = ['ipmitool.py'] + list(argv)
    out, err = io.StringIO(), io.StringIO()
    try:
        with contextlib.redirect_stdout(out), contextlib.redirect_stderr(err), patched_time(), patched_popen(B.Bmc(), lines):
            try:
                T.main()
                o.status = 0
            except SystemExit as e:
                o.status = 0 if e.code is None else e.code
            except BaseException as e:  # noqa
                o.exc = e
    finally:
        (pyipmi.create_connection, pyipmi.logger.add_log_handler, pyipmi.logger.set_log_level, sys.argv, T.json_output) = saved
    o.stdout = out.getvalue()
    return o, lines


def run_api_backend(cfg, command, args):
    """the equivalent direct API calls: create_interface(name, **options), connection, target, routing, session
    setters with exactly the values the options name (user / password default to '' as `main` documents), then
    the API call of the command"""
    import pyipmi
    import pyipmi.interfaces
    PROCESS_LOG.append({'kind': 'api', 'session': None, 'judge': False})
    want = expected_of(cfg)
    lines = []
    exc = None
    itf = None
    with contextlib.redirect_stdout(io.StringIO()), patched_time(), patched_popen(B.Bmc(), lines):
        try:
            itf = pyipmi.interfaces.create_interface(want['iface'], **want['kwargs'])
            ipmi = pyipmi.create_connection(itf)
            ipmi.target = pyipmi.Target(want['addr'])
            if want['routing'] is not None:
                ipmi.target.set_routing(want['routing'])
            if 'H' in cfg:
                ipmi.session.set_session_type_rmcp(cfg['H'], cfg.get('p', 623))
                ipmi.session.set_auth_type_user(cfg.get('U', ''), cfg.get('P', ''))
                if 'L' in cfg:
                    ipmi.session.set_priv_level(cfg['L'])
            try:
                ipmi.open()
                API_EQUIV[command][0](ipmi, args)
            finally:
                ipmi.close()
        except Exception as e:  # noqa
            exc = e
    return itf, lines, exc


def oracle_backend(inp):
    """-I ipmitool: the command lines the tool starts equal those of the equivalent direct API calls, and carry every
    option exactly as given: -I <interface_type>, -H <host>, -p <port>, -U / -P (also an empty or absent user),
    -L <LEVEL>, -C <cipher suite> (0 included), -t <target address>"""
    import shlex
    cfg = dict(inp['cfg'])
    if 'o' in cfg:
        cfg['o'] = [tuple(x) for x in cfg['o']]
    o, cli_lines = run_cli_backend(inp['argv'])
    if o.exc is not None:
        return 'Python error %s: %s' % (type(o.exc).__name__, str(o.exc)[:150])
    itf, api_lines, api_exc = run_api_backend(cfg, inp['command'], inp['args'])
    if api_exc is not None:
        return 'the equivalent API calls fail (%s: %s) - harness defect' % (type(api_exc).__name__, api_exc)
    if o.status != 0:
        return 'exit status %r, output %r, although the API calls succeed' % (o.status, o.stdout[-120:])
    if cli_lines != api_lines:
        k = next((i for i, (a, b) in enumerate(zip(cli_lines, api_lines)) if a != b), min(len(cli_lines), len(api_lines)))
        return 'the tool starts %r, the equivalent API calls start %r' % (cli_lines[k:k + 1], api_lines[k:k + 1])
    if not cli_lines:
        return 'no ipmitool command was started'
    # independent expectation on every command line (lan / lanplus)
    kw = expected_of(cfg)['kwargs']
    typ = kw.get('interface_type', 'lan')
    if typ in ('lan', 'lanplus') and 'H' in cfg:
        levels = {'user': 'USER', 'operator': 'OPERATOR', 'administrator': 'ADMINISTRATOR'}
        for line in cli_lines:
            tok = shlex.split(line.replace(' 2>&1', ''))

            def after(flag):
                return [tok[i + 1] for i in range(len(tok) - 1) if tok[i] == flag]
            want = [('-I', typ), ('-H', cfg['H']), ('-p', str(cfg.get('p', 623))), ('-U', cfg.get('U', '')),
                    ('-P', cfg.get('P', '')), ('-L', levels[cfg.get('L', 'administrator')])]
            if 'cipher' in kw:
                want.append(('-C', str(int(kw['cipher']))))
            if cfg.get('t', 0x20) and 'r' not in cfg and 'b' not in cfg:
                want.append(('-t', '0x%02x' % cfg.get('t', 0x20)))
            for flag, val in want:
                if after(flag) != [val]:
                    return 'command line %r: option %s carries %r, given %r' % (line, flag, after(flag), val)
            if 'cipher' not in kw and after('-C'):
                return 'command line %r has -C although no cipher was given' % line
    return None


ORACLES = {'stage_fault': oracle_stage_fault, 'backend': oracle_backend, 'command': oracle_command, 'power': oracle_power, 'options': oracle_options, 'raw': oracle_raw,
           'fault': oracle_fault, 'history': oracle_history}


def replay(data):
    r = data['replay']
    if 'oracle' not in r:
        return False
    return ORACLES[r['oracle']](r['input']) is None


# =====================================================================================
def run(ctx):
    import pyipmi
    import pyipmi.errors as E
    import pyipmi.ipmitool as T
    sys.modules.setdefault('pyaardvark', type(sys)('pyaardvark'))
    rng = ctx.rng
    q = ctx.quick
    res = C.Result(model_map=MODEL_MAP)
    D = C.Distinct()
    terms, meta, fails = [], [], {}
    uncovered = []
    log_at = {}
    oracle_runs = {}
    option_runs = {}
    # downgrade rule (C20_resolves / C20_options_bindings): what the translator refused in THIS run
    try:
        gen_txt = (C.COQ / 'Gen' / 'CliTable.v').read_text()
    except OSError:
        gen_txt = ''
    entries_dg = dict(re.findall(r'mkCmd "([^"]*)" \(HUntranslated "((?:[^"]|"")*)"\)', gen_txt))
    options_dg = dict(re.findall(r'mkOpt "([^"]*)" \(AUntranslated "((?:[^"]|"")*)"\)', gen_txt))

    def add(t, info):
        terms.append(t)
        meta.append(info)

    def oracle(name, inp, key):
        res.evaluations += 1
        msg = ORACLES[name](inp)
        if msg and name in ('command', 'power'):
            cmd = inp['command'] if name == 'command' else 'chassis power ' + inp['sub']
            if msg.startswith('Python error'):
                key = 'cli:%s:python-error:%s' % (cmd, msg.split()[2].rstrip(':'))
            elif name == 'command':
                key = 'cli:%s:%s' % (cmd, 'requests-differ' if msg.startswith('requests differ') else 'other')
        if msg and name == 'backend':
            m2 = re.search(r'option (-\w) carries', msg)
            key = 'backend:' + ('python-error:' + msg.split()[2].rstrip(':') if msg.startswith('Python error') else
                                'option' + m2.group(1) if m2 else
                                'tool-vs-api' if msg.startswith('the tool starts') else 'other')
        if msg and name == 'options':
            key = 'options:' + (('python-error:' + msg.split()[2].rstrip(':')) if msg.startswith('Python error') else
                                '+'.join(w.rstrip(':') for w in msg.split() if w.endswith(':') and w.rstrip(':') in
                                         ('iface', 'kwargs', 'addr', 'routing', 'session', 'session_raw')) or 'other')
        if msg and key not in fails:
            log_at[key] = len(PROCESS_LOG)
            what = msg
            if 'argv' in inp:
                what += '   [argv: %s]' % ' '.join(inp['argv'])
            elif 'command' in inp:
                what += '   [argv: %s]' % ' '.join(inp.get('options', []) + inp['command'].split(' ') + inp['args'])
            elif 'sub' in inp:
                what += '   [argv: chassis power %s]' % inp['sub']
            fails[key] = C.Violation(key=key, what=what, replay={'oracle': name, 'input': inp})
        return msg

    def main_case(argv, o, kind):
        if 'OutOfFuel' in literal_of(argv):
            return                      # -r literal that is not a list of int/None tuples: outside the model
        if any(f and a.startswith(f) for f in options_dg for a in argv) or \
                any(len(a) > 2 and a[0] == '-' and a[1] != '-' and any(f[1:] in a[1:] for f in options_dg if f) for a in argv):
            return                      # uses an option the translator refused in this run: the oracle decides
        if all(printable(a) for a in argv) and (o.selected is None or all(printable(a) for a in o.selected[1])):
            add('chk_main %s %s %s' % (c_strs(argv), literal_of(argv), c_outcome(o)), (kind, argv))

    # ---- (h) histories: several main() runs and API connections in ONE process, earlier ones giving
    # session / target / interface options the later ones omit and vice versa; every call is judged against
    # what its own options say (oracle) and against the stateless model evaluated on its own argv (chk_main)
    tails = [['raw', '6', '1'], ['bmc', 'info'], ['chassis', 'status']]

    def cli_item(cfg):
        return {'kind': 'cli', 'argv': render_config(rng, cfg) + rng.choice(tails), 'cfg': cfg}
    full = {'H': '10.0.0.9', 'p': 1623, 'U': 'op', 'P': 'pw', 'L': 'user', 't': 0x82, 'I': 'ipmitool',
            'o': [IFACE_OPTS['ipmitool'][0], IFACE_OPTS['ipmitool'][2]], 'r': [(0x81, 0x20, 0), (0x20, 0x82, None)]}
    histories = [
        [cli_item(full), cli_item({}), {'kind': 'api', 'session': None}, cli_item({'H': 'bmc.example'}),
         cli_item({'U': 'x', 'L': 'operator'}), cli_item({'H': 'h2', 'L': 'operator'}), cli_item({'H': 'h3'}),
         {'kind': 'api', 'session': ['10.1.1.1', 623, 'api-user', 'api-pw', 'user']}, {'kind': 'api', 'session': None},
         cli_item({'t': 0x72, 'b': 7}), cli_item({})],
        [cli_item({}), cli_item(full), cli_item({'I': 'aardvark'}), {'kind': 'api', 'session': None}],
        [{'kind': 'api', 'session': ['10.1.1.1', 1623, 'u', 'p', 'operator']}, cli_item({}), cli_item({'H': 'h', 'U': 'u2'})],
    ]
    for _ in range(3 if q else 40):
        hist = []
        for k in range(rng.randrange(3, 9)):
            r = rng.random()
            if r < 0.15:
                hist.append({'kind': 'api', 'session': rng.choice([None, ['10.1.1.1', 623, 'api', 'pw', rng.choice(list(LEVELS))]])})
            elif r < 0.4:
                hist.append(cli_item({}))
            elif r < 0.6:
                c = gen_config(rng, full=True)
                hist.append(cli_item({k2: v for k2, v in c.items() if k2 not in ('H', 'p')}))       # session options without -H
            else:
                hist.append(cli_item(gen_config(rng, full=True)))
        histories.append(hist)
    for hist in histories:
        start = len(PROCESS_LOG)
        res.evaluations += len(hist)
        msg = ORACLES['history']({'calls': hist})
        if msg is None:
            for c in hist:
                for k2 in c.get('cfg', {}):
                    option_runs['-' + k2] = option_runs.get('-' + k2, 0) + 1
        for c in hist:
            D.add(('hist', c['kind'], tuple(c.get('argv', [])), repr(c.get('session'))), True,
                  'history-cli' if c['kind'] == 'cli' else 'history-api')
        if msg and 'history:call-not-as-its-own-options-say' not in fails:
            # confirm and shrink from a clean start; if this sequence alone does not reproduce, the state was
            # left by what ran before it in this process: take the whole process log
            seq = C.shrink_history('C20', 'history', hist)
            if seq is None:
                seq = C.shrink_history('C20', 'history', PROCESS_LOG[:start] + hist)
            if seq is not None:
                fails['history:call-not-as-its-own-options-say'] = C.Violation(
                    key='history:call-not-as-its-own-options-say',
                    what=(ORACLES['history']({'calls': seq}) or msg) + '   [history of %d call(s), confirmed in a fresh process]' % len(seq),
                    replay={'oracle': 'history', 'input': {'calls': seq}})
            else:
                fails['history:not-reproducible'] = C.Violation(
                    key='history:not-reproducible', what=msg + '   [not reproducible from a clean start]',
                    replay={'oracle': 'history', 'input': {'calls': PROCESS_LOG[:start] + hist}})
    # the same runs against the stateless model, each on its own argv
    for hist in histories:
        for c in hist:
            if c['kind'] == 'cli':
                main_case(c['argv'], run_cli(c['argv'], B.Bmc().handle, cfg=c['cfg']), 'history')

    cmds = list(T.COMMANDS)
    # ---- the generated table against the live objects
    add('chk_ncmds %s' % C.c_nat(len(cmds)), ('ncmds',))
    for i, c in enumerate(cmds):
        add('chk_cmd %s %s %s' % (C.c_nat(i), C.c_str(c.name), C.c_bool(getattr(c.fn, '__name__', None) == '<lambda>')), ('cmd', i, c.name))
        add('chk_lookup_name %s %s' % (C.c_str(c.name), C.c_opt(C.c_nat(
            next(j for j, d in enumerate(cmds) if d.fn is T._get_command_function(c.name))))), ('lookup', c.name))
        D.add(('cmd', c.name), True, 'table-entry')
        if c.name not in API_EQUIV:
            uncovered.append(c.name)
    for nm in ['bmc', 'bmc info x', 'raw ', ' raw', 'sdr showal', 'chassis power', 'Raw', '']:
        add('chk_lookup_name %s %s' % (C.c_str(nm), C.c_opt(None if T._get_command_function(nm) is None else '0%nat')),
            ('lookup-miss', nm))
    names = set(dir(pyipmi.Ipmi)) | {'chassis_control_power_diagnostic_interrupt', 'chassis_control_power_soft_shutdown', 'nosuch'}
    for nm in sorted(n for n in names if not n.startswith('_')):
        attr = getattr(pyipmi.Ipmi, nm, None)
        add('chk_api %s %s' % (C.c_str(nm), C.c_bool(callable(attr))), ('api', nm))

    # ---- (a) every table entry x argument vectors x BMC contents x option prefixes
    reps = 3 if q else 20
    for i, c in enumerate(cmds):
        resolved_ok = True
        # the commands no theorem covers run against more, and more varied, BMCs
        for rep in range(reps if c.name in THEOREM_COVERED or c.name == 'raw' else (10 if q else 60)):
            spec = {} if rep == 0 else gen_spec(rng)
            if c.name == 'raw':
                args = ['0x06', '0x01'] if rep == 0 else ['lun', '0', '6', '1']
            elif c.name in API_EQUIV:
                args = gen_args(rng, c.name, spec)
            else:
                args = []
            cfg = {} if rep == 0 else gen_config(rng)
            options = render_config(rng, cfg)
            inp = {'command': c.name, 'args': args, 'spec': spec, 'options': options}
            if oracle('command', inp, 'cli:%s' % c.name) is None and c.name in API_EQUIV:
                oracle_runs[c.name] = oracle_runs.get(c.name, 0) + 1
            o = run_cli(options + c.name.split(' ') + args, bmc_of(inp).handle)
            if isinstance(o.exc, (AttributeError, TypeError)) and not o.requests():
                resolved_ok = False
            main_case(options + c.name.split(' ') + args, o, 'command')
            if c.name in THEOREM_COVERED and o.exc is None and all(printable(a) for a in args):
                r = o.requests()
                add('chk_cli_request %s %s %s' % (C.c_str(c.name), c_strs(args), C.c_opt(
                    None if len(r) != 1 else '(mkReq %d %d %d %s)' % (r[0][0], r[0][1], r[0][2], C.c_hex(bytes.fromhex(r[0][3]))))),
                    ('cli-request', c.name, args))
            D.add(('cmd-run', c.name, tuple(args), repr(sorted(spec.items())), tuple(options)), True, 'command-run')
        add('chk_resolves %s %s' % (C.c_nat(i), C.c_bool(resolved_ok)), ('resolves', c.name))
    # every record of the default repository (full / compact / event-only / locators, owner LUNs 0, 1, 2) by id
    for rid in B.Bmc().sdr_ids():
        for nm in ('sdr show', 'sdr raw'):
            if any(c.name == nm for c in cmds):
                oracle('command', {'command': nm, 'args': [render_num(rng, rid, 'n0')], 'spec': {}, 'options': []}, 'cli:%s' % nm)
    # OEM / id-less SDR records must not crash the sdr commands (well-formed replies)
    for nm, args in [('sdr show', ['2']), ('sdr showall', []), ('sdr list', []), ('sdr raw', ['0x2'])]:
        if any(c.name == nm for c in cmds):
            oracle('command', {'command': nm, 'args': args, 'spec': {'sdr': 'oem'}, 'options': []},
                   'cli:%s:python-error' % nm)
    # ---- chassis power: own control code
    for sub in POWER_CODES:
        if any(c.name == 'chassis power ' + sub for c in cmds):
            oracle('power', {'sub': sub}, 'cli:chassis power %s:control-code' % sub)
            dev = B.Bmc()
            o = run_cli(['chassis', 'power', sub], dev.handle)
            r = o.requests()
            add('chk_power %s %s' % (C.c_str(sub), C.c_opt(
                None if len(r) != 1 else '(mkReq %d %d %d %s)' % (r[0][0], r[0][1], r[0][2], C.c_hex(bytes.fromhex(r[0][3]))))),
                ('power', sub))
            D.add(('power', sub), True, 'power')

    # ---- (b) options: property oracle + model
    # deterministic part: EVERY subset of the session options {-H, -p, -U, -P, -L} (incl. -P without -U, -U without
    # -P, and all of them without -H), falsy values ('', '0', port / address boundary), every single interface
    # option of every interface with falsy values, every cipher of the small boundary set
    import itertools
    det = []
    vals = {'H': ['10.0.0.1'], 'p': [623, 1], 'U': ['admin', '', '0'], 'P': ['secret', '', '0'], 'L': ['user', 'operator', 'administrator']}
    for r in range(6):
        for sub in itertools.combinations('HpUPL', r):
            for pick in range(3):
                det.append({k2: vals[k2][pick % len(vals[k2])] for k2 in sub})
    for name, raw_opts in [('aardvark', ['serial=2237', 'serial=0', 'serial=', 'pullups=on', 'pullups=off', 'power=on', 'power=off',
                                         'fastmode=on', 'fastmode=off']),
                           ('ipmitool', ['interface_type=lan', 'interface_type=lanplus', 'interface_type=open',
                                         'interface_type=serial-terminal'] + ['cipher=%d' % c for c in (0, 1, 3, 17, 254)]),
                           ('ipmbdev', ['port=/dev/ipmb-0', 'port=0', 'port=']),
                           ('rmcp', []), ('mock', [])]:
        singles = [(o1, parse_expected(name, o1)) for o1 in raw_opts]
        det.append({'I': name})
        for one in singles:
            det.append({'I': name, 'o': [one]})
            det.append({'I': name, 'o': [one], 'H': '10.0.0.1', 'P': 'pw'})
        for a2, b2 in itertools.combinations(singles, 2):
            if a2[0].split('=')[0] != b2[0].split('=')[0] and (not q or rng.random() < 0.3):
                det.append({'I': name, 'o': [a2, b2]})
    det += [{'t': t} for t in (1, 0x20, 0x82, 0xfe, 0xff)] + [{'p': pp, 'H': 'h'} for pp in (0, 1, 623, 65535)]
    nopt = 150 if q else 2500
    for k in range(len(det) + nopt):
        cfg = det[k] if k < len(det) else gen_config(rng, full=(k % 3 == 0))
        tail = rng.choice([['raw', '6', '1'], ['bmc', 'info'], ['raw', 'lun', '1', '0x06', '0x01'], ['chassis', 'status']])
        argv = render_config(rng, cfg) + tail
        jcfg = dict(cfg)
        if oracle('options', {'cfg': jcfg, 'argv': argv}, 'options:%s' % '+'.join(sorted(cfg))) is None:
            for k2 in cfg:
                option_runs['-' + k2] = option_runs.get('-' + k2, 0) + 1
        o = run_cli(argv, B.Bmc().handle)
        main_case(argv, o, 'options')
        D.add(('opt', tuple(argv)), bool(cfg), 'options-%d' % min(len(cfg), 6))
    # ---- (b2) the real ipmitool back-end below main(): every subset of {-p, -U, -P, -L} with -H, falsy values,
    # interface types lan / lanplus, every cipher of the boundary set and none; judged against the equivalent direct
    # API calls (same command lines started) and against what the options say (tokens of each command line)
    back = []
    for r in range(5):
        for sub in itertools.combinations('pUPL', r):
            for pick in range(2 if q else 3):
                c2 = {k2: vals[k2][pick % len(vals[k2])] for k2 in sub}
                c2.update({'H': '10.0.0.1', 'I': 'ipmitool'})
                back.append(c2)
    for typ in (None, 'lan', 'lanplus'):
        for ci in (None, 0, 1, 3, 17, 254):
            opts = ([('interface_type=%s' % typ, {'interface_type': typ})] if typ else []) + \
                   ([('cipher=%d' % ci, {'cipher': str(ci)})] if ci is not None else [])
            for extra in ({}, {'U': 'admin', 'P': 'secret', 'L': 'operator'}, {'P': '0'}):
                c2 = {'H': 'bmc.example', 'I': 'ipmitool'}
                if opts:
                    c2['o'] = opts
                c2.update(extra)
                back.append(c2)
    back += [{'H': 'h', 'I': 'ipmitool', 't': t} for t in (1, 0x82, 0xff)]
    for k, cfg in enumerate(back):
        words, cargs = [['raw', '6', '1'], ['chassis', 'status'], ['bmc', 'info'], ['chassis', 'power', 'cycle']][k % 4], []
        command = ' '.join(words) if words[0] != 'raw' else 'raw'
        cargs = ['6', '1'] if words[0] == 'raw' else []
        argv = render_config(rng, cfg) + words
        oracle('backend', {'cfg': cfg, 'argv': argv, 'command': command, 'args': cargs},
               'backend:%s' % '+'.join(sorted(cfg)))
        D.add(('backend', tuple(argv)), True, 'ipmitool-backend')

    # malformed / unusual command lines: model only (these are not promised by the property)
    weird = [['-t', '0', 'raw', '6', '1'], ['-t', '08', 'raw', '6', '1'], ['-t', '0x', 'raw', '6', '1'], ['-t', '', 'raw', '6', '1'],
             ['-t', '-5', 'raw', '6', '1'], ['-t', '+0x20', 'raw', '6', '1'], ['-t', '12a', 'raw', '6', '1'], ['-t', '00', 'raw', '6', '1'],
             ['-b', '0x7', 'raw', '6', '1'], ['-b', '007', 'raw', '6', '1'], ['-b', '-1', 'bmc', 'info'], ['-p', '0X26F', '-H', 'h', 'bmc', 'info'],
             ['-o', 'bla', 'raw', '6', '1'], ['-o', 'serial=1,', 'raw', '6', '1'], ['-o', 'a=b=c,pullups=maybe,serial=x=y', 'bmc', 'info'],
             ['-o', '', 'bmc', 'info'], ['-I', 'ipmitool', '-o', 'cipher=1,cipher=2,foo=bar', 'bmc', 'info'],
             ['-I', 'rmcp', '-o', 'port=1', 'bmc', 'info'], ['-I', 'ipmbdev', '-o', 'port=/dev/x,serial=2', 'bmc', 'info'],
             ['-I', 'nosuch', 'raw', '6', '1'], ['-I', '', 'bmc', 'info'], ['-L', 'oem', '-H', 'h', 'bmc', 'info'], ['-L', 'oem', 'bmc', 'info'],
             ['-L', 'ADMINISTRATOR', '-H', 'h', 'bmc', 'info'], ['-H', 'h', '-H', 'g', '-U', 'a', '-U', 'b', 'bmc', 'info'],
             ['-t', '1', '-t', '2', 'bmc', 'info'], ['-b', '1', '-r', '[(1,2,3)]', 'bmc', 'info'], ['-r', '[(1,2,3)]', '-b', '1', 'bmc', 'info'],
             ['-r', '[(1,2)]', 'bmc', 'info'], ['-r', '[(1,2,3', 'bmc', 'info'], ['-r', '5', 'bmc', 'info'], ['-r', '[]', 'bmc', 'info'],
             ['-r', '[[1, 2, None]]', 'bmc', 'info'], ['-vJ', 'chassis', 'status'], ['-vt0x30', 'bmc', 'info'], ['-Jv', '-t', '7', 'bmc', 'info'],
             ['-h'], ['-V'], ['-v', '-h'], ['-t', '5', '-V', 'bmc', 'info'], ['-x'], ['-t'], ['--help'], ['--', 'bmc', 'info'],
             ['-', 'bmc', 'info'], ['bmc', '-t', '5', 'info'], ['bmc', 'info', '-t', '5'], [], ['-v'], ['sdr'], ['bmc'], ['nosuch'],
             ['bmc', 'info', 'extra', 'words'], ['chassis', 'power'], ['chassis', 'power', 'up'], ['raw'], ['-tx', 'bmc', 'info'],
             ['-t', '0x20', '--', 'bmc', 'info'], ['-t', '0x20', '-', 'bmc', 'info'], ['picmg', 'portstate', 'getall', 'x'],
             ['-U', '-P', 'bmc', 'info'], ['-H', '-v', 'bmc', 'info'], ['-P'], ['-J', '-J', 'chassis', 'status']]
    for argv in weird:
        o = run_cli(argv, B.Bmc().handle)
        main_case(argv, o, 'weird')
        D.add(('weird', tuple(argv)), True, 'unusual-command-line')
    # int() parsing
    nums = ['0', '00', '7', '10', '255', '256', '0x0', '0xff', '0XFF', '0xFf', '0x100', '65535', '0x10000', '4294967296',
            '08', '010', '0x', 'x', '', '-', '+', '-0', '+7', '-0x10', '--1', '1-', '0x-1', 'ff', '0b101', '0o17', '1_000', ' 7', '7 ',
            '12a', '0xg', '1e3', '1.0', 'None']
    nums += [str(rng.randrange(10 ** rng.randrange(1, 12))) for _ in range(20 if q else 200)]
    nums += ['0x%x' % rng.randrange(16 ** rng.randrange(1, 10)) for _ in range(20 if q else 200)]
    for s in nums:
        for base, f in ((0, lambda x: int(x, 0)), (10, lambda x: int(x))):
            try:
                r = '(Ok %s)' % C.c_Z(f(s))
            except ValueError:
                r = '(Err (OtherError ValueError))'
            if any(ch in s for ch in '_ ') or s[:2].lower() in ('0b', '0o') or s[1:3].lower() in ('0b', '0o'):
                continue            # syntax outside the model (documented)
            add('chk_int %d %s %s' % (base, C.c_str(s), r), ('int', base, s))

    # ---- (c) raw
    nraw = 150 if q else 3000
    for k in range(nraw):
        lun, netfn = rng.randrange(4), rng.randrange(64)
        data = bytes(rng.randrange(256) for _ in range(rng.randrange(1, 41)))
        reply = bytes(rng.randrange(256) for _ in range(rng.choice([1, 1, 2, 5, 16, 40, rng.randrange(1, 41)])))
        args = ([] if lun == 0 and rng.random() < 0.5 else ['lun', render_num(rng, lun, 'n0')])
        args += [render_num(rng, netfn, 'n0')] + [render_num(rng, b, 'n0') for b in data]
        inp = {'argv': ['raw'] + args, 'lun': lun, 'netfn': netfn, 'data': data.hex(), 'reply': reply.hex()}
        oracle('raw', inp, 'raw:request-or-print')
        dev = RawDev(reply)
        o = run_cli(['raw'] + args, dev.handle)
        obs = '(Err %s)' % py_exc_term(o.exc) if o.exc is not None else (
            '(Ok (RawSend %s %s %s))' % (C.c_Z(dev.seen[0][0]), C.c_Z(dev.seen[0][1]), C.c_hex(dev.seen[0][2])) if dev.seen else '(Ok RawUsage)')
        add('chk_raw %s %s' % (c_strs(args), obs), ('raw', args))
        if o.exc is None and dev.seen:
            add('chk_print %s %s' % (C.c_hex(reply), C.c_str(o.stdout.rstrip('\n').split('\n')[-1])), ('print', reply.hex()))
        D.add(('raw', tuple(args), reply), True, 'raw')
    for args in [[], ['6'], ['lun'], ['lun', '1'], ['lun', '1', '6'], ['lun', '1', '6', '1'], ['6', '256'], ['6', '-1'], ['6', 'zz'],
                 ['lun', 'x', '6', '1'], ['x', '1'], ['0x06', '0x01', '0xFF', '0'], ['lun', '3', '0x3f', '255'], ['64', '1'], ['lun', '4', '6', '1'],
                 ['6', '1', 'lun'], ['lun', 'lun', '6', '1'], ['-1', '1']]:
        dev = RawDev(b'\x00\x01')
        o = run_cli(['raw'] + args, dev.handle)
        obs = '(Err %s)' % py_exc_term(o.exc) if o.exc is not None else (
            '(Ok (RawSend %s %s %s))' % (C.c_Z(dev.seen[0][0]), C.c_Z(dev.seen[0][1]), C.c_hex(dev.seen[0][2])) if dev.seen else '(Ok RawUsage)')
        add('chk_raw %s %s' % (c_strs(args), obs), ('raw-edge', args))

    # ---- (d) injected completion codes and time-outs
    codes = [0xc1, 0xc3, 0xc9, 0xcb, 0xcc, 0xd5, 0xff, 0x80, 0x81, 0xc5, 0xca]
    nfault = 2 if q else 10
    for c in cmds:
        if c.name not in API_EQUIV or c.name in ('hpm check',):
            continue
        spec = {}
        args = gen_args(rng, c.name, spec) if c.name != 'raw' else ['6', '1']
        base_reqs, base_exc = run_api(lambda i: API_EQUIV[c.name][0](i, args), B.Bmc(spec).handle)
        if base_exc is not None or not base_reqs:
            continue
        if run_cli(c.name.split(' ') + args, B.Bmc(spec).handle).exc is not None:
            continue                    # crashes without any fault: reported above
        for rep in range(nfault):
            idx = 0 if rep == 0 else rng.randrange(len(base_reqs))
            f = 'timeout' if rep % 2 == 1 else rng.choice(codes)
            inp = {'command': c.name, 'args': args, 'spec': spec, 'fault': [idx, f]}
            oracle('fault', inp, 'fault:%s:%s' % (c.name, 'timeout' if f == 'timeout' else 'cc'))
            D.add(('fault', c.name, idx, f), True, 'fault-timeout' if f == 'timeout' else 'fault-cc')
    # ---- (e) one fault at each stage main goes through: interface.open(), establish_session(), the command's
    # first request, close_session(), close(); sample of table entries x both session styles
    ISTEP = {'open': 'IOpen', 'establish': 'IEstablish', 'command': 'ICommand', 'close_session': 'ICloseSession',
             'close': 'IClose'}
    sample = [['bmc', 'info'], ['chassis', 'status'], ['raw', '6', '1'], ['sel', 'list'], ['chassis', 'power', 'cycle'],
              ['sdr', 'list'], ['picmg', 'power', 'get'], ['hpm', 'capabilities']]
    styles = [[], ['-I', 'rmcp', '-H', '10.0.0.1', '-U', 'admin', '-P', 'secret', '-L', 'operator'], ['-v'],
              ['-I', 'ipmitool', '-H', 'bmc.example', '-t', '0x82']]
    for ci, words in enumerate(sample if not q else sample[:5]):
        for si, style in enumerate(styles if not q else styles[:2]):
            for stage in [None] + STAGES:
                fl = [None] if stage is None else ['timeout', rng.choice([0x81, 0x82, 0xc1, 0xc3, 0xcc, 0xd4, 0xff]),
                                                   rng.choice(codes + [0x01, 0x80])][:(2 if q and (ci + si) % 2 else 3)]
                for f in fl:
                    argv = style + words
                    if stage is None:
                        o = run_cli(argv, B.Bmc().handle)
                        fault_term = 'None'
                    else:
                        inp = {'argv': argv, 'stage': stage, 'fault': f}
                        oracle('stage_fault', inp, 'stage-fault:%s:%s' % (stage, 'timeout' if f == 'timeout' else 'cc'))
                        o = run_stage_fault(inp)
                        fault_term = '(Some (%s, %s))' % (ISTEP[stage], 'TimeoutError' if f == 'timeout' else '(CCError %d)' % f)
                    if o.itf is None:
                        continue
                    if o.exc is not None:
                        end = '(RunRaises %s)' % py_exc_term(o.exc)
                    elif o.status == 0 and 'completion code' not in o.stdout and 'timed out' not in o.stdout:
                        end = 'RunReturns'
                    else:
                        # the message is the last line printed before sys.exit
                        lines = [ln for ln in o.stdout.split('\n') if ln]
                        end = '(RunExit %s %s)' % (C.c_opt(C.c_str(lines[-1]) if lines else None), C.c_Z(o.status))
                    if all(printable(ln) for ln in o.stdout.split('\n')[-2:]):
                        add('chk_run %s %s %s' % (fault_term, C.c_list([ISTEP[x] for x in o.itf.calls]), end),
                            ('run-stages', argv, stage, f))
                    D.add(('stage', tuple(argv), stage, f), stage is not None, 'stage-fault-%s' % (stage or 'none'))

    # what main does with an exception from the command: model vs. implementation
    for e, term in [(E.CompletionCodeError(cc), '(CCError %d)' % cc) for cc in (0, 1, 0x0f, 0x80, 0xc1, 0xcb, 0xff)] + \
                   [(E.IpmiTimeoutError(), 'TimeoutError'), (E.RetryError(), 'RetryError'), (E.DecodingError('x'), 'DecodingError'),
                    (ValueError('x'), '(OtherError ValueError)')]:
        def dev(netfn, cmd, lun, data, req=None, _e=e):
            raise _e
        o = run_cli(['raw', '6', '1'], dev)
        if o.exc is not None:
            obs = 'None'
        else:
            lines = [ln for ln in o.stdout.split('\n') if ln]
            obs = '(Some (%s, %s))' % (C.c_opt(C.c_str(lines[-1]) if lines else None), C.c_Z(o.status))
        add('chk_end %s %s' % (term, obs), ('end', term))
        D.add(('end', term), True, 'error-end')

    # ---- a single-run oracle failed here, in a process with a long history: does its replay fail alone?
    # if not, the failure depends on earlier runs: give it the history (shrunk, confirmed in a fresh process)
    for key in list(fails):
        v = fails[key]
        if v.replay.get('oracle') not in ('options', 'command', 'power', 'raw', 'fault', 'stage_fault', 'backend'):
            continue
        if not C.holds_in_fresh_process('C20', v.replay):
            continue                                  # reproduces on its own: a plain finding
        del fails[key]
        hkey = 'history:call-not-as-its-own-options-say'
        if hkey in fails:
            fails[hkey].what += ' (+ %s fails only after earlier runs)' % key
            continue
        log = PROCESS_LOG[:log_at.get(key, len(PROCESS_LOG))]
        seq = None
        if v.replay['oracle'] == 'options':
            last = {'kind': 'cli', 'argv': v.replay['input']['argv'], 'cfg': v.replay['input']['cfg']}
            for window in (40, 400, len(log)):
                seq = C.shrink_history('C20', 'history', log[-window:][:-1] + [last]) if len(log) > 1 else None
                if seq is not None or window >= len(log):
                    break
        if seq is not None:
            fails[hkey] = C.Violation(key=hkey, what=(ORACLES['history']({'calls': seq}) or v.what) +
                                      '   [history of %d call(s), confirmed in a fresh process]' % len(seq),
                                      replay={'oracle': 'history', 'input': {'calls': seq}})
        else:
            v.what += '   [fails only inside the check process; not reproducible from a clean start]'
            v.found_input = False
            fails[key] = v

    # Other checks regenerate coq/Gen/*.v for THEIR tree and rebuild concurrently; the case files and the
    # evaluation below need the tables of THIS tree.  First try as is; when Coq reports stale / inconsistent
    # libraries, re-validate the build and evaluate again, this time holding the build lock.
    imports = 'Lib.Prog Model.Cli Model.CliApi Gen.CliTable Corr.C20'
    dg_term = 'map ca_cmd (filter (fun e => negb (entry_translated call_specs e)) cli_api_spec)'
    dg_imports = 'Lib.Prog Model.Cli Model.CliApi Gen.CliTable Proofs.CliProofs Proofs.CliApiProofs'
    dg2_term = ('List.app (flat_map (fun c => match c_handler c with HUntranslated _ => [String.append "E:" (c_name c)] | _ => [] end) commands) '
                '(flat_map (fun b => match o_action b with AUntranslated _ => [String.append "O:" (o_flag b)] | _ => [] end) option_table)')

    def tables_of_this_tree():
        try:
            return all(('from %s ' % C.REPO) in (C.COQ / 'Gen' / f).open().readline()
                       for f in ('CliTable.v', 'Layouts.v'))
        except OSError:
            return False
    failing, errors = C.coq_cases('C20', imports, terms)
    dg_out = C.coq_eval('C20', dg_imports, dg_term)
    dg2_out = C.coq_eval('C20', dg_imports, dg2_term)
    stale = errors or not dg_out.strip().startswith('[') or not tables_of_this_tree()
    for attempt in range(2):
        if not stale:
            break
        with C.Lock():
            gi = C.run_generators(GENS)
            rc_b, out_b = C.make(['Corr/C20.vo', 'Proofs/CliApiProofs.vo'], timeout=900)
            failing, errors = C.coq_cases('C20', imports, terms)
            dg_out = C.coq_eval('C20', dg_imports, dg_term)
            dg2_out = C.coq_eval('C20', dg_imports, dg2_term)
        if rc_b != 0 or any(v['rc'] != 0 for v in gi.values()):
            errors = list(errors) + [('rebuild', out_b[-1500:])]
        stale = bool(errors) or not dg_out.strip().startswith('[')
    res.mismatches = [{'case': meta[i], 'term': terms[i][:1500]} for i in failing[:50]]
    res.corr_errors = errors
    res.evaluations += len(terms)
    res.distinct_nontrivial = D.distinct
    res.histogram = D.hist
    res.extra['ops_uncovered'] = uncovered
    # downgrade rule of C20_same_request: entries whose operation the API translator refused in this run are
    # not claimed by the theorem; the oracle above must have run and passed for them
    out = dg_out
    downgraded = re.findall(r'"([^"]*)"', out) if out.strip().startswith('[') else None
    if downgraded is None:
        downgraded = []
        res.extra['same_request_downgrade_eval'] = out[-300:]
        res.corr_errors = list(res.corr_errors) + [('downgrade-eval', out[-1500:])]
    for nm in downgraded:
        bad = [k for k in fails if k.startswith('cli:%s:' % nm)]
        if oracle_runs.get(nm, 0) == 0 and not bad:
            fails['same-request:%s:downgraded-without-oracle' % nm] = C.Violation(
                key='same-request:%s:downgraded-without-oracle' % nm, found_input=False,
                what='the API translator refused the operation of %r in this run and no oracle run decided it' % nm,
                replay={'downgraded': nm})
    res.extra['same_request_downgraded'] = downgraded
    for nm, why in sorted(entries_dg.items()):
        bad = [k for k in fails if k.startswith('cli:%s:' % nm)]
        if oracle_runs.get(nm, 0) == 0 and not bad:
            key = 'resolves:%s:downgraded-without-oracle' % (nm or '<unnamed entry>')
            fails[key] = C.Violation(key=key, found_input=False, replay={'downgraded': nm, 'reason': why},
                                     what='the translator refused the handler of %r (%s) and no oracle run decided it' % (nm, why))
    for fl, why in sorted(options_dg.items()):
        bad = [k for k in fails if k.startswith(('options:', 'history:'))]
        if option_runs.get(fl, 0) == 0 and not bad:
            key = 'options:%s:downgraded-without-oracle' % (fl or '<unnamed option>')
            fails[key] = C.Violation(key=key, found_input=False, replay={'downgraded': fl, 'reason': why},
                                     what='the translator refused option %r (%s) and no option / history oracle run exercised it' % (fl, why))
    res.extra['entries_downgraded'] = [{'entry': k, 'reason': v} for k, v in sorted(entries_dg.items())]
    res.extra['options_downgraded'] = [{'option': k, 'reason': v} for k, v in sorted(options_dg.items())]
    # the lists above were read from the generated file; Coq must see the same refusals
    m_dg = re.findall(r'"([^"]*)"', dg2_out) if dg2_out.strip().startswith('[') else None
    if m_dg is None or sorted(m_dg) != sorted(['E:' + k for k in entries_dg] + ['O:' + k for k in options_dg]):
        res.corr_errors = list(res.corr_errors) + [('downgrade-lists', dg2_out[-800:])]
    res.extra['same_request_by_theorem'] = [c.name for c in cmds if c.name in THEOREM_COVERED and c.name not in downgraded]
    res.extra['same_request_oracle_only'] = [c.name for c in cmds if c.name not in THEOREM_COVERED]
    res.rule = ('every COMMANDS entry x %d runs (argument vectors from the per-command grammar, numbers dec/hex where the tool '
                'reads base 0; BMC contents varied: SDR sets incl. OEM records, SEL sizes, device support bits, chassis state; '
                'random option prefixes incl. both session styles) compared request-by-request with the corresponding API call; '
                '%d option configurations (random subsets, order, attached/detached values, dec/hex) + %d unusual command lines; '
                '%d raw requests (LUN 0..3, netfn 0..63, 1..40 bytes) + edge cases; per command %d injected faults (cc / time-out); '
                'int() parsing table. distinct = distinct canonical command line + BMC; non-trivial = at least one option or argument'
                % (reps, nopt, len(weird), nraw, nfault))
    pick = [0, len(terms) // 4, len(terms) // 2, (3 * len(terms)) // 4, len(terms) - 1]
    res.samples = [{'term': terms[i][:600], 'case': meta[i]} for i in pick]
    res.oracle_failures = list(fails.values())
    return res
