"""C19 helpers: the stub `ipmitool` executable and the runner that starts a command line
through the real /bin/sh exactly as pyipmi's Ipmitool._run_ipmitool does
(subprocess.Popen(cmd, shell=True, stdout=PIPE)).

The stub appends one record per invocation to $C19_LOG
    B <1 if stderr and stdout are the same file, else 0>
    A <hex of argv[i]>          (one line per argument, argv[0] included)
    E
prints the content of the file $C19_OUT (if set) to stdout and exits with $C19_RC.
Everything lives under /verif/.build/c19 (never /tmp); no network, no real ipmitool.
"""
import itertools
import os
import shutil
import subprocess
import threading
from pathlib import Path

from . import common as C

DIR = C.BUILD / 'c19'
BIN = DIR / 'bin'
CWD = DIR / 'cwd'          # working directory of every shell we start (stray redirections land here)

STUB_C = r'''
#include <stdio.h>
#include <stdlib.h>
#include <sys/stat.h>
int main(int argc, char **argv) {
  const char *log = getenv("C19_LOG"), *out = getenv("C19_OUT"), *rc = getenv("C19_RC");
  struct stat a, b; int redir = 0, i;
  if (fstat(1, &a) == 0 && fstat(2, &b) == 0 && a.st_dev == b.st_dev && a.st_ino == b.st_ino) redir = 1;
  if (log) {
    FILE *f = fopen(log, "a");
    if (f) {
      fprintf(f, "B %d\n", redir);
      for (i = 0; i < argc; i++) {
        const unsigned char *p = (const unsigned char *)argv[i];
        fputs("A ", f);
        for (; *p; p++) fprintf(f, "%02x", *p);
        fputc('\n', f);
      }
      fputs("E\n", f);
      fclose(f);
    }
  }
  if (out) {
    FILE *g = fopen(out, "rb");
    if (g) { int c; while ((c = fgetc(g)) != EOF) putchar(c); fclose(g); }
  }
  return rc ? atoi(rc) : 0;
}
'''

STUB_PY = r'''#!/venv/bin/python -S
import os, sys
st1, st2 = os.fstat(1), os.fstat(2)
redir = int((st1.st_dev, st1.st_ino) == (st2.st_dev, st2.st_ino))
log = os.environ.get('C19_LOG')
if log:
    with open(log, 'a') as f:
        f.write('B %d\n' % redir)
        for a in sys.argv[:1] + sys.argv[1:]:
            f.write('A %s\n' % os.fsencode(a).hex())
        f.write('E\n')
out = os.environ.get('C19_OUT')
if out:
    sys.stdout.buffer.write(open(out, 'rb').read())
    sys.stdout.flush()
sys.exit(int(os.environ.get('C19_RC', '0')))
'''

_lock = threading.Lock()
_serial = itertools.count()     # every shell run gets its own log file: a background job started by a
#                                 hostile command line ("... & ipmitool x") may write AFTER the run ended and
#                                 must not land in the log of the next case
LOGS = DIR / 'logs'


def fresh_log():
    return LOGS / ('log%d' % next(_serial))


def ensure_stub():
    """Create .build/c19/bin/ipmitool (C program; python script when no C compiler works).
    Returns the kind of stub."""
    with _lock:
        BIN.mkdir(parents=True, exist_ok=True)
        if CWD.exists():
            shutil.rmtree(CWD, ignore_errors=True)
        CWD.mkdir(parents=True, exist_ok=True)
        if LOGS.exists():
            shutil.rmtree(LOGS, ignore_errors=True)
        LOGS.mkdir(parents=True, exist_ok=True)
        exe = BIN / 'ipmitool'
        src = DIR / 'stub.c'
        kind = DIR / 'stub.kind'
        if exe.exists() and src.exists() and src.read_text() == STUB_C and kind.exists():
            return kind.read_text()
        src.write_text(STUB_C)
        k = None
        for cc in ('gcc', 'cc', 'clang'):
            if shutil.which(cc):
                tmp = BIN / ('ipmitool.tmp%d' % os.getpid())
                rc, out = C.sh([cc, '-O1', '-o', str(tmp), str(src)], timeout=120)
                if rc == 0:
                    os.replace(tmp, exe)
                    k = 'C program (%s)' % cc
                    break
        if k is None:
            exe.write_text(STUB_PY)
            exe.chmod(0o755)
            k = 'python script'
        kind.write_text(k)
        return k


def stub_env(log, out=None, rc=0):
    """Environment of the child: PATH holds ONLY the stub directory, so that no word of a
    deliberately hostile command line can resolve to a real program."""
    env = {'PATH': str(BIN), 'C19_LOG': str(log), 'C19_RC': str(rc), 'LC_ALL': 'C.UTF-8'}
    if out is not None:
        env['C19_OUT'] = str(out)
    return env


def read_log(log):
    """-> list of (argv as list of bytes, redir bool)"""
    inv = []
    try:
        txt = Path(log).read_text()
    except FileNotFoundError:
        return inv
    cur = None
    for ln in txt.splitlines():
        if ln.startswith('B '):
            cur = ([], ln[2:] == '1')
        elif ln.startswith('A') and cur is not None:
            cur[0].append(bytes.fromhex(ln[1:].strip()))
        elif ln == 'E' and cur is not None:
            inv.append(cur)
            cur = None
    return inv


def observed(inv):
    """exactly one invocation -> (argv, redir), else None"""
    return inv[0] if len(inv) == 1 else None


def run_sh(cmd, slot=0, out=None, rc=0):
    """Start `cmd` (bytes) like the library does; returns (invocations, returncode, stdout)."""
    log = fresh_log()
    p = subprocess.Popen(cmd, shell=True, stdout=subprocess.PIPE, stderr=subprocess.DEVNULL,
                         stdin=subprocess.DEVNULL, env=stub_env(log, out, rc), cwd=str(CWD))
    try:
        so = p.communicate(timeout=20)[0]
    except subprocess.TimeoutExpired:
        p.kill()
        so = p.communicate()[0]
    inv = read_log(log)
    try:
        log.unlink()
    except FileNotFoundError:
        pass
    return inv, p.returncode, so


class LibraryEnv:
    """Context in which the REAL Ipmitool._run_ipmitool runs: os.environ replaced by the stub
    environment, cwd = scratch, fd 2 of this process pointed at /dev/null (the shell's
    complaints about hostile passwords would otherwise clutter the report)."""

    def __init__(self, out=None, rc=0):
        self.out, self.rc = out, rc
        self.log = fresh_log()

    def __enter__(self):
        self.saved_env = dict(os.environ)
        self.saved_cwd = os.getcwd()
        os.environ.clear()
        os.environ.update(stub_env(self.log, self.out, self.rc))
        os.chdir(str(CWD))
        self.saved_fd2 = os.dup(2)
        self.null = os.open(os.devnull, os.O_WRONLY)
        os.dup2(self.null, 2)
        return self

    def __exit__(self, *a):
        os.dup2(self.saved_fd2, 2)
        os.close(self.saved_fd2)
        os.close(self.null)
        os.chdir(self.saved_cwd)
        os.environ.clear()
        os.environ.update(self.saved_env)

    def invocations(self):
        inv = read_log(self.log)
        try:
            self.log.unlink()
        except FileNotFoundError:
            pass
        return inv
