"""C07 - independent specification side: for every covered API operation an argument generator
(boundary biased), the request a conforming caller must send (netfn, cmd, lun, data bytes by
position) and the value the call must return for the reply data the BMC sent (decoded by byte
position).  Written from the IPMI 2.0 / PICMG 3.0 command tables; nothing here uses pyipmi's
message classes, tables or helpers.  (Argument objects are plain attribute bags.)"""


class Bag:
    def __init__(self, cls, **kw):
        self._cls = cls
        self.__dict__.update(kw)


def obj(cls, **kw):
    d = dict(kw)
    d['__class__'] = cls
    return d


def u8(rng):
    return rng.choice([0, 1, 2, 0x7f, 0x80, 0xfe, 0xff, rng.randrange(256), rng.randrange(256)])


def u16(rng):
    return rng.choice([0, 1, 0xff, 0x100, 0x7fff, 0x8000, 0xffff, rng.randrange(65536), rng.randrange(65536)])


def small(rng, n):
    return rng.choice([0, n - 1, rng.randrange(n)])


def fru(rng):
    return rng.choice([0, 0, 1, 2, 3, 254, 255])


BOOT_DEVICES = {'no override': 0, 'pxe': 1, 'default hard drive': 2, 'default hard drive safe mode': 3,
                'diagnostic partition': 4, 'cd': 5, 'bios setup': 6, 'remote removable media': 7,
                'remote cd': 8, 'primary remote media': 9, 'remote hard drive': 11,
                'primary removable media (usb)': 15}
BOOT_RAW = {v: k for k, v in BOOT_DEVICES.items()}
PRIV = {'reserved': 0, 'callback': 1, 'user': 2, 'operator': 3, 'administrator': 4, 'oem': 5, 'no access': 15}
PRIV_RAW = {v: k for k, v in PRIV.items()}
IP_SRC = {0: 'unknown', 1: 'static', 2: 'dhcp', 3: 'bios', 4: 'other'}


def pad16(s):
    b = s.encode() if isinstance(s, str) else bytes(s)
    return b + bytes(16 - len(b))


def bcd_minor(b):
    if b == 0xff:
        return 0xff
    return (b >> 4) * 10 + (b & 0xf)


# ------------------------------------------------------------------------------------------------
# each entry: args(rng) -> kwargs ; req(a) -> (netfn, cmd, lun, bytes) ; res(a, d) -> expected value
# for the reply data d (without the completion code); kind: 'read' | 'write'
# ------------------------------------------------------------------------------------------------
def P(*b):
    return bytes([0]) + bytes(b)          # PICMG requests start with the PICMG identifier 0


def watchdog_args(rng):
    return {'config': Bag('Watchdog', timer_use=small(rng, 8), dont_stop=rng.choice([True, False, 0, 1]),
                          dont_log=rng.choice([True, False, 0, 1]), pre_timeout_interrupt=small(rng, 8),
                          timeout_action=small(rng, 8), pre_timeout_interval=u8(rng),
                          timer_use_expiration_flags=u8(rng), initial_countdown=u16(rng))}


def watchdog_req(a):
    c = a['config']
    return (6, 0x24, 0, bytes([c.timer_use | (0x40 if c.dont_stop else 0) | (0x80 if c.dont_log else 0),
                               c.timeout_action | (c.pre_timeout_interrupt << 4), c.pre_timeout_interval,
                               c.timer_use_expiration_flags, c.initial_countdown & 0xff, c.initial_countdown >> 8]))


def watchdog_res(a, d):
    return obj('Watchdog', timer_use=d[0] & 7, dont_stop=None, is_running=bool(d[0] & 0x40), dont_log=bool(d[0] & 0x80),
               pre_timeout_interrupt=(d[1] >> 4) & 7, timeout_action=d[1] & 7, pre_timeout_interval=d[2],
               timer_use_expiration_flags=d[3], initial_countdown=d[4] | d[5] << 8, present_countdown=d[6] | d[7] << 8)


def devid_res(a, d):
    names = ['sensor', 'sdr_repository', 'sel', 'fru_inventory', 'ipmb_event_receiver', 'ipmb_event_generator',
             'bridge', 'chassis']
    return obj('DeviceId', device_id=d[0], revision=d[1] & 0xf, provides_sdrs=bool(d[1] & 0x80),
               available=bool(d[2] & 0x80),
               fw_revision=obj('VersionField', major=d[2] & 0x7f, minor=bcd_minor(d[3])),
               ipmi_version=obj('VersionField', major=d[4] & 0xf, minor=bcd_minor(d[4] >> 4)),
               manufacturer_id=d[6] | d[7] << 8 | d[8] << 16, product_id=d[9] | d[10] << 8,
               supported_functions=[n for i, n in enumerate(names) if d[5] >> i & 1],
               aux=list(d[11:15]) if len(d) >= 15 else None)


def chassis_res(a, d):
    ev = [n for i, n in enumerate(['ac_failed', 'overload', 'interlock', 'fault', 'power_on_via_ipmi']) if d[1] >> i & 1]
    st = [n for i, n in enumerate(['intrusion', 'front_panel_lockout', 'drive_fault', 'cooling_fault']) if d[2] >> i & 1]
    return obj('ChassisStatus', power_on=bool(d[0] & 1), overload=bool(d[0] & 2), interlock=bool(d[0] & 4),
               fault=bool(d[0] & 8), control_fault=bool(d[0] & 16), restore_policy=(d[0] >> 5) & 3,
               id_cmd_state_info_support=bool(d[2] & 0x40), chassis_id_state=(d[2] >> 4) & 3,
               front_panel_button_capabilities=d[3] if len(d) > 3 else None, last_event=ev, chassis_state=st)


def boot_args(rng):
    return {'boot_device': rng.choice(sorted(BOOT_DEVICES)), 'boot_mode': rng.choice(['legacy', 'efi']),
            'boot_persistency': rng.choice([True, False])}


def boot_req(a):
    b0 = 0x80 | (0x40 if a['boot_persistency'] else 0) | (0x20 if a['boot_mode'] == 'efi' else 0)
    return (0, 0x08, 0, bytes([5, b0, BOOT_DEVICES[a['boot_device']] << 2, 0, 0, 0]))


def lan_get_req(param):
    return lambda a: (0x0c, 0x02, 0, bytes([a.get('channel', 0) & 0xf, param, 0, 0]))


def lan_set_req(param, data):
    return lambda a: (0x0c, 0x01, 0, bytes([a.get('channel', 0) & 0xf, param]) + data(a))


def chan(rng):
    return rng.choice([0, 1, 2, 7, 14, 15])


def ip(rng):
    return '.'.join(str(u8(rng)) for _ in range(4))


def user_access_args(rng):
    return {'userid': rng.choice([0, 1, 2, 10, 62, 63]), 'ipmi_msg': rng.randrange(2), 'link_auth': rng.randrange(2),
            'callback_only': rng.randrange(2), 'priv_level': rng.choice(sorted(PRIV) + ['bogus']),
            'channel': chan(rng), 'enable_change': rng.randrange(2), 'user_session_limit': small(rng, 16)}


def user_access_req(a):
    b0 = a['channel'] | a['ipmi_msg'] << 4 | a['link_auth'] << 5 | a['callback_only'] << 6 | a['enable_change'] << 7
    return (6, 0x43, 0, bytes([b0, a['userid'], PRIV.get(a['priv_level'], 15), a['user_session_limit']]))


def user_access_res(a, d):
    return obj('UserAccess', user_count=d[0] & 0x3f, enabled_user_count=d[1] & 0x3f, enabled_status=d[1] >> 6,
               fixed_name_user_count=d[2] & 0x3f, privilege_level=PRIV_RAW.get(d[3] & 0xf, 'reserved'),
               ipmi_messaging=bool(d[3] & 0x10), link_auth=bool(d[3] & 0x20), callback_only=bool(d[3] & 0x40))


SENSOR_NUMS = [3, 0x80, 0xff]


def thr_args(rng):
    a = {'sensor_number': rng.choice(SENSOR_NUMS), 'lun': rng.randrange(4)}
    for k in ('unr', 'ucr', 'unc', 'lnc', 'lcr', 'lnr'):
        if rng.random() < 0.5:
            a[k] = u8(rng)
    return a


THR_ORDER = ['lnc', 'lcr', 'lnr', 'unc', 'ucr', 'unr']


def thr_req(a):
    mask = sum(1 << i for i, k in enumerate(THR_ORDER) if a.get(k) is not None)
    return (4, 0x26, a['lun'], bytes([a['sensor_number'], mask] + [a.get(k) or 0 for k in THR_ORDER]))


def thr_res(a, d):
    return {k: d[1 + i] for i, k in enumerate(THR_ORDER) if d[0] >> i & 1}


def reading_res(a, d):
    reading = None if d[1] & 0x20 else d[0]
    states = None
    if len(d) > 2:
        states = d[2]
        if len(d) > 3:
            states |= d[3] << 8
    return [reading, states]


FN_OFF, FN_BLINK, FN_ON, FN_LAMP = 1, 2, 3, 4


def led_args(rng):
    f = rng.choice([FN_OFF, FN_BLINK, FN_ON, FN_LAMP])
    b = Bag('LedState', fru_id=rng.choice([0, 1, 255]), led_id=rng.choice([0, 1, 255]), override_color=rng.choice([1, 2, 3, 4, 5, 6, 0xe, 0xf]),
            override_function=f, override_off_duration=None, override_on_duration=None, lamp_test_duration=None)
    if f == FN_BLINK:
        b.override_off_duration = rng.choice([1, 2, 100, 0xf9, rng.randrange(1, 0xfa)])
        b.override_on_duration = u8(rng)
    if f == FN_LAMP:
        b.lamp_test_duration = rng.choice([0, 1, 100, 127, u8(rng)])
    return {'led': b}


def led_req(a):
    l = a['led']
    f = l.override_function
    if f == FN_ON:
        fn, on = 0xff, 0
    elif f == FN_OFF:
        fn, on = 0x00, 0
    elif f == FN_BLINK:
        fn, on = l.override_off_duration, l.override_on_duration
    else:
        fn, on = 0xfb, l.lamp_test_duration
    return (0x2c, 0x07, 0, P(l.fru_id, l.led_id, fn, on, l.override_color))


def led_res(a, d):
    """Get FRU LED State reply: [picmg id, states, local fn, local on, local color, (ovr fn, ovr on, ovr color), (lamp)]
    durations are in tens of milliseconds on the wire; the API reports milliseconds (x10), lamp test in ms (x100)"""
    st = d[1]
    r = {k: None for k in ('fru_id', 'led_id', 'local_function', 'local_off_duration', 'local_on_duration',
                           'override_function', 'override_off_duration', 'override_on_duration', 'override_color',
                           'lamp_test_duration')}
    r.update(local_state_available=bool(st & 1), override_enabled=bool(st & 2), lamp_test_enabled=bool(st & 4))

    def fn(x):
        return FN_OFF if x == 0 else FN_ON if x == 0xff else FN_BLINK if 1 <= x <= 0xf9 else None
    r['local_function'] = fn(d[2])
    if fn(d[2]) is None:
        return 'DecodingError'
    if fn(d[2]) == FN_BLINK:
        if not 1 <= d[3] <= 0xf9:
            return 'DecodingError'          # on-duration outside 01h..F9h has no meaning for a blinking LED
        r['local_off_duration'] = d[2] * 10
        r['local_on_duration'] = d[3] * 10
    r['local_color'] = d[4]
    if st & 2:
        if fn(d[5]) is None:
            return 'DecodingError'
        r['override_function'] = fn(d[5])
        if fn(d[5]) == FN_BLINK:
            r['override_off_duration'] = d[5] * 10
            r['override_on_duration'] = d[6] * 10
        r['override_color'] = d[7]
    if st & 4:
        r['lamp_test_duration'] = d[-1] * 100
    return obj('LedState', **r)


def policy_req(ctrl):
    def f(a):
        c = a['ctrl'] if ctrl is None else ctrl
        mask = 1 if c in (0, 1) else 2 if c in (2, 3) else 0
        setb = mask if c in (0, 2) else 0
        return (0x2c, 0x0a, 0, P(a['fru_id'], mask, setb))
    return f


def username(rng):
    return rng.choice(['', 'a', 'admin', 'root', 'ADMIN', 'operator-7', 'x' * 16, 'user.name_01'])


SPEC = {
    # --- IPM device "global" commands
    'get_device_id': dict(kind='read', args=lambda r: {}, req=lambda a: (6, 0x01, 0, b''), res=devid_res),
    'cold_reset': dict(kind='write', args=lambda r: {}, req=lambda a: (6, 0x02, 0, b''), res=lambda a, d: None),
    'warm_reset': dict(kind='write', args=lambda r: {}, req=lambda a: (6, 0x03, 0, b''), res=lambda a, d: None),
    'set_watchdog_timer': dict(kind='write', args=watchdog_args, req=watchdog_req, res=lambda a, d: None),
    'get_watchdog_timer': dict(kind='read', args=lambda r: {}, req=lambda a: (6, 0x25, 0, b''), res=watchdog_res),
    'reset_watchdog_timer': dict(kind='write', args=lambda r: {}, req=lambda a: (6, 0x22, 0, b''), res=lambda a, d: None),
    # --- chassis
    'get_chassis_status': dict(kind='read', args=lambda r: {}, req=lambda a: (0, 0x01, 0, b''), res=chassis_res),
    'chassis_control': dict(kind='write', args=lambda r: {'option': small(r, 6)},
                            req=lambda a: (0, 0x02, 0, bytes([a['option']])), res=lambda a, d: None),
    'set_boot_options': dict(kind='write', args=boot_args, req=boot_req, res=lambda a, d: None),
    'get_boot_device': dict(kind='read', args=lambda r: {}, req=lambda a: (0, 0x09, 0, bytes([5, 0, 0])),
                            res=lambda a, d: BOOT_RAW.get((d[3] >> 2) & 0xf, 'KeyError')),
    'get_boot_mode': dict(kind='read', args=lambda r: {}, req=lambda a: (0, 0x09, 0, bytes([5, 0, 0])),
                          res=lambda a, d: 'efi' if d[2] & 0x20 else 'legacy'),
    'get_boot_persistency': dict(kind='read', args=lambda r: {}, req=lambda a: (0, 0x09, 0, bytes([5, 0, 0])),
                                 res=lambda a, d: bool(d[2] & 0x40)),
    'get_system_boot_options': dict(kind='read', args=lambda r: {'parameter_selector': r.choice([0, 3, 4, 5, 6, 127])},
                                    req=lambda a: (0, 0x09, 0, bytes([a['parameter_selector'], 0, 0])),
                                    res=lambda a, d: bytes(d[2:])),
    'set_system_boot_options': dict(kind='write',
                                    args=lambda r: {'parameter_selector': r.choice([0, 3, 4, 5, 6, 127]),
                                                    'data': bytes(u8(r) for _ in range(r.choice([1, 2, 5]))),
                                                    'mark_parameter_invalid': r.randrange(2)},
                                    req=lambda a: (0, 0x08, 0, bytes([a['parameter_selector'] | a['mark_parameter_invalid'] << 7])
                                                   + a['data']), res=lambda a, d: None),
    # --- LAN configuration
    'get_lan_config_param': dict(kind='read', args=lambda r: {'channel': chan(r), 'parameter_selector': r.choice([3, 4, 5, 20, 0, 12])},
                                 req=lambda a: (0x0c, 0x02, 0, bytes([a['channel'], a['parameter_selector'], 0, 0])),
                                 res=lambda a, d: bytes(d[1:])),
    'set_lan_config_param': dict(kind='write',
                                 args=lambda r: {'channel': chan(r), 'parameter_selector': r.choice([3, 4, 5, 20, 12]),
                                                 'data': bytes(u8(r) for _ in range(r.choice([1, 2, 4, 6])))},
                                 req=lambda a: (0x0c, 0x01, 0, bytes([a['channel'], a['parameter_selector']]) + a['data']),
                                 res=lambda a, d: None),
    'get_ip_address': dict(kind='read', args=lambda r: {'channel': chan(r)}, req=lan_get_req(3),
                           res=lambda a, d: '.'.join(str(x) for x in d[1:])),
    'set_ip_address': dict(kind='write', args=lambda r: {'ip_address': ip(r), 'channel': chan(r)},
                           req=lan_set_req(3, lambda a: bytes(int(x) for x in a['ip_address'].split('.'))),
                           res=lambda a, d: None),
    'get_ip_source': dict(kind='read', args=lambda r: {'channel': chan(r)}, req=lan_get_req(4),
                          res=lambda a, d: IP_SRC.get(d[1] & 0xf, 'KeyError')),
    'set_ip_source': dict(kind='write', args=lambda r: {'ip_source': r.choice(['static', 'dhcp']), 'channel': chan(r)},
                          req=lan_set_req(4, lambda a: bytes([1 if a['ip_source'] == 'static' else 2])),
                          res=lambda a, d: None),
    'get_mac_address': dict(kind='read', args=lambda r: {'channel': chan(r)}, req=lan_get_req(5),
                            res=lambda a, d: ':'.join('%02x' % x for x in d[1:])),
    'get_vlan_id': dict(kind='read', args=lambda r: {'channel': chan(r)}, req=lan_get_req(20),
                        res=lambda a, d: (d[1] | (d[2] & 0xf) << 8) if d[2] & 0x80 else 0),
    'set_vlan_id': dict(kind='write',
                        args=lambda r: {'vlan': r.choice([0, 1, 2, 255, 256, 394, 2048, 4094, 4095, r.randrange(4096)]),
                                        'channel': chan(r)},
                        req=lan_set_req(20, lambda a: bytes([a['vlan'] & 0xff, 0x80 | a['vlan'] >> 8]) if a['vlan'] else bytes(2)),
                        res=lambda a, d: None),
    # --- users
    'set_username': dict(kind='write', args=lambda r: {'userid': r.choice([0, 1, 2, 10, 63]), 'username': username(r)},
                         req=lambda a: (6, 0x45, 0, bytes([a['userid']]) + pad16(a['username'])), res=lambda a, d: None),
    'get_username': dict(kind='read', args=lambda r: {'userid': r.choice([0, 1, 2, 10, 63])},
                         req=lambda a: (6, 0x46, 0, bytes([a['userid']])), res=lambda a, d: bytes(d)),
    'set_user_password': dict(kind='write', args=lambda r: {'userid': r.choice([1, 2, 10, 63]),
                                                            'password': r.choice(['', 'secret', 'p' * 16, 'Pa$$w0rd!'])},
                              req=lambda a: (6, 0x47, 0, bytes([a['userid'], 2]) + pad16(a['password'])),
                              res=lambda a, d: None),
    'enable_user': dict(kind='write', args=lambda r: {'userid': r.choice([1, 2, 10, 63])},
                        req=lambda a: (6, 0x47, 0, bytes([a['userid'], 1]) + bytes(16)), res=lambda a, d: None),
    'disable_user': dict(kind='write', args=lambda r: {'userid': r.choice([1, 2, 10, 63])},
                         req=lambda a: (6, 0x47, 0, bytes([a['userid'], 0]) + bytes(16)), res=lambda a, d: None),
    'set_user_access': dict(kind='write', args=user_access_args, req=user_access_req, res=lambda a, d: None),
    'get_user_access': dict(kind='read', args=lambda r: {'userid': r.choice([0, 1, 2, 10, 62, 63]), 'channel': chan(r)},
                            req=lambda a: (6, 0x44, 0, bytes([a['channel'], a['userid']])), res=user_access_res),
    # --- sensors and events
    'get_sensor_reading': dict(kind='read', args=lambda r: {'sensor_number': r.choice(SENSOR_NUMS), 'lun': r.randrange(4)},
                               req=lambda a: (4, 0x2d, a['lun'], bytes([a['sensor_number']])), res=reading_res),
    'set_sensor_thresholds': dict(kind='write', args=thr_args, req=thr_req, res=lambda a, d: None),
    'get_sensor_thresholds': dict(kind='read', args=lambda r: {'sensor_number': r.choice(SENSOR_NUMS), 'lun': r.randrange(4)},
                                  req=lambda a: (4, 0x27, a['lun'], bytes([a['sensor_number']])), res=thr_res),
    'rearm_sensor_events': dict(kind='write', args=lambda r: {'sensor_number': u8(r)},
                                req=lambda a: (4, 0x2a, 0, bytes([a['sensor_number']])), res=lambda a, d: None,
                                reqlen_only=True),
    'set_event_receiver': dict(kind='write', args=lambda r: {'ipmb_address': r.choice([0, 0x10, 0x20, 0x41, 0x7f]), 'lun': r.randrange(4)},
                               req=lambda a: (4, 0x00, 0, bytes([a['ipmb_address'] << 1, a['lun']])), res=lambda a, d: None),
    'get_event_receiver': dict(kind='read', args=lambda r: {}, req=lambda a: (4, 0x01, 0, b''),
                               res=lambda a, d: [d[0] >> 1, d[1] & 3]),
    'send_platform_event': dict(kind='write',
                                args=lambda r: {'sensor_type': u8(r), 'sensor_number': u8(r), 'event_type': small(r, 128),
                                                'asserted': r.choice([True, False]),
                                                'event_data': r.choice([None, [1], [1, 2], [0xff, 0, 7]])},
                                req=lambda a: (4, 0x02, 0, bytes([4, a['sensor_type'], a['sensor_number'],
                                                                  a['event_type'] | (0 if a['asserted'] else 0x80)]
                                                                 + (a['event_data'] or [0]))), res=lambda a, d: None),
    # --- PICMG
    'get_picmg_properties': dict(kind='read', args=lambda r: {}, req=lambda a: (0x2c, 0x00, 0, P()),
                                 res=lambda a, d: obj('GetPicmgProperties', completion_code=0, picmg_identifier=d[0],
                                                      extension_version=d[1], max_fru_device_id=d[2], fru_device_id=d[3])),
    'fru_control': dict(kind='write', args=lambda r: {'fru_id': fru(r), 'option': small(r, 4)},
                        req=lambda a: (0x2c, 0x04, 0, P(a['fru_id'], a['option'])), res=lambda a, d: bytes(d[1:])),
    'set_led_state': dict(kind='write', args=led_args, req=led_req, res=lambda a, d: None),
    'get_led_state': dict(kind='read', args=lambda r: {'fru_id': r.choice([0, 1, 255]), 'led_id': r.choice([0, 1, 255])},
                          req=lambda a: (0x2c, 0x08, 0, P(a['fru_id'], a['led_id'])), res=led_res),
    'set_fan_level': dict(kind='write', args=lambda r: {'fru_id': fru(r), 'fan_level': u8(r)},
                          req=lambda a: (0x2c, 0x15, 0, P(a['fru_id'], a['fan_level'])), res=lambda a, d: None,
                          req_prefix=True),
    'get_fan_level': dict(kind='read', args=lambda r: {'fru_id': fru(r)}, req=lambda a: (0x2c, 0x16, 0, P(a['fru_id'])),
                          res=lambda a, d: [d[1], d[2] if len(d) > 2 else None]),
    'get_fan_speed_properties': dict(kind='read', args=lambda r: {'fru_id': fru(r)},
                                     req=lambda a: (0x2c, 0x14, 0, P(a['fru_id'])),
                                     res=lambda a, d: obj('FanSpeedProperties', minimum_speed_level=d[1], maximum_speed_level=d[2],
                                                          normal_operation_level=d[3], local_control_supported=d[4] >> 7)),
    'get_power_level': dict(kind='read', args=lambda r: {'fru_id': fru(r), 'power_type': small(r, 4)},
                            req=lambda a: (0x2c, 0x12, 0, P(a['fru_id'], a['power_type'])),
                            res=lambda a, d: obj('PowerLevel', dynamic_power_configuration=d[1] >> 7, power_level=d[1] & 0x1f,
                                                 delay_to_stable=d[2], power_mulitplier=d[3], power_levels=bytes(d[4:]))),
    'set_fru_activation_policy': dict(kind='write', args=lambda r: {'fru_id': fru(r), 'ctrl': small(r, 4)},
                                      req=policy_req(None), res=lambda a, d: None),
    'set_fru_activation_lock': dict(kind='write', args=lambda r: {'fru_id': fru(r)}, req=policy_req(0), res=lambda a, d: None),
    'clear_fru_activation_lock': dict(kind='write', args=lambda r: {'fru_id': fru(r)}, req=policy_req(1), res=lambda a, d: None),
    'set_fru_deactivation_lock': dict(kind='write', args=lambda r: {'fru_id': fru(r)}, req=policy_req(2), res=lambda a, d: None),
    'clear_fru_deactivation_lock': dict(kind='write', args=lambda r: {'fru_id': fru(r)}, req=policy_req(3), res=lambda a, d: None),
    'set_fru_activation': dict(kind='write', args=lambda r: {'fru_id': fru(r)},
                               req=lambda a: (0x2c, 0x0c, 0, P(a['fru_id'], 1)), res=lambda a, d: None),
    'set_fru_deactivation': dict(kind='write', args=lambda r: {'fru_id': fru(r)},
                                 req=lambda a: (0x2c, 0x0c, 0, P(a['fru_id'], 0)), res=lambda a, d: None),
}
for _n, _o in (('chassis_control_power_down', 0), ('chassis_control_power_up', 1), ('chassis_control_power_cycle', 2),
               ('chassis_control_hard_reset', 3), ('chassis_control_diagnostic_interrupt', 4),
               ('chassis_control_soft_shutdown', 5)):
    SPEC[_n] = dict(kind='write', args=lambda r: {}, req=(lambda o: lambda a: (0, 0x02, 0, bytes([o])))(_o), res=lambda a, d: None)
for _n, _o in (('fru_control_cold_reset', 0), ('fru_control_warm_reset', 1), ('fru_control_graceful_reboot', 2)):
    SPEC[_n] = dict(kind='write', args=lambda r: {'fru_id': fru(r)},
                    req=(lambda o: lambda a: (0x2c, 0x04, 0, P(a['fru_id'], o)))(_o), res=lambda a, d: None)
SPEC['fru_control_diagnostic_interrupt'] = dict(kind='write', args=lambda r: {'fru_id': fru(r)},
                                                req=lambda a: (0x2c, 0x04, 0, P(a['fru_id'], 3)), res=lambda a, d: bytes(d[1:]))


def selftest_res(a, d):
    r = {'status': d[1], 'fail_sdrr_empty': (d[2] >> 3) & 1, 'fail_bmc_fru_interanl_area': (d[2] >> 2) & 1,
         'fail_bootblock': (d[2] >> 1) & 1, 'fail_mc': d[2] & 1}
    if d[1] != 0x57:
        r.update(fail_sel=(d[2] >> 7) & 1, fail_sdrr=(d[2] >> 6) & 1, fail_bmc_fru=(d[2] >> 5) & 1, fail_ipmb=(d[2] >> 4) & 1)
    return obj('SelfTestResult', **r)


# --- HPM.1 status queries
SPEC['get_target_upgrade_capabilities'] = dict(
    kind='read', args=lambda r: {}, req=lambda a: (0x2c, 0x2e, 0, P()),
    res=lambda a, d: obj('TargetUpgradeCapabilities', version=d[1], components=[i for i in range(8) if d[7] >> i & 1]))
SPEC['get_upgrade_status'] = dict(
    kind='read', args=lambda r: {}, req=lambda a: (0x2c, 0x34, 0, P()),
    res=lambda a, d: obj('UpgradeStatus', command_in_progress=d[1], last_completion_code=d[2]))
SPEC['query_selftest_results'] = dict(kind='read', args=lambda r: {}, req=lambda a: (0x2c, 0x36, 0, P()), res=selftest_res)


# --- PICMG E-Keying port state, signaling class; MicroTCA power channels ---------------------------
PORT_CH = [0, 1, 15, 63]


def link_args(rng):
    flags = rng.choice([0x1, 0x3, 0x7, 0xf, 0xf, 0x8, rng.randrange(16)])
    return {'link_descr': Bag('LinkDescriptor', channel=rng.choice(PORT_CH), interface=rng.randrange(4), link_flags=flags,
                              type=small(rng, 16), sig_class=small(rng, 16), extension=small(rng, 16), grouping_id=u8(rng)),
            'state': rng.randrange(2)}


def link_req(a):
    l = a['link_descr']
    return (0x2c, 0x0e, 0, P(l.channel | l.interface << 6, l.link_flags | l.type << 4, l.sig_class | l.extension << 4,
                             l.grouping_id, a['state']))


def port_res(a, d):
    if len(d) < 6:
        return 'UNDECIDED'      # no link on this channel: whether the library may fail here cannot be decided offline
    return [obj('LinkDescriptor', channel=d[1] & 0x3f, interface=d[1] >> 6, link_flags=d[2] & 0xf, type=d[2] >> 4,
                sig_class=d[3] & 0xf, extension=d[3] >> 4, grouping_id=d[4]), d[5]]


def pwr_status_res(a, d):
    b = d[3]
    return obj('PowerChannelStatus', present=b & 1, management_power=b >> 1 & 1, management_power_overcurrent=b >> 2 & 1,
               enable=b >> 3 & 1, payload_power=b >> 4 & 1, payload_power_overcurrent=b >> 5 & 1, pwr_on=b >> 6 & 1)


def guid_res(a, d):
    r = list(reversed(d))
    h = lambda x: ''.join('%02x' % b for b in x)  # noqa
    return obj('DeviceGuid', device_guid=bytes(d),
               device_guid_string='-'.join([h(r[0:4]), h(r[4:6]), h(r[6:8]), h(r[8:10]), h(r[10:16])]))


def authcap_res(a, d):
    names = [(0, 'none'), (1, 'md2'), (2, 'md5'), (4, 'straight'), (5, 'oem_proprietary')]
    return obj('ChannelAuthenticationCapabilities', channel=d[0], auth_types=[n for i, n in names if d[1] >> i & 1],
               ipmi_1_5=not d[1] & 0x80, ipmi_2_0=bool(d[1] & 0x80))


def rollback_res(a, d):
    if len(d) > 2 and d[2]:
        return obj('RollbackStatus', percent_complete=d[2])
    return obj('RollbackStatus')


def msg(name, **kw):
    return obj(name, completion_code=0, **kw)


def bits(**kw):
    return obj('bits', **kw)


def i2c_args(rng, data=True, count=True):
    a = {'bus_type': rng.randrange(2), 'bus_id': small(rng, 8), 'channel': small(rng, 16),
         'address': rng.choice([0, 0x50, 0x51, 0x7f])}
    if count:
        a['count'] = rng.choice([0, 1, 2, 8])
    if data:
        a['data'] = rng.choice([None, b'', bytes([1]), bytes([0, 16, 255])]) if count else bytes([u8(rng), u8(rng)])
    return a


def i2c_req(count=None, data='arg'):
    def f(a):
        n = a['count'] if count is None else count
        dd = (a.get('data') or b'') if data == 'arg' else b''
        return (6, 0x52, 0, bytes([a['bus_type'] | a['bus_id'] << 1 | a['channel'] << 4, a['address'] << 1, n]) + bytes(dd))
    return f


def pwr_reading_res(a, d):
    le = lambda x: sum(b << (8 * i) for i, b in enumerate(x))  # noqa
    return msg('GetPowerReading', group_extension_id=d[0], current_power=le(d[1:3]), minimum_power=le(d[3:5]),
               maximum_power=le(d[5:7]), average_power=le(d[7:9]), timestamp=le(d[9:13]), period=le(d[13:17]),
               reading_state=d[17])


SPEC.update({
    'set_port_state': dict(kind='write', args=link_args, req=link_req, res=lambda a, d: None),
    'get_port_state': dict(kind='read', args=lambda r: {'channel_number': r.choice(PORT_CH), 'channel_interface': r.randrange(4)},
                           req=lambda a: (0x2c, 0x0f, 0, P(a['channel_number'] | a['channel_interface'] << 6)), res=port_res),
    'set_signaling_class': dict(kind='write', args=lambda r: {'interface': r.randrange(4), 'channel': r.choice(PORT_CH),
                                                               'signaling_class': small(r, 16)},
                                req=lambda a: (0x2c, 0x3b, 0, P(a['channel'] | a['interface'] << 6, a['signaling_class'])),
                                res=lambda a, d: None),
    'get_signaling_class': dict(kind='read', args=lambda r: {'interface': r.randrange(4), 'channel': r.choice(PORT_CH)},
                                req=lambda a: (0x2c, 0x3c, 0, P(a['channel'] | a['interface'] << 6)),
                                res=lambda a, d: d[2] & 0xf),
    'send_channel_power': dict(kind='write',
                               args=lambda r: {'channel': r.choice([1, 2, 3, 16]), 'enable': r.choice([True, False]),
                                               'current_limit': r.choice([0, 1, 2, 7, 25]), 'primary_pm': r.choice([1, 2]),
                                               'backup_pm': r.choice([0, 2])},
                               req=lambda a: (0x2c, 0x24, 0, P(a['channel'], 5 if a['enable'] else 4, a['current_limit'] * 10,
                                                              a['primary_pm'], a['backup_pm'])),
                               res=lambda a, d: msg('SendPowerChannelControl', picmg_identifier=d[0])),
    'get_power_channel_status': dict(kind='read', args=lambda r: {'start': r.choice([1, 2, 3, 16])},
                                     req=lambda a: (0x2c, 0x25, 0, P(a['start'], 1)), res=pwr_status_res),
    'get_pm_global_status': dict(kind='read', args=lambda r: {}, req=lambda a: (0x2c, 0x25, 0, P(1, 1)),
                                 res=lambda a, d: obj('GlobalStatus', role=d[2] & 1, management_power_good=bool(d[2] & 2),
                                                      payload_power_good=bool(d[2] & 4), unidentified_fault=bool(d[2] & 8))),
    'send_pm_heartbeat': dict(kind='write', args=lambda r: {}, req=lambda a: (0x2c, 0x28, 0, P(0, 0)),
                              res=lambda a, d: msg('SendPmHeartbeat', picmg_identifier=d[0])),
    # --- device GUID, channel authentication capabilities
    'get_device_guid': dict(kind='read', args=lambda r: {}, req=lambda a: (6, 0x08, 0, b''), res=guid_res),
    'get_channel_authentication_capabilities': dict(
        kind='read', args=lambda r: {'channel': chan(r), 'priv_lvl': small(r, 6)},
        req=lambda a: (6, 0x38, 0, bytes([a['channel'], a['priv_lvl']])), res=authcap_res),
    # --- HPM.1 rollback
    'query_rollback_status': dict(kind='read', args=lambda r: {}, req=lambda a: (0x2c, 0x37, 0, P()), res=rollback_res),
    'initiate_manual_rollback': dict(kind='write', args=lambda r: {}, req=lambda a: (0x2c, 0x38, 0, P()),
                                     res=lambda a, d: obj('RollbackStatus')),
    # --- DCMI
    'get_dcmi_capabilities': dict(kind='read', args=lambda r: {'selector': small(r, 6)},
                                  req=lambda a: (0x2c, 0x01, 0, bytes([0xdc, a['selector']])),
                                  res=lambda a, d: msg('GetDcmiCapabilities', group_extension_id=d[0],
                                                       specification_conformence=bits(major=d[1], minor=d[2]),
                                                       parameter_revision=d[3], parameter_data=bytes(d[4:]))),
    'get_power_reading': dict(kind='read', args=lambda r: {'mode': r.choice([1, 2]), 'attributes': u8(r)},
                              req=lambda a: (0x2c, 0x02, 0, bytes([0xdc, a['mode'], a['attributes'], 0])), res=pwr_reading_res),
    # --- I2C master write-read
    'i2c_write_read': dict(kind='write', args=lambda r: i2c_args(r), req=i2c_req(), res=lambda a, d: bytes(d)),
    'i2c_read': dict(kind='read', args=lambda r: i2c_args(r, data=False), req=i2c_req(data=None), res=lambda a, d: bytes(d)),
    'i2c_write': dict(kind='write', args=lambda r: i2c_args(r, count=False), req=i2c_req(count=0), res=lambda a, d: None),
})


def comp_prop_res(a, d):
    sel, data = a['property_id'], d[1:]
    cls = ['ComponentPropertyGeneral', 'ComponentPropertyCurrentVersion', 'ComponentPropertyDescriptionString',
           'ComponentPropertyRollbackVersion', 'ComponentPropertyDeferredVersion'][sel]
    if not data:
        return obj(cls)
    if sel == 0:
        cap = data[0]
        g = [['rollback_backup_not_supported', 'rollback_is_supported', 'rollback_is_supported', 'reserved'][cap & 3]]
        g += [n for i, n in ((2, 'prepartion'), (3, 'comparison'), (4, 'deferred_activation'), (5, 'payload_cold_reset_required'))
              if cap >> i & 1]
        return obj(cls, general=g)
    if sel == 2:
        return obj(cls, description=''.join(chr(x) for x in data if x))
    if len(data) < 2:
        return 'KeyError'
    if data[1] != 0xff and data[1] > 0x99:
        return 'DecodingError'
    return obj(cls, version=obj('VersionField', major=data[0], minor=bcd_minor(data[1])))


SPEC['get_component_property'] = dict(
    kind='read', args=lambda r: {'component_id': r.choice([0, 1, 7]), 'property_id': r.randrange(5)},
    req=lambda a: (0x2c, 0x2f, 0, P(a['component_id'], a['property_id'])), res=comp_prop_res)
