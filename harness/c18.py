"""C18 - HPM.1 images parse faithfully; firmware uploads completely and in order.

Correspondence: Model/HpmImage.v and Model/HpmUpload.v evaluated inside Coq (Corr/C18.v)
against pyipmi.hpm on the same files / the same recorded device replies.
Oracle: the property text stated directly on the implementation:
  * image: every field given to an independent HPM.1 image encoder (written from the
    format, below) comes back from UpgradeImage(file);
  * upload: the Upload Firmware Block requests recorded by a reference device carry the
    binary once and in order, numbered 0,1,2.. mod 256, no block above the block size, a
    status poll after every in-progress answer, HpmError and nothing more after a refusal.
time.time / time.sleep of pyipmi.hpm are replaced by a scripted clock (never sleeps).
Scratch files live under /verif/.build/c18.
"""
import hashlib
import itertools
import os
import struct

from . import common as C
from . import fakeif as F

MODEL_MAP = [
    {'python': 'pyipmi/hpm.py:UpgradeImageHeaderRecord._from_data', 'coq': 'Model.HpmImage.parse_header'},
    {'python': 'pyipmi/hpm.py:UpgradeActionRecord.__init__/create_from_data, UpgradeActionRecordBackup/Prepare/'
               'UploadForUpgrade/UploadForCompare', 'coq': 'Model.HpmImage.parse_action'},
    {'python': 'pyipmi/hpm.py:UpgradeImage._from_file/_check_md5_sum, ImageChecksumRecord',
     'coq': 'Model.HpmImage.parse_actions/parse_image'},
    {'python': 'pyipmi/fields.py:VersionField._from_data/_decode_data (+ utils.bcd_decode)',
     'coq': 'Model.HpmImage.version_field/dec_minor'},
    {'python': 'pyipmi/hpm.py:Hpm.upload_binary/upload_firmware_block', 'coq': 'Model.HpmUpload.upload_binary/upload_loop'},
    {'python': 'pyipmi/hpm.py:Hpm.wait_for_long_duration_command/get_upgrade_status, UpgradeStatus',
     'coq': 'Model.HpmUpload.wait_for_long_duration_command/wait_loop'},
    {'python': 'pyipmi/utils.py:chunks', 'coq': 'Model.HpmUpload.chunks'},
    {'python': 'pyipmi/msgs/hpm.py:UploadFirmwareBlockReq/Rsp, GetUpgradeStatusReq/Rsp (encode/decode via '
               'msgs/message.py)', 'coq': 'Model.HpmUpload.block_req/status_req/dec_block_rsp/dec_status_rsp'},
]
TRUSTED = ['hashlib.md5 (the MD5 trailer of encoded images; a Section variable in Coq)',
           'the independent HPM.1 image encoder and the reference HPM device (Coq: Model/HpmImageSpec.v, '
           'Model/HpmDevice.v; Python copies in harness/c18.py, the device copy re-checked in Coq per exchange)']

SCRATCH = C.BUILD / 'c18'


def _hpm():
    import pyipmi.hpm as hpm
    return hpm


# =====================================================================================
# image side
# =====================================================================================
# ---- independent encoder of the HPM.1 upgrade image format (spec side) ----
def zero_cksum(b):
    return (-sum(b)) & 0xff


def bcd(m):
    return 0xff if m == 255 else ((m // 10) << 4) | (m % 10)


def enc_version(v):
    return bytes([v['major'], bcd(v['minor'])]) + bytes.fromhex(v['aux'])


def enc_header(h):
    oem = bytes.fromhex(h['oem'])
    b = b'PICMGFWU' + bytes([0, h['device_id']])
    b += h['manufacturer_id'].to_bytes(3, 'little') + h['product_id'].to_bytes(2, 'little')
    b += h['time'].to_bytes(4, 'little')
    b += bytes([h['capabilities'], h['components'], h['selftest_timeout'], h['rollback_timeout'],
                h['inaccessibility_timeout'], h['earliest_major'], bcd(h['earliest_minor'])])
    b += enc_version(h['firmware_revision'])
    b += len(oem).to_bytes(2, 'little') + oem
    return b + bytes([zero_cksum(b)])


def enc_action(a):
    b = bytes([a['type'], a['components']])
    b += bytes([zero_cksum(b)])
    if a['type'] == 2:
        fw = bytes.fromhex(a['firmware'])
        b += enc_version(a['version']) + bytes.fromhex(a['description']) + len(fw).to_bytes(4, 'little') + fw
    return b


def enc_image(spec):
    body = enc_header(spec['header']) + b''.join(enc_action(a) for a in spec['actions'])
    return body + hashlib.md5(body).digest()


CKSUM_VALUES = (0x00, 0x01, 0x7f, 0x80, 0xff)


def force_header_cksum(spec, v):
    """adjust one free byte (the last OEM byte, or the capabilities byte of a header without OEM data)
    so that the header's zero-checksum byte comes out as v"""
    h = spec['header']
    delta = (enc_header(h)[-1] - v) % 256
    if h['oem']:
        oem = bytearray(bytes.fromhex(h['oem']))
        oem[-1] = (oem[-1] + delta) % 256
        h['oem'] = bytes(oem).hex()
    else:
        h['capabilities'] = (h['capabilities'] + delta) % 256
    assert enc_header(h)[-1] == v
    return spec


def force_action_cksum(a, v):
    """choose the component mask so that the record header's zero-checksum byte is v"""
    a['components'] = (-v - a['type']) % 256
    assert enc_action(a)[2] == v
    return a


def rand_bytes(rng, n):
    return bytes(rng.getrandbits(8) for _ in range(n)) if n < 64 else rng.randbytes(n)


def rand_minor(rng):
    return rng.choice([0, 1, 9, 10, 19, 23, 50, 90, 99, 255, rng.randrange(100)])


def rand_version(rng):
    return {'major': rng.randrange(256), 'minor': rand_minor(rng), 'aux': rand_bytes(rng, 4).hex()}


def rand_description(rng):
    """21 bytes: mostly an ASCII name padded with NULs; sometimes arbitrary bytes.  A backslash
    followed by u/U would be read as an escape by raw_unicode_escape (not modelled, and the
    description string is not among the fields the property names): avoided."""
    if rng.random() < 0.7:
        n = rng.randrange(0, 22)
        s = bytes(rng.choice(b'ABCDEFGHIJKLMNOPQRSTUVWXYZabcdefghijklmnopqrstuvwxyz0123456789 ._-') for _ in range(n))
        return (s + bytes(21 - n)).hex()
    d = bytearray(rand_bytes(rng, 21))
    for i in range(20):
        if d[i] == 0x5c and d[i + 1] in (0x75, 0x55):
            d[i + 1] = 0x20
    return bytes(d).hex()


def rand_spec(rng, oem_len=None, nactions=None, fw_max=4096):
    if oem_len is None:
        oem_len = rng.choice([0, 0, 1, 2, 16, 254, 255, rng.randrange(256), rng.randrange(256)])
    if nactions is None:
        nactions = rng.randrange(1, 9)
    h = {'device_id': rng.randrange(256), 'manufacturer_id': rng.choice([0, 15000, 0xffffff, rng.randrange(1 << 24)]),
         'product_id': rng.choice([0, 0xffff, rng.randrange(1 << 16)]),
         'time': rng.choice([0, 0xffffffff, rng.randrange(1 << 32)]),
         'capabilities': rng.randrange(256), 'components': rng.choice([1, 2, 0x80, 0xff, 0, rng.randrange(256)]),
         'selftest_timeout': rng.randrange(256), 'rollback_timeout': rng.randrange(256),
         'inaccessibility_timeout': rng.randrange(256),
         'earliest_major': rng.randrange(256), 'earliest_minor': rand_minor(rng),
         'firmware_revision': rand_version(rng), 'oem': rand_bytes(rng, oem_len).hex()}
    acts = []
    for _ in range(nactions):
        t = rng.choice([0, 1, 2, 2])
        a = {'type': t, 'components': rng.choice([1, 2, 4, 0x80, 0xff, rng.randrange(256)])}
        if t == 2:
            n = rng.choice([0, 1, 2, 15, 16, 17, 33, 34, 35, rng.randrange(64), rng.randrange(600),
                            rng.randrange(fw_max + 1), fw_max])
            a.update(version=rand_version(rng), description=rand_description(rng), firmware=rand_bytes(rng, n).hex())
        acts.append(a)
    return {'header': h, 'actions': acts}


# ---- observing the implementation ----
def parse_file(data, name='img'):
    hpm = _hpm()
    SCRATCH.mkdir(parents=True, exist_ok=True)
    p = SCRATCH / ('%s-%d.hpm' % (name, os.getpid()))
    p.write_bytes(data)
    try:
        return hpm.UpgradeImage(str(p))
    finally:
        try:
            p.unlink()
        except OSError:
            pass


def attempt(f):
    try:
        return f()
    except Exception as e:  # noqa
        return e


def c_version(v):
    aux = getattr(v, 'auxiliary', None)
    return '(mkVer %d %d %s)' % (v.major, v.minor, C.c_opt(None if aux is None else C.c_hex(aux)))


def c_res(x, printer):
    if isinstance(x, Exception):
        return '(Err %s)' % C.c_err(C.exc_class(x))
    try:
        return '(Ok %s)' % printer(x)
    except Exception:  # noqa - an observation outside the model's vocabulary: force a mismatch
        return '(Err OutOfFuel)'


def c_header(h):
    oem = getattr(h, 'oem_data', None)
    return ('(mkHeader %s %d %d %d %d %d %d %s %d %d %d %s %s %d %s %d %d)'
            % (C.c_hex(h.signature), h.format_version, h.device_id, h.manufacturer_id, h.product_id, h.time,
               h.capabilities, C.c_list([C.c_N(i) for i in h.components]), h.selftest_timeout,
               h.rollback_timeout, h.inaccessibility_timeout, c_version(h.earliest_compatible_revision),
               c_version(h.firmware_revision), h.oem_data_length, C.c_opt(None if oem is None else C.c_hex(oem)),
               h.checksum, h.length))


def c_action(a):
    assert a.action == a.action_type
    up = None
    if hasattr(a, 'firmware_image_data'):
        up = '(mkUpload %s %s %d %s)' % (c_version(a.firmware_version),
                                         C.c_list([C.c_N(ord(ch)) for ch in a.firmware_description_string]),
                                         a.firmware_length, C.c_hex(a.firmware_image_data))
    return '(mkAction %d %d %d %d %s)' % (a.action_type, a.components, a.checksum, a.length, C.c_opt(up))


def c_image(img):
    ck = getattr(img.checksum, 'data', None)
    assert img.checksum_actual is None
    return '(mkImage %s %s %s %s)' % (c_header(img.header), C.c_list([c_action(a) for a in img.actions]),
                                      C.c_opt(None if ck is None else C.c_hex(ck)), C.c_hex(img.checksum_expected))


# ---- oracle: the fields that went into the encoder come back ----
def oracle_image(inp):
    """returns (key, message) or None"""
    return judge_image(inp, attempt(lambda: parse_file(enc_image(inp), 'oracle')))


def judge_image(spec, img):
    """spec: what went into the encoder; img: UpgradeImage(file) or the exception it raised"""
    if isinstance(img, Exception):
        return ('UpgradeImage:raises', 'well-formed image not parsed: %s %s' % (type(img).__name__, img))
    h, s = img.header, spec['header']
    exp = {'signature': b'PICMGFWU', 'format_version': 0, 'device_id': s['device_id'],
           'manufacturer_id': s['manufacturer_id'], 'product_id': s['product_id'], 'time': s['time'],
           'capabilities': s['capabilities'], 'components': [i for i in range(8) if s['components'] >> i & 1],
           'selftest_timeout': s['selftest_timeout'], 'rollback_timeout': s['rollback_timeout'],
           'inaccessibility_timeout': s['inaccessibility_timeout'], 'oem_data_length': len(s['oem']) // 2}
    for k, v in exp.items():
        got = getattr(h, k, None)
        if (bytes(got) if isinstance(v, bytes) else got) != v:
            return ('UpgradeImageHeaderRecord:' + k, 'header.%s = %r, encoded %r' % (k, got, v))

    def ver(v, aux):
        return (v.major, v.minor, bytes(getattr(v, 'auxiliary', b'')).hex() if aux else None)
    if ver(h.earliest_compatible_revision, False) != (s['earliest_major'], s['earliest_minor'], None):
        return ('UpgradeImageHeaderRecord:earliest_compatible_revision', 'earliest compatible revision differs')
    fr = s['firmware_revision']
    if ver(h.firmware_revision, True) != (fr['major'], fr['minor'], fr['aux']):
        return ('UpgradeImageHeaderRecord:firmware_revision', 'firmware revision differs')
    oem = bytes.fromhex(s['oem'])
    got = getattr(h, 'oem_data', None)
    if oem and (got is None or bytes(got) != oem):
        return ('UpgradeImageHeaderRecord:oem_data',
                'header.oem_data is %s bytes (%s...), the image carries %d bytes of OEM data (%s...)'
                % ('absent' if got is None else len(got), '' if got is None else bytes(got[:8]).hex(), len(oem), oem[:8].hex()))
    if not oem and got:
        return ('UpgradeImageHeaderRecord:oem_data', 'header.oem_data non-empty for an image without OEM data')
    if len(img.actions) != len(spec['actions']):
        return ('UpgradeImage:action-count', '%d action records parsed, %d encoded' % (len(img.actions), len(spec['actions'])))
    for i, (a, sa) in enumerate(zip(img.actions, spec['actions'])):
        if (a.action_type, a.components) != (sa['type'], sa['components']):
            return ('UpgradeActionRecord:type-or-components', 'action %d: type/components %r, encoded %r'
                    % (i, (a.action_type, a.components), (sa['type'], sa['components'])))
        if sa['type'] == 2:
            fw = bytes.fromhex(sa['firmware'])
            v = sa['version']
            if not hasattr(a, 'firmware_image_data'):
                return ('UpgradeActionRecord:not-upload', 'action %d not parsed as upload record' % i)
            if ver(a.firmware_version, True) != (v['major'], v['minor'], v['aux']):
                return ('UpgradeActionRecordUploadForUpgrade:firmware_version', 'action %d: firmware version differs' % i)
            if a.firmware_length != len(fw):
                return ('UpgradeActionRecordUploadForUpgrade:firmware_length',
                        'action %d: declared length %d, encoded %d' % (i, a.firmware_length, len(fw)))
            if bytes(a.firmware_image_data) != fw:
                return ('UpgradeActionRecordUploadForUpgrade:firmware_image_data', 'action %d: firmware bytes differ' % i)
        elif hasattr(a, 'firmware_image_data'):
            return ('UpgradeActionRecord:spurious-upload', 'action %d parsed as upload record' % i)
    return None


# =====================================================================================
# upload side
# =====================================================================================
class Clock:
    """stands in for the `time` module inside pyipmi.hpm: time only passes in sleep()"""

    def __init__(self, unit=1):
        self.now = 1000 * unit
        self.sleeps = []

    def time(self):
        return self.now

    def sleep(self, x):
        self.sleeps.append(x)
        self.now += x


class Device:
    """Python copy of Model/HpmDevice.v:hpm_device.  plan[i] = ('A',) | ('P', k) | ('F', cc)"""

    def __init__(self, plan):
        self.plan, self.count, self.pending, self.received = list(plan), 0, 0, []

    def handle(self, netfn, cmd, lun, data, req=None):
        if netfn != 0x2c or lun != 0:
            return b'\xc1'
        if cmd == 0x32 and len(data) >= 2 and data[0] == 0:
            a = self.plan[self.count] if self.count < len(self.plan) else ('A',)
            self.count += 1
            self.received.append((data[1], bytes(data[2:])))
            self.pending = a[1] if a[0] == 'P' else 0
            return {'A': b'\x00\x00', 'P': b'\x80\x00'}.get(a[0]) or bytes([a[1], 0])
        if cmd == 0x34 and data == b'\x00':
            if self.pending:
                self.pending -= 1
                return b'\x00\x00\x32\x80'
            return b'\x00\x00\x32\x00'
        return b'\xc1'


def c_plan(plan):
    def one(a):
        return 'Accept' if a[0] == 'A' else '(InProgress %d%%nat)' % a[1] if a[0] == 'P' else '(Fail %d)' % a[1]
    return C.c_list([one(tuple(a)) for a in plan])


def c_exch(x):
    """one recorded exchange as Corr.C18.ex / exr"""
    if isinstance(x.reply, (bytes, bytearray)):
        return '(ex %d %d %d "%s" "%s")' % (x.netfn, x.cmd, x.lun, x.data.hex(), bytes(x.reply).hex())
    return '(exr %d %d %d "%s" %s)' % (x.netfn, x.cmd, x.lun, x.data.hex(), C.c_err(C.exc_class(x.reply)))


LIBRARY_BLOCK_SIZE = 22      # what Hpm.upload_binary uses on every interface (a constant in /repo)


class BlockSizeNotSettable(Exception):
    pass


def set_block_size(ipmi, bs):
    """Make the next upload_binary of this Ipmi object use block size bs; False if that is not possible.
    The library's block size is a constant: it reads no interface or target property, so there is no public
    way to choose another one.  The private hook Hpm._determine_max_block_size is used only as an optional
    fast path for the additional block sizes (the theorems are parametric in the size); when a refactoring
    has renamed or inlined it, those extra cases are skipped and everything runs with the library's own size."""
    hook = '_determine_max_block_size'
    ipmi.__dict__.pop(hook, None)
    if bs == LIBRARY_BLOCK_SIZE:
        return True
    if callable(getattr(type(ipmi), hook, None)):
        setattr(ipmi, hook, lambda: bs)
        return True
    return False


class Session:
    """One Ipmi object on one scripted interface, used for any number of uploads in a row (each
    against its own fresh reference device: a new upload session of the target)."""

    def __init__(self):
        self.cur = None
        self.ipmi, self.itf = F.connect(self._handler)

    def _handler(self, netfn, cmd, lun, data, req):
        import pyipmi.errors as E
        st = self.cur
        i = st['n']
        st['n'] += 1
        f = st['faults'].get(i)
        if f == 'timeout':
            raise E.IpmiTimeoutError()
        if f is not None:
            st['dev'].handle(netfn, cmd, lun, data)
            return bytes(f)
        return st['dev'].handle(netfn, cmd, lun, data)

    def upload(self, binary, bs, plan, timeout, interval, retry=None, faults=None, float_clock=False):
        """faults: {exchange index within this upload: 'timeout' | bytes} injected in front of the
        device (correspondence only)."""
        hpm = _hpm()
        dev = Device(plan)
        self.cur = {'dev': dev, 'n': 0, 'faults': {int(k): v for k, v in (faults or {}).items()}}
        start = len(self.itf.log)
        if not set_block_size(self.ipmi, bs):
            raise BlockSizeNotSettable(bs)
        clock = Clock()
        if float_clock:
            clock.now = 1000.0
        real = hpm.time
        hpm.time = clock
        try:
            kw = {}
            if timeout is not None:
                kw.update(timeout=timeout, interval=interval)
            if retry is not None:
                kw['retry'] = retry
            out = attempt(lambda: self.ipmi.upload_binary(binary, **kw))
        finally:
            hpm.time = real
        return out, self.itf.log[start:], clock.sleeps, dev


def run_upload(binary, bs, plan, timeout, interval, retry=None, faults=None, float_clock=False):
    """Drive the real Ipmi.upload_binary of a NEW Ipmi object against the reference device."""
    return Session().upload(binary, bs, plan, timeout, interval, retry, faults, float_clock)


def first_fail(plan, nblocks):
    for i, a in enumerate(plan[:nblocks]):
        if a[0] == 'F':
            return i
    return None


def oracle_upload(inp):
    """the property text on the recorded requests; returns (key, message) or None"""
    binary, bs, plan = bytes.fromhex(inp['binary']), inp['bs'], [tuple(a) for a in inp['plan']]
    try:
        out, log, sleeps, dev = run_upload(binary, bs, plan, inp.get('timeout'), inp.get('interval'))
    except BlockSizeNotSettable:
        return None          # this tree offers no way to run with that block size: nothing to judge
    return judge_upload(binary, bs, plan, out, log, dev)


def judge_upload(binary, bs, plan, out, log, dev):
    """one upload, judged from block number 0 on the requests the device recorded for it"""
    nblocks = (len(binary) + bs - 1) // bs
    ff = first_fail(plan, nblocks)
    blocks = [(i, x) for i, x in enumerate(log) if x.netfn == 0x2c and x.cmd == 0x32]
    for _, x in blocks:
        if len(x.data) < 2 or x.data[0] != 0:
            return ('upload_binary:malformed-request', 'Upload Firmware Block request %s' % x.data.hex())
    sent = b''.join(x.data[2:] for _, x in blocks)
    for j, (_, x) in enumerate(blocks):
        if x.data[1] != j % 256:
            return ('upload_binary:numbering', 'block request %d carries number %d' % (j, x.data[1]))
        if len(x.data) - 2 > bs:
            return ('upload_binary:block-size', 'block %d has %d bytes > block size %d' % (j, len(x.data) - 2, bs))
    for i, x in blocks:
        if x.reply[:1] == b'\x80':
            if i + 1 >= len(log) or not (log[i + 1].netfn == 0x2c and log[i + 1].cmd == 0x34):
                return ('upload_binary:no-poll-after-in-progress',
                        'block answered 0x80 at exchange %d is not followed by a Get Upgrade Status poll' % i)
    if ff is None:
        if out is not None:
            return ('upload_binary:raises', 'upload of %d bytes raised %s' % (len(binary), type(out).__name__))
        if sent != binary:
            k = next((i for i in range(min(len(sent), len(binary))) if sent[i] != binary[i]), min(len(sent), len(binary)))
            return ('upload_binary:data', 'bytes sent differ from the binary at offset %d (sent %d bytes, binary %d)'
                    % (k, len(sent), len(binary)))
        if bytes(b''.join(d for _, d in dev.received)) != binary:
            return ('upload_binary:data', 'device assembled something else than the binary')
    else:
        if C.exc_class(out) != 'HpmError' if isinstance(out, Exception) else True:
            return ('upload_binary:error-not-HpmError', 'block %d refused with cc 0x%02x: outcome %s'
                    % (ff, plan[ff][1], type(out).__name__ if isinstance(out, Exception) else 'normal return'))
        if len(blocks) != ff + 1 or blocks[-1][0] != len(log) - 1:
            return ('upload_binary:continues-after-error', 'requests continue after the refused block %d' % ff)
        if sent != binary[:len(sent)] or len(sent) != min(len(binary), (ff + 1) * bs):
            return ('upload_binary:data', 'bytes sent before the refusal are not the prefix of the binary')
    return None


def run_history(calls, each=None):
    """Uploads in a row in THIS process: call['obj'] names the Ipmi object (created at its first
    use, so a second object appears later in the history).  Every upload without injected transport
    faults is judged on its own, from block number 0.  each(n, call, out, log, sleeps, dev) sees every step."""
    sessions = {}
    verdict = None
    for n, c in enumerate(calls):
        ses = sessions.get(c['obj'])
        if ses is None:
            ses = sessions[c['obj']] = Session()
        binary, plan = bytes.fromhex(c['binary']), [tuple(a) for a in c['plan']]
        try:
            out, log, sleeps, dev = ses.upload(binary, c['bs'], plan, c['timeout'], c['interval'], c.get('retry'), c.get('faults'))
        except BlockSizeNotSettable:
            continue         # extra block sizes need the optional hook; skipped on this tree
        if each:
            each(n, c, out, log, sleeps, dev)
        if verdict is None and not c.get('faults'):
            r = judge_upload(binary, c['bs'], plan, out, log, dev)
            if r:
                verdict = ('upload_binary:call-depends-on-earlier-calls',
                           'upload %d of the history (object %d, %d bytes): %s [%s]' % (n, c['obj'], len(binary), r[1], r[0]))
    return verdict


def run_history_fresh(calls):
    """verdict for a (shrunk) history on fresh Ipmi objects (this process; class-level state, if any, persists)"""
    return run_history(calls)


def oracle_upload_seq(inp):
    return run_history(inp['calls'])


def expected_version(spec):
    """firmware version of the first upload record of the encoded image, or None"""
    for a in spec['actions']:
        if a['type'] == 2:
            v = a['version']
            return (v['major'], v['minor'], v['aux'])
    return None


def image_history(calls, each=None, kept=None):
    """Image operations in ONE process, in the given order.  A call is a spec (= parse it) or
    {'op': 'parse' | 'version', 'spec': spec}: UpgradeImage(file) / Hpm.get_upgrade_version_from_file(file).
    Every result is judged by the independent reading of the format; every image object obtained earlier
    is kept and judged AGAIN after each later call (an earlier result must not change)."""
    hpm = _hpm()
    verdict = None
    objs = []          # (index of the call, spec, image object)

    def bad(n, r, how=''):
        nonlocal verdict
        if r and verdict is None:
            verdict = ('UpgradeImage:call-depends-on-earlier-calls', 'call %d of the history%s: %s [%s]' % (n, how, r[1], r[0]))
    for n, c in enumerate(calls):
        op, spec = (c.get('op', 'parse'), c['spec']) if 'spec' in c else ('parse', c)
        data = enc_image(spec)
        if op == 'version':
            SCRATCH.mkdir(parents=True, exist_ok=True)
            p = SCRATCH / ('seqv-%d.hpm' % os.getpid())
            p.write_bytes(data)
            v = attempt(lambda: hpm.Hpm.get_upgrade_version_from_file(str(p)))
            p.unlink()
            if each:
                each(n, 'version', spec, v)
            if isinstance(v, Exception):
                bad(n, ('get_upgrade_version_from_file:raises', 'raised %s' % type(v).__name__))
            else:
                got = None if v is None else (v.major, v.minor, bytes(getattr(v, 'auxiliary', b'')).hex())
                if got != expected_version(spec):
                    bad(n, ('get_upgrade_version_from_file:version', 'get_upgrade_version_from_file returned %r, the image\'s first '
                            'upload record has %r' % (got, expected_version(spec))))
        else:
            img = attempt(lambda: parse_file(data, 'seq'))
            if each:
                each(n, 'parse', spec, img)
            bad(n, judge_image(spec, img))
            objs.append((n, spec, img))
        # kept-object recheck: what earlier calls returned is still right
        for (m, sp, im) in objs[:-1] if op != 'version' else objs:
            bad(n, judge_image(sp, im), ' (image object of call %d re-inspected)' % m)
    if kept is not None:
        kept.extend(objs)
    return verdict


def oracle_image_seq(inp):
    return image_history(inp['calls'])


ORACLES = {'image': oracle_image, 'upload': oracle_upload, 'upload_seq': oracle_upload_seq,
           'image_seq': oracle_image_seq}


def replay(data):
    r = data['replay']
    return ORACLES[r['oracle']](r['input']) is None


from . import c18_upgrade as U   # noqa: E402  (upgrade drivers: second part of the check)
ORACLES.update(U.ORACLES)
MODEL_MAP += U.MODEL_MAP


# =====================================================================================
def run(ctx):
    import pyipmi.errors as E
    from pyipmi.fields import VersionField
    hpm = _hpm()
    rng = ctx.rng
    q = ctx.quick
    res = C.Result(model_map=MODEL_MAP)
    D = C.Distinct()
    terms, meta, fails = [], [], {}

    def add(term, info):
        terms.append(term)
        meta.append(info)

    suspects = {}     # key -> [(message, replay)]: fails here, holds from a clean start = depends on earlier calls

    def oracle(name, inp):
        r = ORACLES[name](inp)
        res.evaluations += 1
        if r and r[0] not in fails and len(suspects.get(r[0], ())) < 3:
            rep = {'oracle': name, 'input': inp}
            # a single-call replay must reproduce from a clean start; if it does not, the failure is
            # history dependence of the implementation and the history stages have to find the sequence
            if not name.endswith('_seq') and C.holds_in_fresh_process('C18', rep):
                suspects.setdefault(r[0], []).append((r[1], rep))
            else:
                fails[r[0]] = C.Violation(key=r[0], what=r[1], replay=rep)

    # ------------------------------------------------------------------ images
    # VersionField on every minor byte, both field lengths
    for m in range(256):
        for d in (bytes([m ^ 0x5a, m]), bytes([m, m, 1, 2, 3, 4])):
            r = attempt(lambda: VersionField(d))
            add('chk_version %s %s' % (C.c_hex(d), c_res(r, c_version)), ('version', d.hex()))
        D.add(('ver', m), True, 'version-field')

    def image_case(data, kind, info):
        r = attempt(lambda: parse_file(data))
        add('chk_parse %s %s' % (C.c_hex(data), c_res(r, c_image)), (kind, info, len(data)))
        D.add((kind, data), True, kind)

    specs = []
    # OEM data lengths 0..255 (all of them over the tiers; boundaries always), 1..8 actions
    oem_lens = [0, 1, 2, 127, 254, 255] + ([rng.randrange(256) for _ in range(10)] if q else list(range(256)))
    for n in oem_lens:
        specs.append(rand_spec(rng, oem_len=n, fw_max=200))
    for k in range(1, 9):
        specs.append(rand_spec(rng, nactions=k, fw_max=300))
    for _ in range(40 if q else 400):
        specs.append(rand_spec(rng, fw_max=600))
    for _ in range(6 if q else 60):
        specs.append(rand_spec(rng, nactions=rng.randrange(1, 4), fw_max=4096))
    # every action type alone and firmware lengths around the 16-byte trailer test
    for t in (0, 1, 2):
        for n in ([0] if t != 2 else [0, 1, 15, 16, 17, 4096]):
            s = rand_spec(rng, nactions=1, fw_max=64)
            a = {'type': t, 'components': 1 << rng.randrange(8)}
            if t == 2:
                a.update(version=rand_version(rng), description=rand_description(rng), firmware=rand_bytes(rng, n).hex())
            s['actions'] = [a]
            specs.append(s)
    # boundary VALUES of every checksum byte the format has, deterministically in every run: the header's
    # zero checksum (with and without OEM data) and each record header's zero checksum, for each record type
    # (the MD5 trailer is never looked at by the code; it is always the real MD5)
    for v in CKSUM_VALUES:
        for oem_len in (0, 1, 17, 255):
            specs.append(force_header_cksum(rand_spec(rng, oem_len=oem_len, fw_max=60), v))
        for t in (0, 1, 2):
            s = rand_spec(rng, nactions=rng.randrange(1, 4), fw_max=60)
            a = {'type': t}
            if t == 2:
                a.update(version=rand_version(rng), description=rand_description(rng),
                         firmware=rand_bytes(rng, rng.randrange(0, 60)).hex())
            s['actions'].insert(rng.randrange(len(s['actions']) + 1), force_action_cksum(a, v))
            specs.append(s)
        # all of them at once: header and every record header carry the value v
        s = rand_spec(rng, nactions=3, oem_len=rng.choice([0, 5]), fw_max=40)
        for a in s['actions']:
            force_action_cksum(a, v)
        specs.append(force_header_cksum(s, v))
    for s in specs:
        data = enc_image(s)
        image_case(data, 'image-wellformed', 'oem=%d actions=%d' % (len(s['header']['oem']) // 2, len(s['actions'])))
        oracle('image', s)
    # the bundled real image (test vector): header and first records in Coq; whole file in thorough
    vec = (C.REPO / 'tests' / 'hpm_bin' / 'firmware.hpm').read_bytes()
    img = parse_file(vec)
    add('chk_header %s %s' % (C.c_hex(vec[:64]), c_res(attempt(lambda: hpm.UpgradeImageHeaderRecord(vec[:64])), c_header)),
        ('vector-header',))
    add('chk_action %s %s' % (C.c_hex(vec[35:99]), c_res(attempt(lambda: hpm.UpgradeActionRecord.create_from_data(vec[35:99])), c_action)),
        ('vector-action0',))
    if not q:
        image_case(vec, 'image-vector', 'firmware.hpm')
    # the vector against the independent reading of the format: re-encoding its fields gives the file
    try:
        h = img.header
        up = img.actions[1]
        assert len(img.actions) == 2 and hasattr(up, 'firmware_image_data')
        vspec = {'header': {'device_id': h.device_id, 'manufacturer_id': h.manufacturer_id, 'product_id': h.product_id,
                            'time': h.time, 'capabilities': h.capabilities, 'components': sum(1 << i for i in h.components),
                            'selftest_timeout': h.selftest_timeout, 'rollback_timeout': h.rollback_timeout,
                            'inaccessibility_timeout': h.inaccessibility_timeout,
                            'earliest_major': h.earliest_compatible_revision.major,
                            'earliest_minor': h.earliest_compatible_revision.minor,
                            'firmware_revision': {'major': h.firmware_revision.major, 'minor': h.firmware_revision.minor,
                                                  'aux': bytes(h.firmware_revision.auxiliary).hex()}, 'oem': ''},
                 'actions': [{'type': img.actions[0].action_type, 'components': img.actions[0].components},
                             {'type': 2, 'components': up.components,
                              'version': {'major': up.firmware_version.major, 'minor': up.firmware_version.minor,
                                          'aux': bytes(up.firmware_version.auxiliary).hex()},
                              'description': up.firmware_description_string.encode('latin-1').hex(),
                              'firmware': bytes(up.firmware_image_data).hex()}]}
        res.evaluations += 1
        if enc_image(vspec) != vec:
            fails['vector:encoder-disagrees'] = C.Violation(
                key='vector:encoder-disagrees', what='the independent encoder does not reproduce tests/hpm_bin/firmware.hpm '
                'from the fields the implementation reads out of it', replay={'oracle': 'image', 'input': vspec})
    except Exception as e:  # noqa - the implementation returned something else than the vector's two records here
        # (e.g. polluted by earlier parses): not a harness matter - force the correspondence to notice
        add('false', ('vector-stage', 'unexpected parse result of firmware.hpm: %r' % (e,)))

    # malformed stream: truncations, bad minor bytes, unknown action types, random bytes
    mal = []
    for _ in range(25 if q else 300):
        s = rand_spec(rng, fw_max=120)
        d = bytearray(enc_image(s))
        kind = rng.choice(['truncate', 'truncate', 'minor', 'type', 'length', 'oemlen', 'random'])
        if kind == 'truncate':
            d = d[:rng.choice([0, 1, 8, 20, 33, 34, 35, 36, rng.randrange(len(d)), len(d) - 1, len(d) - 16, len(d) - 17])]
        elif kind == 'minor':
            d[rng.choice([25, 27])] = rng.choice([0x0a, 0x1b, 0x9a, 0xa0, 0xfe, 0x0c, 0x4f])
        elif kind == 'type':
            d[35 + len(s['header']['oem']) // 2] = rng.choice([3, 3, 4, 0x80, 0xff])
        elif kind == 'length':
            off = 35 + len(s['header']['oem']) // 2
            d[off:off + 3] = bytes([2, 1, 0xfd])
            if len(d) > off + 34:
                d[off + 30:off + 34] = struct.pack('<L', rng.choice([0, 5, len(d), 0xffffffff, rng.randrange(1 << 32)]))
        elif kind == 'oemlen':
            d[32:34] = struct.pack('<H', rng.choice([0, 1, len(d) - 35, len(d) - 34, len(d), 0xffff]))
        else:
            d = bytearray(rand_bytes(rng, rng.randrange(0, 120)))
        mal.append((kind, bytes(d)))
    for kind, d in mal:
        image_case(d, 'image-malformed-' + kind, kind)

    # ------------------------------------------------------------------ uploads
    def emit_upload(out, log, sleeps, dev, binary, bs, plan, timeout, interval, retry, faults, kind):
        """the model prog replayed from a clean state against the replies recorded for this one upload"""
        outcome = '(Err %s)' % C.c_err(C.exc_class(out)) if isinstance(out, Exception) else '(Ok tt)'
        tr = C.c_list([c_exch(x) for x in log])
        args = '%s %s %d %d %s' % (C.c_nat(bs), C.c_hex(binary), timeout, interval, C.c_Z(3 if retry is None else retry))
        tail = '%s %s %s' % (tr, C.c_list([C.c_N(x) for x in sleeps]), outcome)
        if faults:
            add('chk_upload %s %s' % (args, tail), (kind, len(binary), bs, len(log)))
        else:
            add('chk_upload_dev %s %s %s' % (args, c_plan(plan), tail), (kind, len(binary), bs, len(log)))

    def upload_case(binary, bs, plan, timeout=2000, interval=100, retry=None, faults=None, kind='upload', dflt=False):
        try:
            out, log, sleeps, dev = run_upload(binary, bs, plan, None if dflt else timeout, interval, retry, faults,
                                               float_clock=dflt)
        except BlockSizeNotSettable:
            res.extra['block_sizes_skipped'] = res.extra.get('block_sizes_skipped', 0) + 1
            return
        if dflt:     # default arguments: timeout=2 s, interval=0.1 s; the model counts milliseconds
            sleeps = [int(round(x * 1000)) for x in sleeps]
        emit_upload(out, log, sleeps, dev, binary, bs, plan, timeout, interval, retry, faults, kind)
        if not faults:
            oracle('upload', {'binary': binary.hex(), 'bs': bs, 'plan': [list(a) for a in plan],
                              'timeout': None if dflt else timeout, 'interval': None if dflt else interval})
        D.add((kind, binary, bs, tuple(plan), timeout, interval, retry, repr(faults)), True, kind)

    # exhaustive in-progress subsets for 0..10 blocks; every single refusal position on top of a random subset
    maxn = 10
    for nb in range(0, maxn + 1):
        for mask in range(1 << nb):
            ln = 0 if nb == 0 else rng.randrange((nb - 1) * 22 + 1, nb * 22 + 1)
            plan = [('P', rng.choice([0, 1, 2, 3])) if mask >> i & 1 else ('A',) for i in range(nb)]
            upload_case(rand_bytes(rng, ln), 22, plan, kind='upload-subset')
        for pos in range(nb):
            ln = rng.randrange((nb - 1) * 22 + 1, nb * 22 + 1)
            plan = [('P', rng.randrange(3)) if rng.random() < 0.4 else ('A',) for _ in range(nb)]
            plan[pos] = ('F', rng.choice([0x81, 0x82, 0xc0, 0xc1, 0xc3, 0xc9, 0xd5, 0xff, 0x01, rng.randrange(1, 256)]))
            if plan[pos][1] == 0x80:
                plan[pos] = ('F', 0x7f)
            upload_case(rand_bytes(rng, ln), 22, plan, kind='upload-refusal')
    # lengths 0..6000 incl. the 256-block wrap (5632 = 256*22), random plans
    lens = [0, 1, 21, 22, 23, 44, 5610, 5611, 5632, 5633, 5654, 5655, 6000] + [rng.randrange(6001) for _ in range(8 if q else 120)]
    for ln in lens:
        nb = (ln + 21) // 22
        p = rng.choice([0.0, 0.05, 0.3, 1.0])
        plan = [('P', rng.choice([0, 1, 2, 5, 19, 20, 25])) if rng.random() < p else ('A',) for _ in range(nb)]
        upload_case(rand_bytes(rng, ln), 22, plan, kind='upload-long')
        if rng.random() < 0.5 and nb:
            plan = list(plan)
            plan[rng.randrange(nb)] = ('F', rng.choice([0x81, 0xc0, 0xcc, 0xff]))
            upload_case(rand_bytes(rng, ln), 22, plan, kind='upload-long-refusal')
    # other block sizes (the size is a parameter of the theorem; /repo fixes it to 22)
    for bs in [1, 2, 7, 16, 23, 64, 255]:
        for _ in range(2 if q else 12):
            ln = rng.choice([0, 1, bs, bs + 1, 256 * bs, 256 * bs + 1, rng.randrange(0, min(6000, 300 * bs) + 1)])
            ln = min(ln, 6000)
            nb = (ln + bs - 1) // bs
            plan = [('P', rng.randrange(4)) if rng.random() < 0.1 else ('A',) for _ in range(nb)]
            upload_case(rand_bytes(rng, ln), bs, plan, timeout=rng.choice([1, 50, 2000]), interval=rng.choice([1, 7, 100]),
                        kind='upload-blocksize')
    # default timeout/interval arguments (float seconds), few polls
    for _ in range(4 if q else 30):
        ln = rng.randrange(0, 400)
        plan = [('P', rng.randrange(4)) if rng.random() < 0.3 else ('A',) for _ in range((ln + 21) // 22)]
        upload_case(rand_bytes(rng, ln), 22, plan, kind='upload-default-args', dflt=True)
    # outside the property, inside the model: transport time-outs, malformed replies, retry budget
    for _ in range(20 if q else 200):
        ln = rng.randrange(1, 300)
        nb = (ln + 21) // 22
        plan = [('P', rng.randrange(3)) if rng.random() < 0.3 else ('A',) for _ in range(nb)]
        faults = {}
        for _ in range(rng.randrange(1, 5)):
            faults[rng.randrange(0, nb + 4)] = rng.choice(['timeout', 'timeout', b'', b'\x00', b'\x00\x00\x01', b'\x00\x00\x01\x02\x03\x04',
                                                           b'\x00' * 9, b'\x00' * 10, b'\x00' * 11, b'\xc3', b'\x00\x00\x32\x80',
                                                           b'\x00\x00\x32\x80\x10', b'\x00\x00\x32\x80\x10\x00', b'\xd5\x00'])
        upload_case(rand_bytes(rng, ln), 22, plan, retry=rng.choice([None, None, 1, 2, 0, -1]), faults=faults,
                    timeout=rng.choice([2000, 300, 0]), kind='upload-faults')

    # ------------------------------------------------------------------ histories
    # The models are stateless per call; state kept by the implementation between calls only shows
    # in SEQUENCES on the same objects in one process.  Every step is compared with the model prog
    # replayed from a clean state and judged by the oracle from block number 0.
    def step(obj, nblocks, kind, bs=22):
        """kind: ok | inprogress | refuse | xtimeout (transport time-out, retry=1 -> IpmiTimeoutError)
        | waitout (in-progress longer than the wait's time-out: the wait gives up, the upload goes on)"""
        ln = 0 if nblocks == 0 else rng.randrange((nblocks - 1) * bs + 1, nblocks * bs + 1)
        c = {'obj': obj, 'binary': rand_bytes(rng, ln).hex(), 'bs': bs, 'timeout': 2000, 'interval': 100,
             'plan': [['A'] for _ in range(nblocks)]}
        if kind in ('inprogress', 'refuse', 'xtimeout'):
            for i in range(nblocks):
                if rng.random() < 0.35:
                    c['plan'][i] = ['P', rng.randrange(4)]
        if kind == 'refuse' and nblocks:
            k = rng.randrange(nblocks)
            c['plan'][k] = ['F', rng.choice([0x81, 0x82, 0xc1, 0xc3, 0xd5, 0xff])]
        if kind == 'xtimeout' and nblocks:
            k = rng.randrange(nblocks)
            c['plan'][k] = ['A']
            # exchange index of block k = k + the status polls before it (each P answer with j
            # pending polls costs j + 1 polls)
            idx = k + sum(a[1] + 1 for a in c['plan'][:k] if a[0] == 'P')
            c['faults'] = {str(idx): 'timeout'}
            c['retry'] = 1
        if kind == 'waitout' and nblocks:
            c['plan'][rng.randrange(nblocks)] = ['P', 25]
            c['timeout'], c['interval'] = 300, 100
        return c

    histories = [
        # success, abort at a late block, success with in-progress answers, abort at block 0, ..., a second
        # Ipmi object created later, back and forth between the two
        [step(0, 3, 'inprogress'), step(0, 8, 'refuse'), step(0, 6, 'inprogress'), step(0, 1, 'refuse'), step(0, 4, 'ok'),
         step(0, 7, 'xtimeout'), step(0, 5, 'ok'), step(0, 4, 'waitout'), step(0, 3, 'ok'),
         step(1, 4, 'ok'), step(1, 9, 'refuse'), step(0, 2, 'inprogress'), step(1, 5, 'inprogress')],
        # across the modulo-256 wrap, then again from zero; then an abort beyond the wrap and a restart
        [step(0, 258, 'ok'), step(0, 3, 'ok'), step(0, 0, 'ok'), step(0, 2, 'inprogress')],
        # other block sizes through the same object
        [step(0, 5, 'refuse', bs=7), step(0, 4, 'ok'), step(0, 6, 'xtimeout', bs=3), step(0, 3, 'inprogress', bs=64)],
    ]
    kinds = ['ok', 'inprogress', 'inprogress', 'refuse', 'refuse', 'xtimeout', 'waitout']
    for _ in range(4 if q else 40):
        histories.append([step(rng.randrange(2), rng.randrange(0, 12), rng.choice(kinds)) for _ in range(rng.randrange(4, 11))])
    for hist in histories:
        def each(n, c, out, log, sleeps, dev):
            emit_upload(out, log, sleeps, dev, bytes.fromhex(c['binary']), c['bs'], [tuple(a) for a in c['plan']],
                        c['timeout'], c['interval'], c.get('retry'), c.get('faults'), 'upload-history')
            D.add(('hist', n, c['binary'], repr(c['plan']), repr(c.get('faults'))), True, 'upload-history-step')
        r = run_history(hist, each)
        res.evaluations += len(hist)
        if r and r[0] not in fails:
            seq = C.shrink_history('C18', 'upload_seq', hist) or hist
            r2 = run_history_fresh(seq) or r
            fails[r[0]] = C.Violation(key=r[0], what=r2[1] + ' [history of %d upload(s)]' % len(seq),
                                      replay={'oracle': 'upload_seq', 'input': {'calls': seq}})
    # several images in ONE process: OEM data 0 / 255 / 2 bytes, all record types, firmware 0 / 100 / 777 / 4096
    # bytes, varied order, the same file twice, get_upgrade_version_from_file before and after opening, and
    # every image object obtained earlier re-inspected after each later call
    def hspec(oem_len, kinds):
        sp = rand_spec(rng, oem_len=oem_len, nactions=len(kinds), fw_max=10)
        for a, k in zip(sp['actions'], kinds):
            a.clear()
            a.update(type=2 if isinstance(k, int) else {'b': 0, 'p': 1}[k], components=rng.choice([1, 2, 0x80, 0xff, rng.randrange(1, 256)]))
            if isinstance(k, int):
                a.update(version=rand_version(rng), description=rand_description(rng), firmware=rand_bytes(rng, k).hex())
        return sp
    A = hspec(0, ['b', 'p', 100])
    Bs = hspec(255, [0, 'b'])
    Cs = hspec(2, ['p', 777, 'b', 4096])
    Ds = hspec(0, ['b'])                       # no upload record: version None
    Es = hspec(17, [rng.randrange(0, 300), rng.randrange(0, 300), 'p'])
    P, V = (lambda sp: {'op': 'parse', 'spec': sp}), (lambda sp: {'op': 'version', 'spec': sp})
    ihists = [
        [V(A), P(A), V(A), P(Bs), V(Bs), V(A), P(A), P(Cs), V(Ds), P(Ds), V(Cs), P(Bs), V(A)],
        [P(Cs), P(Cs), V(Ds), P(Es), V(Es), P(A), V(Cs)],
    ]
    for _ in range(2 if q else 15):
        pool = [A, Bs, Ds, Es, hspec(rng.choice([0, 1, 255]), [rng.choice(['b', 'p', 0, 5, 100]) for _ in range(rng.randrange(1, 5))])]
        ihists.append([rng.choice([P, P, V])(rng.choice(pool)) for _ in range(rng.randrange(4, 10))])
    for ihist in ihists:
        kept = []

        def each_img(n, op, spec, out):
            data = enc_image(spec)
            if op == 'parse':
                add('chk_parse %s %s' % (C.c_hex(data), c_res(out, c_image)), ('image-history', n, len(data)))
            else:
                add('chk_version_from_file %s %s' % (C.c_hex(data), c_res(out, lambda v: C.c_opt(None if v is None else c_version(v)))),
                    ('image-history-version', n, len(data)))
            D.add(('ihist', n, op, data), True, 'image-history-step')
        r = image_history(ihist, each_img, kept)
        # the kept objects once more, as they are at the end of the history, against the model
        for (m, sp, im) in kept:
            add('chk_parse %s %s' % (C.c_hex(enc_image(sp)), c_res(im, c_image)), ('image-history-kept', m))
        res.evaluations += len(ihist)
        if r and r[0] not in fails:
            seq = C.shrink_history('C18', 'image_seq', ihist) or ihist
            ops = ', '.join('%s(image with %d record(s))' % ('UpgradeImage' if c.get('op', 'parse') == 'parse' else
                                                             'get_upgrade_version_from_file', len(c['spec']['actions'])) for c in seq)
            fails[r[0]] = C.Violation(key=r[0], what='the history %s, run from a clean start, ends with a wrong result; first seen in this '
                                      'run as: %s' % (ops, r[1]), replay={'oracle': 'image_seq', 'input': {'calls': seq}})

    # ------------------------------------------------------------------ upgrade drivers
    U.stage(ctx, add, oracle, D, res)

    # spread the long cases over the shards (fixed permutation), map the verdicts back
    import random
    perm = list(range(len(terms)))
    random.Random(18).shuffle(perm)
    failing, errors = C.coq_cases('C18', 'Lib.Prog Model.HpmImage Model.HpmUpload Model.HpmDevice Model.HpmUpgrade Model.HpmUpgradeSpec Corr.C18',
                                  [terms[i] for i in perm], shard=max(40, len(terms) // 48 + 1))
    failing = sorted(perm[i] for i in failing)
    res.mismatches = [{'case': meta[i], 'term': terms[i][:1500]} for i in failing[:50]]
    res.corr_errors = errors
    res.evaluations += len(terms)
    res.distinct_nontrivial = D.distinct
    res.histogram = D.hist
    res.rule = ('images: independent HPM.1 encoder, OEM data lengths 0..255 (boundaries always, all 256 in thorough), 1..8 '
                'action records of the three image record types, firmware 0..4096 bytes, header and record-header checksum bytes forced to 0x00/0x01/0x7f/0x80/0xff, the bundled firmware.hpm, and a '
                'malformed stream (truncations, bad BCD, unknown types, wrong declared lengths, random bytes); uploads: '
                'every in-progress subset for 0..10 blocks and every single '
                'refusal position, lengths 0..6000 across the 256-block wrap with random plans, block sizes 1..255, default '
                'arguments, transport faults; histories: 3 designed + random sequences of uploads (successful, in-progress, '
                'refused at block k, transport time-out abort, wait time-out) on one Ipmi object and a second one created later, '
                'and image operations in a row (UpgradeImage / get_upgrade_version_from_file; OEM 0/2/255, all record types, firmware 0/100/777/4096; same file twice; kept objects re-inspected), every step compared with the stateless model and judged from block 0; '
                'a failing history is confirmed and shrunk in fresh interpreters. distinct = distinct canonical inputs (all non-trivial)')
    pick = [i for i in (0, 600, len(terms) // 2, len(terms) - 1) if i < len(terms)]
    res.samples = [{'term': terms[i][:400], 'case': meta[i]} for i in pick]
    if suspects and not any(k.endswith('call-depends-on-earlier-calls') for k in fails):
        k, lst = sorted(suspects.items())[0]
        fails['history-dependent:' + k] = C.Violation(
            key='history-dependent:' + k, what='%s - only after earlier calls in the same process (holds from a clean start); '
            'no failing history found by the history stages' % lst[0][0], replay=lst[0][1], found_input=False)
    res.extra['history_dependent_single_call_failures'] = {k: len(v) for k, v in suspects.items()}
    res.oracle_failures = list(fails.values())
    return res
