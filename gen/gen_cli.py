#!/usr/bin/env python3
"""Translator (G): pyipmi/ipmitool.py (+ the chassis power call chain) -> coq/Gen/CliTable.v.

Fail-closed: every item outside the fragment below becomes an explicit
`...Untranslated "<reason>"` constructor (never a guess), which makes the C20 obligations
over the regenerated table false.

What is translated (by `ast`, plus introspection of the live `pyipmi.Ipmi` class only for
the list of methods that exist and their signatures):

* COMMANDS: any statically evaluable sequence of `Command('<name>', <handler>)` entries (tuple / list literal,
  a module-level name bound once to one, tuple(...) / list(...), a + b, a comprehension
  `Command(n, f) for (n, f) in <evaluable sequence of pairs>` without condition); handler = `lambda i, a: <expr>`, the name of
  a module-level `def f(ipmi, args)`, or a factory call `<f>('<literal>', ...)` of a module-level def whose
  body is `def h(ipmi, args): ...; return h` or `return lambda i, a: ...` (the factory's parameters are
  replaced by the literal arguments).  `getattr(<x>, '<literal>')` is read as `<x>.<literal>` everywhere.  For a handler the translator collects
  every use `<ipmi>.<method>` of its first parameter: calls (with the number of positional
  arguments and the keyword names) and bare references.  Passing the parameter on to
  another module-level function (`sdr_show(ipmi, s)`) is followed transitively; any other
  use of the parameter is Untranslated.
* api_methods: public callables of `pyipmi.Ipmi` with (min, max) positional arity
  (self excluded) and accepted keyword names.
* expression helpers: a call of a module-level `def f(p...): return <expr>` whose parameters each occur once
  in <expr> (e.g. `_int(a)` = `int(a, 0)`) is replaced by that expression before anything is read;
  statement `setattr(x, '<literal>', v)` is read as `x.<literal> = v`.
* main(): the getopt option string / long options; the loop over the options - an if/elif chain on the
  option string, or a dispatch through a module-level dict literal {'<flag>': <setter>} applied as
  `f = D.get(o) | D[o]; [assert ...]; f(<settings>, a)` / `D[o](<settings>, a)` where each setter (def, lambda
  or factory product) is read like an if-branch; variables may be locals or attributes of one settings
  object whose defaults are the `self.<attr> = <const>` of its class's __init__, or entries `d['<key>']` of one
  dict literal; a branch `elif o in <literal tuple / list / set / dict or module-level name of one>:` is read once
  per member as if it were `elif o == <member>` (`<TABLE>[o]` over a literal dict is evaluated); the getopt
  string may be a module-level constant; a branch whose test cannot be read refuses BY NAME every option of
  the getopt string that no readable branch binds -
  (flag -> what is done with the value: store as string / int(a, 0) / int(a) / the
  one-hop routing list / set True / usage+exit / version+exit) with each local variable
  named by its SINK (where main hands it to the library - followed into module-level helpers such
  as `_setup_logging(verbose)`), so renaming a local or extracting a helper is harmless; a statement
  `helper(args...)` calling a module-level def is inlined (parameters substituted, `if <literal> is
  [not] None` decided) before the except bodies are read;
  the exception handlers around the command (exception class, text printed, exit status) - one clause per
  class, or one clause for a tuple of classes whose message comes from a helper
  `def f(e): if isinstance(e, A): return ...; if isinstance(e, B): return ...; return None`, specialised per class;
  the shape of that try: `<conn>.open()` inside its body before `cmd(<conn>, args)` (or directly
  before the try), `<conn>.close()` as its only finally statement, nothing after it.
* chassis power: for each 'chassis power <x>' entry the method's body in
  pyipmi/chassis.py must be `self.chassis_control(<CONST>)`, CONST resolved in
  pyipmi/msgs/chassis.py; `chassis_control` must build 'ChassisControl', assign
  `req.control.option = option` and send it; netfn / command / bit position of `option`
  come from the registered ChassisControlReq class.
"""
import argparse
import ast
import re
import inspect
import os
import sys


def q(s):
    return '"%s"' % str(s).replace('"', '""')


def coq_list(items, sep='; '):
    return '[' + sep.join(items) + ']'


import copy


class _Subst(ast.NodeTransformer):
    """replace Load occurrences of the given names by expressions"""

    def __init__(self, env):
        self.env = env

    def visit_Name(self, node):
        if isinstance(node.ctx, ast.Load) and node.id in self.env:
            return copy.deepcopy(self.env[node.id])
        return node


class _Getattr(ast.NodeTransformer):
    """getattr(<x>, '<literal>')  ->  <x>.<literal>"""

    def visit_Call(self, node):
        self.generic_visit(node)
        if isinstance(node.func, ast.Name) and node.func.id == 'getattr' and len(node.args) == 2 and not node.keywords \
                and isinstance(node.args[1], ast.Constant) and isinstance(node.args[1].value, str) \
                and node.args[1].value.isidentifier():
            return ast.copy_location(ast.Attribute(value=node.args[0], attr=node.args[1].value, ctx=ast.Load()), node)
        return node


class _Setattr(ast.NodeTransformer):
    """statement `setattr(<x>, '<literal>', <v>)`  ->  `<x>.<literal> = <v>`"""

    def visit_Expr(self, node):
        c = node.value
        if isinstance(c, ast.Call) and isinstance(c.func, ast.Name) and c.func.id == 'setattr' and len(c.args) == 3 \
                and not c.keywords and isinstance(c.args[1], ast.Constant) and isinstance(c.args[1].value, str) \
                and c.args[1].value.isidentifier():
            return ast.copy_location(ast.Assign(
                targets=[ast.Attribute(value=c.args[0], attr=c.args[1].value, ctx=ast.Store())], value=c.args[2]), node)
        return node


def expr_helpers(tree):
    """module-level defs that are one expression: `def f(p...): [doc]; return <expr>` where every parameter occurs
    exactly once in <expr>, which uses nothing but the parameters, constants and builtins"""
    out = {}
    for st in tree.body:
        if isinstance(st, ast.FunctionDef) and not st.decorator_list and not st.args.vararg and not st.args.kwarg \
                and not st.args.kwonlyargs and not st.args.defaults:
            body = [x for x in st.body if not (isinstance(x, ast.Expr) and isinstance(x.value, ast.Constant))]
            if len(body) == 1 and isinstance(body[0], ast.Return) and body[0].value is not None:
                params = [a.arg for a in st.args.args]
                names = [n.id for n in ast.walk(body[0].value) if isinstance(n, ast.Name)]
                import builtins
                if all(names.count(prm) == 1 for prm in params) and all(
                        n in params or hasattr(builtins, n) for n in names) \
                        and not any(isinstance(n, (ast.Lambda, ast.Await, ast.Yield, ast.NamedExpr)) for n in ast.walk(body[0].value)):
                    out[st.name] = (params, body[0].value)
    return out


class _InlineExpr(ast.NodeTransformer):
    """a call of an expression helper (see expr_helpers) with positional arguments -> its expression"""

    def __init__(self, helpers):
        self.helpers = helpers

    def visit_Call(self, node):
        self.generic_visit(node)
        if isinstance(node.func, ast.Name) and node.func.id in self.helpers and not node.keywords \
                and not any(isinstance(a, ast.Starred) for a in node.args):
            params, expr = self.helpers[node.func.id]
            if len(params) == len(node.args):
                new = _Subst(dict(zip(params, node.args))).visit(copy.deepcopy(expr))
                return ast.copy_location(new, node)
        return node


def vkey(n):
    """a variable as main sees it: a local / global name, or one attribute of a settings object"""
    if isinstance(n, ast.Name):
        return n.id
    if isinstance(n, ast.Attribute) and isinstance(n.value, ast.Name):
        return n.value.id + '.' + n.attr
    if isinstance(n, ast.Subscript) and isinstance(n.value, ast.Name) and isinstance(n.slice, ast.Constant) \
            and isinstance(n.slice.value, str):
        return n.value.id + '.' + n.slice.value          # one dict used as settings object: rmcp['host']
    return None


class _ConstLookup(ast.NodeTransformer):
    """<TABLE>['<literal>'] / <TABLE>.get('<literal>') for a module-level dict literal with literal keys -> its value"""

    def __init__(self, assigns):
        self.assigns = assigns

    def _tab(self, name):
        d = self.assigns.get(name)
        if isinstance(d, ast.Dict) and all(isinstance(k, ast.Constant) for k in d.keys):
            return {k.value: v for k, v in zip(d.keys, d.values)}
        return None

    def visit_Subscript(self, node):
        self.generic_visit(node)
        if isinstance(node.ctx, ast.Load) and isinstance(node.value, ast.Name) and isinstance(node.slice, ast.Constant):
            t = self._tab(node.value.id)
            if t is not None and node.slice.value in t and isinstance(t[node.slice.value], ast.Constant):
                return ast.copy_location(copy.deepcopy(t[node.slice.value]), node)
        return node


def literal_keys(node, assigns):
    """the literal members of `o in <node>`: a tuple / list / set / dict literal of constants, or a module-level name
    bound once to one; None when not statically evaluable"""
    if isinstance(node, ast.Name):
        node = assigns.get(node.id)
    if isinstance(node, ast.Dict):
        elts = node.keys
    elif isinstance(node, (ast.Tuple, ast.List, ast.Set)):
        elts = node.elts
    else:
        return None
    if all(isinstance(e, ast.Constant) and isinstance(e.value, str) for e in elts):
        return [e.value for e in elts]
    return None


def eval_seq(node, assigns, depth=0):
    """statically evaluate a sequence expression to the list of its element nodes: tuple / list literal, a
    module-level name bound once to such an expression, tuple(...) / list(...), a + b, and a comprehension with one
    `for <names> in <evaluable sequence>` (no condition) whose element is built from the loop names"""
    if depth > 6:
        raise Untranslated('sequence nested too deeply')
    if isinstance(node, (ast.Tuple, ast.List)):
        if any(isinstance(e, ast.Starred) for e in node.elts):
            raise Untranslated('starred element')
        return list(node.elts)
    if isinstance(node, ast.Name):
        if node.id not in assigns or assigns[node.id] is None:
            raise Untranslated('%s is not bound once at module level' % node.id)
        return eval_seq(assigns[node.id], assigns, depth + 1)
    if isinstance(node, ast.BinOp) and isinstance(node.op, ast.Add):
        return eval_seq(node.left, assigns, depth + 1) + eval_seq(node.right, assigns, depth + 1)
    if isinstance(node, ast.Call) and isinstance(node.func, ast.Name) and node.func.id in ('tuple', 'list') \
            and len(node.args) == 1 and not node.keywords:
        return eval_seq(node.args[0], assigns, depth + 1)
    if isinstance(node, (ast.GeneratorExp, ast.ListComp)) and len(node.generators) == 1:
        g = node.generators[0]
        if g.ifs or g.is_async:
            raise Untranslated('comprehension with a condition')
        items = eval_seq(g.iter, assigns, depth + 1)
        out = []
        for it in items:
            if isinstance(g.target, ast.Name):
                env = {g.target.id: it}
            elif isinstance(g.target, ast.Tuple) and all(isinstance(t, ast.Name) for t in g.target.elts) \
                    and isinstance(it, (ast.Tuple, ast.List)) and len(it.elts) == len(g.target.elts):
                env = dict(zip([t.id for t in g.target.elts], it.elts))
            else:
                raise Untranslated('comprehension target does not match the items')
            out.append(_Subst(env).visit(copy.deepcopy(node.elt)))
        return out
    raise Untranslated('%s is not a statically evaluable sequence' % type(node).__name__)


def module_assigns(tree):
    """name -> value for names assigned exactly once at module level (None when assigned several times)"""
    out = {}
    for st in tree.body:
        if isinstance(st, ast.Assign):
            for t in st.targets:
                if isinstance(t, ast.Name):
                    out[t.id] = None if t.id in out else st.value
        elif isinstance(st, (ast.AugAssign, ast.AnnAssign)) and isinstance(st.target, ast.Name):
            out[st.target.id] = None
    return out


def strip_doc(body):
    return [st for st in body if not (isinstance(st, ast.Expr) and isinstance(st.value, ast.Constant))]


def bind_call(f, call):
    """parameter name -> argument expression for a call of the module-level def f (positional / keyword
    arguments and constant defaults only); None when outside the fragment"""
    a = f.args
    if a.vararg or a.kwarg or a.kwonlyargs or a.posonlyargs or any(isinstance(x, ast.Starred) for x in call.args) \
            or any(k.arg is None for k in call.keywords) or len(call.args) > len(a.args):
        return None
    env = {}
    for prm, arg in zip(a.args, call.args):
        env[prm.arg] = arg
    for k in call.keywords:
        if k.arg in env or k.arg not in [x.arg for x in a.args]:
            return None
        env[k.arg] = k.value
    defaults = dict(zip([x.arg for x in a.args][len(a.args) - len(a.defaults):], a.defaults))
    for prm in a.args:
        if prm.arg not in env:
            if prm.arg not in defaults or not isinstance(defaults[prm.arg], ast.Constant):
                return None
            env[prm.arg] = defaults[prm.arg]
    return env


def resolve_handler(node, funcs, nparams=2, what='(ipmi, args)'):
    """the function a COMMANDS entry names, as (kind, name, params, body-nodes) or an error string:
       lambda i, a: <expr>  |  <module-level def>  |  <factory>('<literal>', ...) where the module-level def
       <factory> is `def f(p...): def h(ipmi, args): ...; return h` or `def f(p...): return lambda i, a: ...`
       (the factory's parameters are replaced by the literal arguments, getattr(x, '<name>') becomes x.<name>)"""
    if isinstance(node, ast.Lambda):
        if len(node.args.args) != nparams:
            return 'lambda does not take %s' % what
        return ('HLambda', None, [x.arg for x in node.args.args], [node.body])
    if isinstance(node, ast.Name):
        if node.id not in funcs:
            return 'handler %s is not a module-level def' % node.id
        f = funcs[node.id]
        if len(f.args.args) != nparams or f.args.vararg or f.args.kwarg:
            return '%s does not take %s' % (node.id, what)
        return ('HDef', node.id, [x.arg for x in f.args.args], f.body)
    if isinstance(node, ast.Call) and isinstance(node.func, ast.Name) and node.func.id in funcs \
            and all(isinstance(x, ast.Constant) for x in node.args) \
            and all(k.arg is not None and isinstance(k.value, ast.Constant) for k in node.keywords):
        f = funcs[node.func.id]
        env = bind_call(f, node)
        body = strip_doc(f.body)
        if env is None:
            return 'factory %s called outside the fragment' % node.func.id
        inner = None
        if len(body) == 2 and isinstance(body[0], ast.FunctionDef) and isinstance(body[1], ast.Return) \
                and isinstance(body[1].value, ast.Name) and body[1].value.id == body[0].name:
            inner = body[0]
        elif len(body) == 1 and isinstance(body[0], ast.Return) and isinstance(body[0].value, ast.Lambda):
            inner = body[0].value
        if inner is None or len(inner.args.args) != nparams or inner.args.vararg or inner.args.kwarg \
                or any(x.arg in env for x in inner.args.args):
            return 'factory %s is not `def h(ipmi, args): ...; return h` / `return lambda i, a: ...`' % node.func.id
        inner = _Getattr().visit(_Subst(env).visit(copy.deepcopy(inner)))
        ast.fix_missing_locations(inner)
        label = '%s(%s)' % (node.func.id, ', '.join(repr(x.value) for x in node.args))
        if isinstance(inner, ast.Lambda):
            return ('HLambda', None, [x.arg for x in inner.args.args], [inner.body])
        return ('HDef', label, [x.arg for x in inner.args.args], inner.body)
    return 'handler is %s' % type(node).__name__


def fold_test(t):
    """True / False when the test is decided by literals (`<literal> is [not] None`), else None"""
    if isinstance(t, ast.Compare) and len(t.ops) == 1 and isinstance(t.ops[0], (ast.Is, ast.IsNot)) \
            and isinstance(t.comparators[0], ast.Constant) and t.comparators[0].value is None:
        lhs = t.left
        if isinstance(lhs, ast.Constant):
            is_none = lhs.value is None
        elif isinstance(lhs, (ast.BinOp, ast.JoinedStr, ast.List, ast.Tuple, ast.Dict)):
            is_none = False
        else:
            return None
        return is_none if isinstance(t.ops[0], ast.Is) else not is_none
    return None


def inline_stmts(stmts, funcs, depth=0):
    """flatten statements: a call `helper(args...)` of a module-level def used as a statement is replaced by the
    helper's body with its parameters substituted (helpers that assign to a parameter or return a value are left
    alone); `if <literal> is [not] None:` is decided"""
    out = []
    for st in stmts:
        if isinstance(st, ast.Expr) and isinstance(st.value, ast.Call) and isinstance(st.value.func, ast.Name) \
                and st.value.func.id in funcs and depth < 4 and st.value.func.id not in ('usage', 'version', 'cmd'):
            f = funcs[st.value.func.id]
            env = bind_call(f, st.value)
            body = strip_doc(f.body)
            ok = env is not None
            for n in ast.walk(f):
                if isinstance(n, ast.Name) and isinstance(n.ctx, ast.Store) and env is not None and n.id in env:
                    ok = False
                if isinstance(n, ast.Return) and n.value is not None:
                    ok = False
                if isinstance(n, (ast.Global, ast.Nonlocal, ast.Yield, ast.YieldFrom)):
                    ok = False
            if ok:
                sub = [_Subst(env).visit(copy.deepcopy(x)) for x in body]
                for x in sub:
                    ast.copy_location(x, st)
                    ast.fix_missing_locations(x)
                out += inline_stmts(sub, funcs, depth + 1)
                continue
        if isinstance(st, ast.If):
            v = fold_test(st.test)
            if v is True:
                out += inline_stmts(st.body, funcs, depth)
                continue
            if v is False:
                out += inline_stmts(st.orelse, funcs, depth)
                continue
        out.append(st)
    return out


class Untranslated(Exception):
    pass


# ----------------------------------------------------------------------------- handlers
class Uses:
    def __init__(self):
        self.calls = []      # (method, npos, [kw]) ; npos = -1 for a bare reference
        self.problems = []


def dotted(node):
    parts = []
    while isinstance(node, ast.Attribute):
        parts.append(node.attr)
        node = node.value
    if isinstance(node, ast.Name):
        parts.append(node.id)
        return '.'.join(reversed(parts))
    return None


def collect_uses(body_nodes, param, funcs, uses, seen):
    """all uses of Name(param) inside the given nodes"""
    parents = {}
    for root in body_nodes:
        for n in ast.walk(root):
            for c in ast.iter_child_nodes(n):
                parents[c] = n
    for root in body_nodes:
        for n in ast.walk(root):
            if not (isinstance(n, ast.Name) and n.id == param):
                continue
            if isinstance(n.ctx, ast.Store):
                uses.problems.append('parameter %s is re-assigned' % param)
                continue
            p = parents.get(n)
            if isinstance(p, ast.Attribute) and p.value is n:
                pp = parents.get(p)
                if isinstance(pp, ast.Call) and pp.func is p:
                    if any(isinstance(a, ast.Starred) for a in pp.args) or any(k.arg is None for k in pp.keywords):
                        uses.problems.append('call of %s with * or ** arguments' % p.attr)
                    else:
                        uses.calls.append((p.attr, len(pp.args), [k.arg for k in pp.keywords]))
                else:
                    uses.calls.append((p.attr, -1, []))
            elif isinstance(p, ast.Call) and n in p.args and isinstance(p.func, ast.Name) and p.func.id in funcs:
                callee = funcs[p.func.id]
                pos = p.args.index(n)
                if pos >= len(callee.args.args):
                    uses.problems.append('passed to %s beyond its parameters' % p.func.id)
                elif (p.func.id, pos) not in seen:
                    seen.add((p.func.id, pos))
                    collect_uses(callee.body, callee.args.args[pos].arg, funcs, uses, seen)
            else:
                uses.problems.append('parameter %s used outside the fragment (line %d)' % (param, n.lineno))


def tr_handler(node, funcs):
    uses = Uses()
    r = resolve_handler(node, funcs)
    if isinstance(r, str):
        return 'HUntranslated %s' % q(r)
    kind, name, params, body = r
    collect_uses(body, params[0], funcs, uses, {(name, 0)} if isinstance(node, ast.Name) else set())
    if uses.problems:
        return 'HUntranslated %s' % q('; '.join(sorted(set(uses.problems))))
    calls = []
    for m, n, kw in sorted(set((m, n, tuple(kw)) for m, n, kw in uses.calls)):
        calls.append('mkCall %s %s %s' % (q(m), 'None' if n < 0 else '(Some %d%%nat)' % n, coq_list([q(k) for k in kw])))
    if kind == 'HLambda':
        return 'HLambda %s' % coq_list(calls)
    return 'HDef %s %s' % (q(name), coq_list(calls))


def tr_callspec(node, funcs):
    """CSingle <method> [<arg>...] when the handler makes exactly ONE call `<ipmi>.<method>(...)`, outside
    any loop, has no other use of <ipmi>, and every argument is an integer constant or
    int(<args>[k]) / int(<args>[k], base) (directly or through a local assigned once); else CMulti."""
    r = resolve_handler(node, funcs)
    if isinstance(r, str):
        return 'CMulti "handler outside the fragment"'
    p0, p1, body = r[2][0], r[2][1], r[3]
    parents = {}
    for root in body:
        for n in ast.walk(root):
            for c in ast.iter_child_nodes(n):
                parents[c] = n
    calls = []
    for root in body:
        for n in ast.walk(root):
            if isinstance(n, ast.Name) and n.id == p0:
                p = parents.get(n)
                pp = parents.get(p)
                if isinstance(p, ast.Attribute) and p.value is n and isinstance(pp, ast.Call) and pp.func is p:
                    calls.append(pp)
                else:
                    return 'CMulti "the connection is used other than by one direct method call"'
    if len(calls) != 1:
        return 'CMulti "%d method calls"' % len(calls)
    call = calls[0]
    a = parents.get(call)
    while a is not None:
        if isinstance(a, (ast.For, ast.While, ast.ListComp, ast.GeneratorExp, ast.SetComp, ast.DictComp, ast.Lambda,
                          ast.FunctionDef)):
            return 'CMulti "the call is inside a loop or nested function"'
        a = parents.get(a)
    if call.keywords or any(isinstance(x, ast.Starred) for x in call.args):
        return 'CMulti "keyword or starred arguments"'

    def assigned(name):
        hits = []
        for root in body:
            for n in ast.walk(root):
                if isinstance(n, ast.Name) and n.id == name and isinstance(n.ctx, ast.Store):
                    hits.append(parents.get(n))
        if len(hits) == 1 and isinstance(hits[0], ast.Assign) and len(hits[0].targets) == 1 \
                and hits[0].targets[0] is not None and isinstance(hits[0].targets[0], ast.Name):
            return hits[0].value
        return None

    def tr_arg(e, depth=0):
        if isinstance(e, ast.Constant) and isinstance(e.value, int) and not isinstance(e.value, bool):
            return 'AConst (%d)%%Z' % e.value
        if isinstance(e, ast.Name) and e.id not in (p0, p1) and depth == 0:
            v = assigned(e.id)
            return tr_arg(v, 1) if v is not None else None
        if isinstance(e, ast.Call) and isinstance(e.func, ast.Name) and e.func.id == 'int' and not e.keywords \
                and 1 <= len(e.args) <= 2 and isinstance(e.args[0], ast.Subscript) \
                and isinstance(e.args[0].value, ast.Name) and e.args[0].value.id == p1 \
                and isinstance(e.args[0].slice, ast.Constant) and isinstance(e.args[0].slice.value, int) \
                and not isinstance(e.args[0].slice.value, bool) and e.args[0].slice.value >= 0:
            base = 10
            if len(e.args) == 2:
                b = e.args[1]
                if not (isinstance(b, ast.Constant) and isinstance(b.value, int) and not isinstance(b.value, bool)
                        and b.value in (0, 10)):
                    return None
                base = b.value
            return 'AInt %d%%nat %d' % (e.args[0].slice.value, base)
        return None
    # the argument vector must not be re-assigned
    for root in body:
        for n in ast.walk(root):
            if isinstance(n, ast.Name) and n.id == p1 and isinstance(n.ctx, ast.Store):
                return 'CMulti "the argument list is re-assigned"'
    out = []
    for x in call.args:
        t = tr_arg(x)
        if t is None:
            return 'CMulti "an argument is neither a constant nor int(args[k])"'
        out.append(t)
    return 'CSingle %s %s' % (q(call.func.attr), coq_list(out))


def tr_commands(tree, funcs):
    assigns = module_assigns(tree)
    if assigns.get('COMMANDS') is None:
        return ['mkCmd "" (HUntranslated "COMMANDS is not assigned exactly once at module level")'], []
    try:
        elts = eval_seq(assigns['COMMANDS'], assigns)
    except Untranslated as e:
        return ['mkCmd "" (HUntranslated %s)' % q('COMMANDS: %s' % e)], []
    out, names = [], []
    for e in elts:
        name = handler = None
        if isinstance(e, ast.Call) and isinstance(e.func, ast.Name) and e.func.id == 'Command':
            pos = list(e.args)
            kw = {k.arg: k.value for k in e.keywords}
            if len(pos) + len(kw) == 2 and not any(isinstance(x, ast.Starred) for x in pos) and None not in kw:
                name = pos[0] if len(pos) >= 1 else kw.get('name')
                handler = pos[1] if len(pos) == 2 else kw.get('fn')
        if not (isinstance(name, ast.Constant) and isinstance(name.value, str)) or handler is None:
            out.append('mkCmd "" (HUntranslated %s)' % q('entry at line %d is not Command(<str>, <handler>)' % getattr(e, 'lineno', 0)))
            continue
        names.append((name.value, handler))
        out.append('mkCmd %s (%s)' % (q(name.value), tr_handler(handler, funcs)))
    return out, names


# ----------------------------------------------------------------------------- api methods
def tr_api(Ipmi):
    out = []
    for name in sorted(dir(Ipmi)):
        if name.startswith('_'):
            continue
        attr = inspect.getattr_static(Ipmi, name)
        fn = getattr(Ipmi, name)
        if not callable(fn):
            continue
        try:
            sig = inspect.signature(fn)
        except (TypeError, ValueError):
            out.append('mkApi %s 0%%nat None [] true' % q(name))
            continue
        params = list(sig.parameters.values())
        if not isinstance(attr, (staticmethod, classmethod)) and params:
            params = params[1:]                      # self
        mn = mx = 0
        star = False
        kws = []
        anykw = False
        for p in params:
            if p.kind in (p.POSITIONAL_ONLY, p.POSITIONAL_OR_KEYWORD):
                mx += 1
                if p.default is p.empty:
                    mn += 1
                if p.kind == p.POSITIONAL_OR_KEYWORD:
                    kws.append(p.name)
            elif p.kind == p.VAR_POSITIONAL:
                star = True
            elif p.kind == p.KEYWORD_ONLY:
                kws.append(p.name)
            elif p.kind == p.VAR_KEYWORD:
                anykw = True
        out.append('mkApi %s %d%%nat %s %s %s' % (q(name), mn, 'None' if star else '(Some %d%%nat)' % mx,
                                                  coq_list([q(k) for k in kws]), 'true' if anykw else 'false'))
    return out


# ----------------------------------------------------------------------------- main()
SINKS = [  # (dotted-name suffix of the called function, positional index) -> role
    ('pyipmi.Target', 0, 'target_address'),
    ('target.set_routing', 0, 'target_routing'),
    ('session.set_session_type_rmcp', 0, 'rmcp_host'),
    ('session.set_session_type_rmcp', 1, 'rmcp_port'),
    ('session.set_auth_type_user', 0, 'rmcp_user'),
    ('session.set_auth_type_user', 1, 'rmcp_password'),
    ('session.set_priv_level', 0, 'rmcp_priv_level'),
    ('pyipmi.interfaces.create_interface', 0, 'interface_name'),
    ('parse_interface_options', 0, 'interface_name'),
    ('parse_interface_options', 1, 'interface_options'),
]


def find_main(tree):
    for st in tree.body:
        if isinstance(st, ast.FunctionDef) and st.name == 'main':
            return st
    return None


def var_roles(fn, funcs=None, depth=0):
    """local variable / parameter name -> set of roles, by where its value is handed on: a library call of
    SINKS, the `if X:` / `A if X else B` that selects the DEBUG log level, or - followed into the callee - a
    parameter of a module-level helper that does one of these"""
    funcs = funcs or {}
    roles = {}
    for n in ast.walk(fn):
        if isinstance(n, ast.Call):
            d = dotted(n.func)
            if d is None:
                continue
            for suffix, pos, role in SINKS:
                if (d == suffix or d.endswith('.' + suffix)) and pos < len(n.args) and vkey(n.args[pos]) is not None:
                    roles.setdefault(vkey(n.args[pos]), set()).add(role)
            if d.endswith('setLevel'):
                for a in n.args:
                    if isinstance(a, ast.IfExp) and vkey(a.test) is not None:
                        roles.setdefault(vkey(a.test), set()).add('verbose')
            if isinstance(n.func, ast.Name) and n.func.id in funcs and depth < 3 and funcs[n.func.id] is not fn:
                callee = funcs[n.func.id]
                inner = var_roles(callee, funcs, depth + 1)
                env = bind_call(callee, n)
                for prm, arg in (env or {}).items():
                    if isinstance(arg, ast.Name):
                        for ik, ir in inner.items():
                            if ik.startswith(prm + '.'):
                                roles.setdefault(arg.id + ik[len(prm):], set()).update(ir)
                    if vkey(arg) is not None and prm in inner:
                        # only sinks that identify a role on their own
                        keep = set(r for r in inner[prm] if r != 'verbose' or callee.name not in ('usage',))
                        roles.setdefault(vkey(arg), set()).update(keep)
        # `if verbose:` guarding handler.setLevel(logging.DEBUG)
        if isinstance(n, ast.If) and vkey(n.test) is not None:
            for c in ast.walk(n):
                if isinstance(c, ast.Call) and dotted(c.func) and dotted(c.func).endswith('setLevel'):
                    roles.setdefault(vkey(n.test), set()).add('verbose')
    return roles


def role_of(var, roles, globals_declared):
    if var in globals_declared:
        return 'global:' + var
    r = roles.get(var, set())
    if len(r) == 1:
        return next(iter(r))
    if not r:
        return 'unknown:' + var
    return 'ambiguous:' + var


def tr_conv(value, optarg):
    """the expression stored, in terms of the option's argument variable"""
    if isinstance(value, ast.Name) and value.id == optarg:
        return 'CStr'
    if isinstance(value, ast.Constant) and value.value is True:
        return 'CTrue'
    if isinstance(value, ast.Call) and isinstance(value.func, ast.Name) and value.func.id == 'int' and not value.keywords \
            and value.args and isinstance(value.args[0], ast.Name) and value.args[0].id == optarg:
        if len(value.args) == 1:
            return 'CInt 10'
        if len(value.args) == 2 and isinstance(value.args[1], ast.Constant) and isinstance(value.args[1].value, int) \
                and not isinstance(value.args[1].value, bool) and value.args[1].value in (0, 10, 16):
            return 'CInt %d' % value.args[1].value
    # [(<const>, int(a[, base]), <const>)]
    if isinstance(value, ast.List) and len(value.elts) == 1 and isinstance(value.elts[0], ast.Tuple) \
            and len(value.elts[0].elts) == 3:
        parts = []
        for e in value.elts[0].elts:
            if isinstance(e, ast.Constant) and isinstance(e.value, int) and not isinstance(e.value, bool) and e.value >= 0:
                parts.append('HConst %d' % e.value)
            elif isinstance(e, ast.Constant) and e.value is None:
                parts.append('HNone')
            else:
                c = tr_conv(e, optarg)
                if c.startswith('CInt '):
                    parts.append('HArg %s' % c[5:])
                else:
                    return None
        return 'CHop (%s) (%s) (%s)' % tuple(parts)
    return None


def exit_code_of(call):
    """sys.exit(<int>) / sys.exit() -> int"""
    if dotted(call.func) != 'sys.exit' or call.keywords:
        return None
    if not call.args:
        return 0
    a = call.args[0]
    if len(call.args) == 1 and isinstance(a, ast.Constant) and isinstance(a.value, int) and not isinstance(a.value, bool):
        return a.value
    return None


def tr_options(main, funcs=None):
    getopt_call = None
    for n in ast.walk(main):
        if isinstance(n, ast.Call) and dotted(n.func) in ('getopt.getopt', 'getopt.gnu_getopt', 'getopt'):
            getopt_call = n
    short, longs, flavour = 'None', '[]', 'getopt.getopt'
    getopt_letters = []
    if getopt_call is not None:
        flavour = dotted(getopt_call.func)
        a = getopt_call.args
        a1 = a[1] if len(a) >= 2 else None
        if isinstance(a1, ast.Name) and isinstance((funcs or {}).get('__assigns__', {}).get(a1.id), ast.Constant):
            a1 = funcs['__assigns__'][a1.id]
        if isinstance(a1, ast.Constant) and isinstance(a1.value, str):
            short = '(Some %s)' % q(a1.value)
            getopt_letters = [c for c in a1.value if c != ':']
        if len(a) >= 3:
            if isinstance(a[2], (ast.List, ast.Tuple)) and all(isinstance(e, ast.Constant) and isinstance(e.value, str) for e in a[2].elts):
                longs = coq_list([q(e.value) for e in a[2].elts])
            else:
                short = 'None'
        if getopt_call.keywords or flavour != 'getopt.getopt' or not (
                a and isinstance(a[0], ast.Subscript) and dotted(a[0].value) == 'sys.argv'
                and isinstance(a[0].slice, ast.Slice) and isinstance(a[0].slice.lower, ast.Constant)
                and a[0].slice.lower.value == 1 and a[0].slice.upper is None):
            short = 'None'
    # the for-loop over the options
    funcs = funcs or {}
    loop = None
    for n in main.body:
        if isinstance(n, ast.For) and isinstance(n.target, ast.Tuple) and len(n.target.elts) == 2 \
                and all(isinstance(t, ast.Name) for t in n.target.elts) \
                and isinstance(n.iter, ast.Name) and n.iter.id == 'opts' and not n.orelse:
            loop = n
    entries, defaults = [], []
    if loop is None:
        return short, longs, ['mkOpt "" (AUntranslated "no `for o, a in opts:` loop in main")'], defaults
    optvar, optarg = loop.target.elts[0].id, loop.target.elts[1].id
    roles = var_roles(main, funcs)
    globals_declared = set()
    for n in ast.walk(main):
        if isinstance(n, ast.Global):
            globals_declared.update(n.names)

    def tr_branch(body, where):
        """what one option does: the statements executed for it, in main's own names"""
        gl = set(globals_declared)
        for st in body:
            if isinstance(st, ast.Global):
                gl.update(st.names)
        body = [_Setattr().visit(x) for x in inline_stmts([st for st in body if not isinstance(st, ast.Global)], funcs)]
        if len(body) == 1 and isinstance(body[0], ast.Assign) and len(body[0].targets) == 1 \
                and vkey(body[0].targets[0]) is not None:
            conv = tr_conv(body[0].value, optarg)
            if conv is not None:
                role = role_of(vkey(body[0].targets[0]), roles, gl)
                if role.startswith(('unknown:', 'ambiguous:')):
                    return 'AUntranslated %s' % q('where the value of %s goes was not identified' % role.split(':', 1)[1])
                return 'AStore %s (%s)' % (q(role), conv)
        elif len(body) == 2 and all(isinstance(x, ast.Expr) and isinstance(x.value, ast.Call) for x in body) \
                and isinstance(body[0].value.func, ast.Name) and body[0].value.func.id in ('usage', 'version') \
                and not body[0].value.args and not body[0].value.keywords:
            code = exit_code_of(body[1].value)
            if code is not None:
                return 'AExit %s (%d)%%Z' % (q(body[0].value.func.id), code)
        return 'AUntranslated %s' % q('%s outside the fragment' % where)

    lbody = [st for st in loop.body]
    if len(lbody) == 1 and isinstance(lbody[0], ast.If):
        # ---- shape 1: if o == '-x': ... elif o in <literal table>: ... else: assert False
        assigns = funcs.get('__assigns__', {})
        node = lbody[0]
        unreadable = []
        while node is not None:
            t = node.test
            simple = isinstance(t, ast.Compare) and len(t.ops) == 1 and isinstance(t.left, ast.Name) and t.left.id == optvar
            if simple and isinstance(t.ops[0], ast.Eq) and isinstance(t.comparators[0], ast.Constant) \
                    and isinstance(t.comparators[0].value, str):
                entries.append('mkOpt %s (%s)' % (q(t.comparators[0].value), tr_branch(node.body, 'body at line %d' % node.lineno)))
            elif simple and isinstance(t.ops[0], ast.In) and literal_keys(t.comparators[0], assigns) is not None:
                # one branch for several options: read it once per member, as if it were `elif o == <member>`
                for key in literal_keys(t.comparators[0], assigns):
                    body = [_ConstLookup(assigns).visit(_Subst({optvar: ast.Constant(value=key)}).visit(copy.deepcopy(st)))
                            for st in node.body]
                    for st in body:
                        ast.fix_missing_locations(st)
                    entries.append('mkOpt %s (%s)' % (q(key), tr_branch(body, 'body at line %d for %s' % (node.lineno, key))))
            else:
                unreadable.append('test at line %d is neither `o == <str>` nor `o in <literal table>`' % node.lineno)
            nxt = node.orelse
            if len(nxt) == 1 and isinstance(nxt[0], ast.If):
                node = nxt[0]
            else:
                if not (len(nxt) == 1 and isinstance(nxt[0], ast.Assert) and isinstance(nxt[0].test, ast.Constant)
                        and nxt[0].test.value is False) and nxt:
                    unreadable.append('final else is not `assert False`')
                node = None
        if unreadable:
            # a branch that could not be read may stand for every option getopt accepts that no readable branch binds:
            # each of them is refused BY NAME (never an unnamed option)
            bound = set(re.findall(r'mkOpt "(-\w)"', ' '.join(entries)))
            for c in getopt_letters:
                if '-' + c not in bound:
                    entries.append('mkOpt %s (AUntranslated %s)' % (q('-' + c), q(unreadable[0])))
            if not getopt_letters:
                entries.append('mkOpt "" (AUntranslated %s)' % q(unreadable[0]))
    else:
        # ---- shape 2: dispatch through a module-level dict literal  {'-x': <setter>, ...}:
        #        f = D.get(o) | D[o] ; [assert f is not None] ; f(<settings>, a)      or   D[o](<settings>, a)
        tree_assigns = funcs.get('__assigns__', {})
        stmts = [st for st in lbody if not isinstance(st, ast.Assert)]
        table = call = None
        fvar = None

        def lookup_of(e):
            if isinstance(e, ast.Subscript) and isinstance(e.value, ast.Name) and isinstance(e.slice, ast.Name) \
                    and e.slice.id == optvar:
                return e.value.id
            if isinstance(e, ast.Call) and isinstance(e.func, ast.Attribute) and e.func.attr == 'get' \
                    and isinstance(e.func.value, ast.Name) and len(e.args) == 1 and not e.keywords \
                    and isinstance(e.args[0], ast.Name) and e.args[0].id == optvar:
                return e.func.value.id
            return None
        if len(stmts) == 2 and isinstance(stmts[0], ast.Assign) and len(stmts[0].targets) == 1 \
                and isinstance(stmts[0].targets[0], ast.Name) and lookup_of(stmts[0].value) \
                and isinstance(stmts[1], ast.Expr) and isinstance(stmts[1].value, ast.Call) \
                and isinstance(stmts[1].value.func, ast.Name) and stmts[1].value.func.id == stmts[0].targets[0].id:
            table, call = lookup_of(stmts[0].value), stmts[1].value
        elif len(stmts) == 1 and isinstance(stmts[0], ast.Expr) and isinstance(stmts[0].value, ast.Call) \
                and lookup_of(stmts[0].value.func):
            table, call = lookup_of(stmts[0].value.func), stmts[0].value
        d = tree_assigns.get(table) if table else None
        if call is None or not isinstance(d, ast.Dict) or call.keywords or any(isinstance(x, ast.Starred) for x in call.args) \
                or not all(isinstance(k, ast.Constant) and isinstance(k.value, str) for k in d.keys):
            return short, longs, ['mkOpt "" (AUntranslated "option loop is neither an if/elif chain nor a dict dispatch")'], defaults
        for k, v in zip(d.keys, d.values):
            r = resolve_handler(v, funcs, nparams=len(call.args), what='the %d arguments of the dispatch call' % len(call.args))
            if isinstance(r, str):
                entries.append('mkOpt %s (AUntranslated %s)' % (q(k.value), q(r)))
                continue
            kind, name, params, body = r
            if kind == 'HLambda':
                body = [ast.copy_location(ast.Expr(value=body[0]), body[0])]
            env = dict(zip(params, call.args))
            stored = [n.id for st in body for n in ast.walk(st) if isinstance(n, ast.Name) and isinstance(n.ctx, ast.Store)]
            if any(x in env for x in stored):
                entries.append('mkOpt %s (AUntranslated "setter re-assigns a parameter")' % q(k.value))
                continue
            body = [_Subst(env).visit(copy.deepcopy(st)) for st in strip_doc(body)]
            for st in body:
                ast.fix_missing_locations(st)
            entries.append('mkOpt %s (%s)' % (q(k.value), tr_branch(body, 'setter of %s' % k.value)))

    # defaults: constant assignments in main before the loop; `X = <Class>()` takes them from
    # `self.<attr> = <const>` in the module-level class's __init__(self)
    def tr_default(v, label):
        if isinstance(v, ast.Constant) and isinstance(v.value, bool):
            return 'DBool %s' % ('true' if v.value else 'false')
        if isinstance(v, ast.Constant) and isinstance(v.value, int):
            return 'DInt (%d)%%Z' % v.value
        if isinstance(v, ast.Constant) and isinstance(v.value, str):
            return 'DStr %s' % q(v.value)
        if isinstance(v, ast.Constant) and v.value is None:
            return 'DNone'
        if isinstance(v, ast.Call) and isinstance(v.func, ast.Name) and v.func.id in ('list', 'dict') and not v.args:
            return 'DEmpty'
        if isinstance(v, (ast.List, ast.Dict)) and not (getattr(v, 'elts', None) or getattr(v, 'keys', None)):
            return 'DEmpty'
        return 'DUntranslated %s' % q('default of %s' % label)
    classes = funcs.get('__classes__', {})
    for st in main.body:
        if st is loop:
            break
        if isinstance(st, ast.Assign) and len(st.targets) == 1 and isinstance(st.targets[0], ast.Name):
            var = st.targets[0].id
            v = st.value
            if isinstance(v, ast.Call) and isinstance(v.func, ast.Name) and v.func.id in classes and not v.args and not v.keywords:
                init = [f for f in classes[v.func.id].body if isinstance(f, ast.FunctionDef) and f.name == '__init__']
                if len(init) == 1 and len(init[0].args.args) == 1:
                    me = init[0].args.args[0].arg
                    for ist in strip_doc(init[0].body):
                        if isinstance(ist, ast.Assign) and len(ist.targets) == 1 and isinstance(ist.targets[0], ast.Attribute) \
                                and isinstance(ist.targets[0].value, ast.Name) and ist.targets[0].value.id == me:
                            key = var + '.' + ist.targets[0].attr
                            defaults.append('(%s, %s)' % (q(role_of(key, roles, globals_declared)), tr_default(ist.value, key)))
                        else:
                            defaults.append('("", DUntranslated %s)' % q('statement in %s.__init__' % v.func.id))
                    continue
            if isinstance(v, ast.Dict) and v.keys and all(isinstance(k, ast.Constant) and isinstance(k.value, str) for k in v.keys):
                for k, dv in zip(v.keys, v.values):
                    key = var + '.' + k.value
                    defaults.append('(%s, %s)' % (q(role_of(key, roles, globals_declared)), tr_default(dv, key)))
                continue
            defaults.append('(%s, %s)' % (q(role_of(var, roles, globals_declared)), tr_default(v, var)))
    return short, longs, entries, defaults


def tr_exits(main, funcs=None):
    """the try around cmd(ipmi, args): (exception, printed text, uses e.cc, exit status)"""
    target = None
    for n in ast.walk(main):
        if isinstance(n, ast.Try):
            for s in n.body:
                if isinstance(s, ast.Expr) and isinstance(s.value, ast.Call) and isinstance(s.value.func, ast.Name) \
                        and s.value.func.id == 'cmd':
                    target = n
    if target is None:
        return ['mkExit "" None false None (Some "no try around cmd(ipmi, args)")']
    funcs = funcs or {}

    def value_for_class(f, call, cls, others):
        """the value `f(<exception>)` returns when the exception is an instance of `cls` (and of none of `others`):
        f's body may be `if isinstance(<param>, <Class>): return <expr>` statements followed by `return <expr>`"""
        env = bind_call(f, call)
        if env is None:
            raise Untranslated('call of %s outside the fragment' % f.name)
        for st in strip_doc(f.body):
            if isinstance(st, ast.If) and not st.orelse and len(st.body) == 1 and isinstance(st.body[0], ast.Return) \
                    and isinstance(st.test, ast.Call) and isinstance(st.test.func, ast.Name) and st.test.func.id == 'isinstance' \
                    and len(st.test.args) == 2 and isinstance(st.test.args[0], ast.Name) and st.test.args[0].id in env \
                    and dotted(st.test.args[1]) is not None:
                tested = dotted(st.test.args[1]).split('.')[-1]
                if tested == cls:
                    v = st.body[0].value
                    return _Subst(env).visit(copy.deepcopy(v)) if v is not None else ast.Constant(value=None)
                if tested in others:
                    continue                      # another class of the same except clause
                raise Untranslated('isinstance test against %s in %s' % (tested, f.name))
            if isinstance(st, ast.Return):
                v = st.value
                return _Subst(env).visit(copy.deepcopy(v)) if v is not None else ast.Constant(value=None)
            raise Untranslated('statement in %s outside the fragment' % f.name)
        return ast.Constant(value=None)

    out = []
    for h in target.handlers:
        if isinstance(h.type, ast.Tuple) and all(dotted(e) is not None for e in h.type.elts):
            names = [dotted(e).split('.')[-1] for e in h.type.elts]
        elif h.type is not None and dotted(h.type) is not None:
            names = [dotted(h.type).split('.')[-1]]
        else:
            out.append('mkExit "" None false None (Some "handler type outside the fragment")')
            continue
        for name in names:
            text, uses_cc, code, bad = None, False, None, None
            # a local bound once to the value of a helper applied to the exception is replaced by that value,
            # specialised to this exception class
            env, body = {}, []
            try:
                for st in h.body:
                    if isinstance(st, ast.Assign) and len(st.targets) == 1 and isinstance(st.targets[0], ast.Name) \
                            and isinstance(st.value, ast.Call) and isinstance(st.value.func, ast.Name) \
                            and st.value.func.id in funcs and isinstance(funcs[st.value.func.id], ast.FunctionDef):
                        env[st.targets[0].id] = value_for_class(funcs[st.value.func.id], st.value, name,
                                                                [n for n in names if n != name])
                    else:
                        x = _Subst(env).visit(copy.deepcopy(st))
                        ast.fix_missing_locations(x)
                        body.append(x)
            except Untranslated as e:
                out.append('mkExit %s None false None (Some %s)' % (q(name), q(str(e))))
                continue
            for s in inline_stmts(body, funcs):
                if isinstance(s, ast.Expr) and isinstance(s.value, ast.Call):
                    c = s.value
                    if isinstance(c.func, ast.Name) and c.func.id == 'print' and len(c.args) == 1 and not c.keywords:
                        a = c.args[0]
                        if isinstance(a, ast.Constant) and isinstance(a.value, str):
                            text = a.value
                        elif isinstance(a, ast.BinOp) and isinstance(a.op, ast.Mod) and isinstance(a.left, ast.Constant) \
                                and isinstance(a.left.value, str) and isinstance(a.right, ast.Attribute) \
                                and a.right.attr == 'cc' and isinstance(a.right.value, ast.Name) and a.right.value.id == h.name:
                            text, uses_cc = a.left.value, True
                        else:
                            bad = 'print argument outside the fragment'
                    elif dotted(c.func) == 'sys.exit':
                        code = exit_code_of(c)
                        if code is None:
                            bad = 'sys.exit argument outside the fragment'
                    else:
                        bad = 'statement outside the fragment (line %d)' % s.lineno
                elif isinstance(s, ast.If) and vkey(s.test) is not None and len(s.body) == 1 and not s.orelse \
                        and isinstance(s.body[0], ast.Expr) and isinstance(s.body[0].value, ast.Call) \
                        and dotted(s.body[0].value.func) == 'traceback.print_exc':
                    pass                                   # if verbose: traceback.print_exc()
                else:
                    bad = 'statement outside the fragment (line %d)' % getattr(s, 'lineno', 0)
            out.append('mkExit %s %s %s %s %s' % (q(name), 'None' if text is None else '(Some %s)' % q(text),
                                                  'true' if uses_cc else 'false',
                                                  'None' if code is None else '(Some (%d)%%Z)' % code,
                                                  'None' if bad is None else '(Some %s)' % q(bad)))
    return out


def tr_shape(main):
    """where main opens and closes the connection relative to the try around cmd(ipmi, args):
    RunShape <ipmi.open() is inside the try body, before cmd> <ipmi.close() is in the finally>"""
    target = None
    for n in ast.walk(main):
        if isinstance(n, ast.Try):
            for st in n.body:
                if isinstance(st, ast.Expr) and isinstance(st.value, ast.Call) and isinstance(st.value.func, ast.Name) \
                        and st.value.func.id == 'cmd':
                    target = n
    if target is None:
        return 'RunUntranslated "no try around cmd(ipmi, args)"'
    if target not in main.body:
        return 'RunUntranslated "the try around cmd is nested"'

    def is_call(st, suffix, conn):
        return (isinstance(st, ast.Expr) and isinstance(st.value, ast.Call) and not st.value.args and not st.value.keywords
                and dotted(st.value.func) == conn + '.' + suffix)
    cmd_stmt = [st for st in target.body if isinstance(st, ast.Expr) and isinstance(st.value, ast.Call)
                and isinstance(st.value.func, ast.Name) and st.value.func.id == 'cmd'][0]
    if not (len(cmd_stmt.value.args) == 2 and isinstance(cmd_stmt.value.args[0], ast.Name)):
        return 'RunUntranslated "cmd is not called as cmd(<connection>, args)"'
    conn = cmd_stmt.value.args[0].id
    idx = target.body.index(cmd_stmt)
    before = target.body[:idx]
    after = target.body[idx + 1:]
    if after or target.orelse:
        return 'RunUntranslated "statements after cmd(...) inside the try"'
    opens_in = [st for st in before if is_call(st, 'open', conn)]
    if len(opens_in) != len(before):
        return 'RunUntranslated "statement other than <connection>.open() before cmd inside the try"'
    pos = main.body.index(target)
    opens_out = [st for st in main.body[:pos] if is_call(st, 'open', conn)]
    for st in main.body[:pos]:
        for n in ast.walk(st):
            if isinstance(n, ast.Call) and dotted(n.func) == conn + '.open' and st not in opens_out:
                return 'RunUntranslated "connection opened inside a compound statement"'
    if len(opens_in) + len(opens_out) != 1:
        return 'RunUntranslated "connection is not opened exactly once before the command"'
    if opens_out and main.body[pos - 1] is not opens_out[0]:
        return 'RunUntranslated "statements between <connection>.open() and the try"'
    fin = target.finalbody
    if not (len(fin) == 1 and is_call(fin[0], 'close', conn)):
        return 'RunUntranslated "finally is not exactly <connection>.close()"'
    if main.body[pos + 1:]:
        return 'RunUntranslated "statements after the try"'
    return 'RunShape %s true' % ('true' if opens_in else 'false')


# ----------------------------------------------------------------------------- chassis power
def tr_power(cmd_names, repo, funcs=None):
    src = open(os.path.join(repo, 'pyipmi', 'chassis.py')).read()
    tree = ast.parse(src)
    msrc = ast.parse(open(os.path.join(repo, 'pyipmi', 'msgs', 'chassis.py')).read())
    consts = {}
    for st in msrc.body:
        if isinstance(st, ast.Assign) and len(st.targets) == 1 and isinstance(st.targets[0], ast.Name) \
                and isinstance(st.value, ast.Constant) and isinstance(st.value.value, int):
            consts[st.targets[0].id] = st.value.value
    imported = set()
    for st in tree.body:
        if isinstance(st, ast.ImportFrom) and st.module == 'msgs.chassis' and st.level == 1:
            imported.update(a.asname or a.name for a in st.names if a.asname in (None, a.name))
    methods = {}
    for st in tree.body:
        if isinstance(st, ast.ClassDef) and st.name == 'Chassis':
            for f in st.body:
                if isinstance(f, ast.FunctionDef):
                    methods[f.name] = f

    def strip_doc(body):
        return [s for s in body if not (isinstance(s, ast.Expr) and isinstance(s.value, ast.Constant))]

    out = []
    for name, handler in cmd_names:
        if not name.startswith('chassis power '):
            continue
        sub = name[len('chassis power '):]
        try:
            cs = tr_callspec(handler, funcs or {})
            mm = re.match(r'CSingle "(\w+)" \[\]$', cs)
            if not mm:
                raise Untranslated('handler is not one call `<ipmi>.<method>()` without arguments')
            m = mm.group(1)
            if m not in methods:
                raise Untranslated('method %s is not defined in class Chassis' % m)
            body = strip_doc(methods[m].body)
            if not (len(body) == 1 and isinstance(body[0], ast.Expr) and isinstance(body[0].value, ast.Call)
                    and dotted(body[0].value.func) == 'self.chassis_control' and len(body[0].value.args) == 1
                    and not body[0].value.keywords and len(methods[m].args.args) == 1):
                raise Untranslated('%s is not `self.chassis_control(<CONST>)`' % m)
            a = body[0].value.args[0]
            if isinstance(a, ast.Constant) and isinstance(a.value, int) and not isinstance(a.value, bool):
                code = a.value
            elif isinstance(a, ast.Name) and a.id in imported and a.id in consts:
                code = consts[a.id]
            else:
                raise Untranslated('argument of chassis_control in %s is not a CONTROL_* constant' % m)
            if code < 0:
                raise Untranslated('negative control code')
            out.append('(%s, PCode %s %d)' % (q(sub), q(m), code))
        except Untranslated as e:
            out.append('(%s, PUntranslated %s)' % (q(sub), q(str(e))))
    # chassis_control itself
    cc = 'CCUntranslated "chassis_control not found"'
    f = methods.get('chassis_control')
    if f is not None:
        body = strip_doc(f.body)
        ok = (len(f.args.args) == 2 and len(body) >= 3
              and isinstance(body[0], ast.Assign) and isinstance(body[0].value, ast.Call)
              and dotted(body[0].value.func) == 'create_request_by_name' and len(body[0].value.args) == 1
              and isinstance(body[0].value.args[0], ast.Constant) and isinstance(body[0].targets[0], ast.Name))
        if ok:
            reqvar, reqname, optparam = body[0].targets[0].id, body[0].value.args[0].value, f.args.args[1].arg
            st = body[1]
            ok = (isinstance(st, ast.Assign) and len(st.targets) == 1 and dotted(st.targets[0]) is not None
                  and dotted(st.targets[0]).split('.')[0] == reqvar and len(dotted(st.targets[0]).split('.')) == 3
                  and isinstance(st.value, ast.Name) and st.value.id == optparam)
            st2 = body[2]
            ok = ok and isinstance(st2, ast.Assign) and isinstance(st2.value, ast.Call) \
                and dotted(st2.value.func) == 'self.send_message' and len(st2.value.args) == 1 \
                and isinstance(st2.value.args[0], ast.Name) and st2.value.args[0].id == reqvar
            # nothing after that may send again
            for rest in body[3:]:
                for n in ast.walk(rest):
                    if isinstance(n, ast.Call) and dotted(n.func) and dotted(n.func).startswith('self.send'):
                        ok = False
            if ok:
                _, field, bit = dotted(body[1].targets[0]).split('.')
                try:
                    from pyipmi.msgs.registry import DEFAULT_REGISTRY as R
                    from pyipmi.msgs import message as M
                    cls = R.registry[reqname + 'Req']
                    fields = cls.__fields__
                    if len(fields) != 1 or not isinstance(fields[0], M.Bitfield) or fields[0].name != field or fields[0].length != 1:
                        raise Untranslated('%sReq is not a single one-byte bitfield %s' % (reqname, field))
                    off = 0
                    pos = None
                    import fieldprobe
                    for b in fieldprobe.bits_of(fields[0], M):
                        if b.name == bit:
                            pos = (off, b.width)
                        off += b.width
                    if pos is None:
                        raise Untranslated('no bit %s in %s' % (bit, field))
                    cc = 'CCReq %d %d %d %d %d' % (cls.__netfn__, cls.__cmdid__, cls.__default_lun__, pos[0], pos[1])
                except Untranslated as e:
                    cc = 'CCUntranslated %s' % q(str(e))
                except Exception as e:  # noqa
                    cc = 'CCUntranslated %s' % q('registry lookup failed: %s' % type(e).__name__)
            else:
                cc = 'CCUntranslated "chassis_control body outside the fragment"'
        else:
            cc = 'CCUntranslated "chassis_control body outside the fragment"'
    return out, cc


def generate(repo):
    sys.path.insert(0, repo)
    sys.modules.setdefault('pyaardvark', type(sys)('pyaardvark'))
    import pyipmi  # noqa
    assert os.path.realpath(pyipmi.__file__).startswith(os.path.realpath(repo)), pyipmi.__file__
    path = os.path.join(repo, 'pyipmi', 'ipmitool.py')
    tree = _Getattr().visit(ast.parse(open(path).read()))
    tree = _InlineExpr(expr_helpers(tree)).visit(tree)
    ast.fix_missing_locations(tree)
    funcs = {st.name: st for st in tree.body if isinstance(st, ast.FunctionDef)}
    funcs['__assigns__'] = module_assigns(tree)
    funcs['__classes__'] = {st.name: st for st in tree.body if isinstance(st, ast.ClassDef)}
    cmds, names = tr_commands(tree, funcs)
    api = tr_api(pyipmi.Ipmi)
    main = find_main(tree)
    if main is None:
        short, longs, opts, defaults = 'None', '[]', ['mkOpt "" (AUntranslated "no main()")'], []
        exits = ['mkExit "" None false None (Some "no main()")']
        shape = 'RunUntranslated "no main()"'
    else:
        short, longs, opts, defaults = tr_options(main, funcs)
        exits = tr_exits(main, funcs)
        shape = tr_shape(main)
    power, cc = tr_power(names, repo, funcs)
    specs = ['(%s, %s)' % (q(n), tr_callspec(h, funcs)) for n, h in names]
    import pyipmi.interfaces as I
    ifaces = [q(c.NAME) for c in I.INTERFACES]
    out = ['(* GENERATED by gen/gen_cli.py from %s - do not edit *)' % repo,
           'From Coq Require Import String.', 'From Coq Require Import NArith ZArith List.',
           'From PyIpmi Require Import Model.Cli.', 'Import ListNotations.',
           'Open Scope string_scope.', 'Open Scope N_scope.', '',
           '(* COMMANDS of pyipmi/ipmitool.py, in order *)',
           'Definition commands : list command := [\n  %s].' % ';\n  '.join(cmds), '',
           '(* per command: the ONE operation its handler calls and where the arguments come from, if it has that shape *)',
           'Definition call_specs : list (string * callspec) := [\n  %s].' % ';\n  '.join(specs), '',
           '(* public callables of pyipmi.Ipmi: name, min / max positional arguments, keyword names, **kwargs *)',
           'Definition api_methods : list api_method := [\n  %s].' % ';\n  '.join(api), '',
           '(* getopt.getopt(sys.argv[1:], <short>, <long>) in main *)',
           'Definition getopt_shortopts : option string := %s.' % short,
           'Definition getopt_longopts : list string := %s.' % longs, '',
           '(* the if/elif chain over the options; variables named by their sink *)',
           'Definition option_table : list optbinding := [\n  %s].' % ';\n  '.join(opts), '',
           'Definition option_defaults : list (string * optdefault) := [\n  %s].' % ';\n  '.join(defaults), '',
           '(* except-clauses around cmd(ipmi, args) *)',
           'Definition exit_table : list exit_entry := [\n  %s].' % ';\n  '.join(exits),
           '(* ipmi.open() inside that try / ipmi.close() in its finally *)',
           'Definition run_shape : run_shape_t := %s.' % shape, '',
           "(* 'chassis power <x>' -> Chassis.<method> -> chassis_control(<code>) *)",
           'Definition power_table : list (string * power_entry) := [\n  %s].' % ';\n  '.join(power),
           'Definition chassis_control_req : chassis_control_shape := %s.' % cc, '',
           '(* NAME of every class in pyipmi.interfaces.INTERFACES *)',
           'Definition interface_names : list string := %s.' % coq_list(ifaces), '']
    return '\n'.join(out)


def main():
    ap = argparse.ArgumentParser()
    ap.add_argument('--repo', default=os.environ.get('VERIF_REPO', '/repo'))
    ap.add_argument('--out', required=True)
    a = ap.parse_args()
    txt = generate(a.repo)
    p = os.path.join(a.out, 'CliTable.v')
    old = open(p).read() if os.path.exists(p) else None
    if old != txt:
        open(p, 'w').write(txt)
        print('CliTable.v rewritten (%d bytes)' % len(txt))
    else:
        print('CliTable.v unchanged')


if __name__ == '__main__':
    main()
