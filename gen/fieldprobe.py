"""Reading the structure of pyipmi.msgs.message field objects WITHOUT relying on the names of
private attributes (`_field`, `_condition_fn`, `_bits`, `_width`, `_length_func` today): wrappers are
opened by looking at what their instance dictionary holds, bit layouts are measured by encoding.

Used by gen/gen_layouts.py (translator) and by the harness (codec_util, c01, c07), so that renaming a
private attribute of the library is not mistaken for a change of behaviour.  What is read here is
cross-checked per run by the C01/C02 correspondence (model evaluated against the implementation).
"""
import types


class ProbeError(Exception):
    pass


def _is_field(v):
    return (not isinstance(v, type) and hasattr(v, 'encode') and hasattr(v, 'decode') and hasattr(v, 'create')
            and callable(getattr(v, 'encode')))


def is_wrapper(f, M):
    return isinstance(f, (M.Optional, M.Conditional))


def wrapped(f, M):
    """the field an Optional / Conditional decorates (f itself when it is not a wrapper)"""
    if not is_wrapper(f, M):
        return f
    found = [v for v in vars(f).values() if _is_field(v)]
    if len(found) != 1:
        raise ProbeError('%s holds %d field objects' % (type(f).__name__, len(found)))
    return found[0]


def condition_fn(f, M):
    """the predicate of a Conditional"""
    found = [v for v in vars(f).values() if callable(v) and not _is_field(v)]
    if len(found) != 1:
        raise ProbeError('%s holds %d callables' % (type(f).__name__, len(found)))
    return found[0]


def length_fn(f, M):
    """the length function of a VariableByteArray"""
    found = [v for v in vars(f).values() if callable(v) and not _is_field(v)]
    if len(found) != 1:
        raise ProbeError('%s holds %d callables' % (type(f).__name__, len(found)))
    return found[0]


class BitInfo(object):
    def __init__(self, name, width, offset, default):
        self.name, self.width, self.offset, self.default = name, width, offset, default

    def __repr__(self):
        return 'BitInfo(%r, %d, %d, %r)' % (self.name, self.width, self.offset, self.default)


_CACHE = {}


def wrapper_bit_names(w):
    """names of the bit attributes of a BitWrapper instance (public instance attributes, as set on creation)"""
    return [k for k, v in vars(w).items() if not k.startswith('_') and not callable(v)]


def bits_of(f, M):
    """[BitInfo] of a Bitfield in offset order (LSB first), measured: each sub-field alone is set to all ones
    and the field is encoded; its mask must be one contiguous run, the runs must tile 8*length bits."""
    key = id(f)
    if key in _CACHE and _CACHE[key][0] is f:
        return _CACHE[key][1]
    from pyipmi.utils import ByteBuffer
    w = f.create()
    names = wrapper_bit_names(w)
    defaults = {n: getattr(w, n) for n in names}
    nbits = 8 * f.length
    out = []
    for n in names:
        obj = types.SimpleNamespace()
        w = f.create()
        for m in names:
            setattr(w, m, 0)
        setattr(w, n, (1 << (nbits + 8)) - 1)
        setattr(obj, f.name, w)
        buf = ByteBuffer()
        f.encode(obj, buf)
        value = int.from_bytes(bytes(bytearray(buf.array.tolist())), 'little')
        if value == 0:
            width, off = 0, None
        else:
            off = (value & -value).bit_length() - 1
            width = bin(value).count('1')
            if value != ((1 << width) - 1) << off:
                raise ProbeError('sub-field %s of %s is not one contiguous run of bits' % (n, f.name))
        out.append(BitInfo(n, width, off, defaults[n]))
    placed = sorted((b for b in out if b.offset is not None), key=lambda b: b.offset)
    pos = 0
    res = []
    zero = [b for b in out if b.offset is None]
    for b in placed:
        if b.offset != pos:
            raise ProbeError('sub-fields of %s leave a gap or overlap at bit %d' % (f.name, pos))
        res.append(b)
        pos += b.width
    if pos != nbits:
        raise ProbeError('sub-fields of %s cover %d of %d bits' % (f.name, pos, nbits))
    if zero:
        raise ProbeError('sub-field %s of %s has no bits' % (zero[0].name, f.name))
    _CACHE[key] = (f, res)
    return res
