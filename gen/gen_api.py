#!/usr/bin/env python3
"""Translator (G): the high-level API methods of pyipmi.Ipmi (all mix-ins) -> coq/Gen/ApiOps.v.

Part 1 (C08) - the EXCHANGE SHAPE of every method, by `ast` only (nothing is imported
from /repo): the ordered list of steps it performs,

  Exch "<Msg>" chk ctx      req = create_request_by_name('<Msg>'); ... rsp = self.send_message(req)
                            chk = how the completion code is checked by the NEXT statement:
                            ChkCC   check_completion_code(rsp.completion_code)
                            ChkRsp  check_rsp_completion_code(rsp)
                            ChkNone not checked right after
  ExchParam chk ctx         the same, the request name being a parameter (Ipmi.send_message_with_name)
  CallName "<Msg>" ctx      self.send_message_with_name('<Msg>', ...)
  Call "<method>" ctx       self.<method>(...) - resolved against the methods that exist on Ipmi
  Xfer ctx                  self.interface.send_and_receive(req) / send_and_receive_raw(...)
  Other "<what>"            understood but outside the straight-line class (method reference passed to a
                            helper, generator, exchange inside a comprehension ...)
  Untranslated "<reason>"   fail closed: unresolved self.<name>, unknown request variable, nested def ...

ctx = mkCtx in_try in_loop in_branch: the step sits inside a try with handlers / a loop (a `for` over a
literal tuple of constants without break/continue is unrolled instead) / a conditional path
(if-branch, handler body, or after a conditional return).

The two check functions of pyipmi/utils.py are themselves verified by shape (compare with CC_OK and
raise CompletionCodeError of the same code); if they do not have that form every check is ChkNone.

Part 2 (C07) - the CONTENT of the methods in the straight-line fragment (gen/apifrag.py): emitted by
apifrag.emit_content when that module is present.
"""
import argparse
import ast
import os
import sys

sys.path.insert(0, os.path.dirname(os.path.abspath(__file__)))


def q(s):
    return '"%s"' % str(s).replace('"', '""')


class Repo:
    """ast of pyipmi/__init__.py and of the mix-in modules named by class Ipmi's bases"""

    def __init__(self, repo):
        self.repo = repo
        self.pkg = os.path.join(repo, 'pyipmi')
        self.init = self.parse('__init__.py')
        self.ipmi = [n for n in self.init.body if isinstance(n, ast.ClassDef) and n.name == 'Ipmi'][0]
        self.classes = []          # (module name, ClassDef, module ast)
        for b in self.ipmi.bases:
            if not (isinstance(b, ast.Attribute) and isinstance(b.value, ast.Name)):
                raise SystemExit('Ipmi base outside fragment: %s' % ast.dump(b))
            mod = self.parse(b.value.id + '.py')
            cd = [n for n in mod.body if isinstance(n, ast.ClassDef) and n.name == b.attr]
            if len(cd) != 1:
                raise SystemExit('mix-in class %s.%s not found' % (b.value.id, b.attr))
            self.classes.append((b.value.id, cd[0], mod))
        self.classes.append(('__init__', self.ipmi, self.init))
        # attribute universe of an Ipmi instance
        self.methods = {}          # name -> (class name, FunctionDef, module name, module ast)  (MRO: first wins)
        self.attrs = set()
        order = [c for c in self.classes if c[1] is self.ipmi] + [c for c in self.classes if c[1] is not self.ipmi]
        for modname, cd, mod in order:
            for n in cd.body:
                if isinstance(n, (ast.FunctionDef, ast.AsyncFunctionDef)):
                    self.methods.setdefault(n.name, (cd.name, n, modname, mod))
                    for s in ast.walk(n):
                        if isinstance(s, (ast.Assign, ast.AugAssign, ast.AnnAssign)):
                            tg = s.targets if isinstance(s, ast.Assign) else [s.target]
                            for t in tg:
                                for tt in ast.walk(t):
                                    if (isinstance(tt, ast.Attribute) and isinstance(tt.value, ast.Name)
                                            and tt.value.id == 'self' and isinstance(tt.ctx, ast.Store)):
                                        self.attrs.add(tt.attr)
                elif isinstance(n, ast.Assign):
                    for t in n.targets:
                        if isinstance(t, ast.Name):
                            self.attrs.add(t.id)

    def parse(self, fn):
        p = os.path.join(self.pkg, fn)
        cache = self.__dict__.setdefault('_parsed', {})
        if p not in cache:
            cache[p] = ast.parse(open(p).read(), filename=p)
        return cache[p]

    # ---- module-level helper functions (called with the connection object / a request) ----
    @staticmethod
    def top_bindings(mod, name):
        """the top-level statements of the module that bind `name`"""
        out = []
        for n in mod.body:
            if isinstance(n, (ast.FunctionDef, ast.AsyncFunctionDef, ast.ClassDef)) and n.name == name:
                out.append(n)
            elif isinstance(n, (ast.Import, ast.ImportFrom)):
                if any((a.asname or a.name.split('.')[0]) == name for a in n.names):
                    out.append(n)
            elif isinstance(n, (ast.Assign, ast.AugAssign, ast.AnnAssign)):
                tg = n.targets if isinstance(n, ast.Assign) else [n.target]
                if any(isinstance(x, ast.Name) and x.id == name for t in tg for x in ast.walk(t)):
                    out.append(n)
            elif not isinstance(n, ast.Expr):
                # a binding hidden in a compound statement (if / try / for / with at module level)
                if any(isinstance(x, ast.Name) and x.id == name and isinstance(x.ctx, ast.Store) for x in ast.walk(n)) or \
                        any(isinstance(x, (ast.FunctionDef, ast.ClassDef)) and x.name == name for x in ast.walk(n)):
                    out.append(n)
        return out

    def module_function(self, mod, name, depth=0):
        """(FunctionDef, module ast) of the plain function that `name` denotes at the top level of `mod`: defined there
        exactly once, or imported from a sibling module by `from .x import name`; None when it is anything else"""
        b = self.top_bindings(mod, name)
        if len(b) != 1:
            return None
        b = b[0]
        if isinstance(b, ast.FunctionDef):
            return (b, mod) if not b.decorator_list else None
        if isinstance(b, ast.ImportFrom) and b.level == 1 and b.module and depth < 3:
            al = [a for a in b.names if (a.asname or a.name) == name]
            fn = b.module.replace('.', '/') + '.py'
            if len(al) == 1 and os.path.exists(os.path.join(self.pkg, fn)):
                return self.module_function(self.parse(fn), al[0].name, depth + 1)
        return None

    def class_function(self, mod, cname, meth):
        """(FunctionDef, module ast, kind) of `Cls.meth` for a class defined once at the top level of `mod` (or imported
        from a sibling module): kind = 'static' | 'class'; None for anything else"""
        b = self.top_bindings(mod, cname)
        if len(b) != 1:
            return None
        b = b[0]
        if isinstance(b, ast.ImportFrom) and b.level == 1 and b.module:
            al = [a for a in b.names if (a.asname or a.name) == cname]
            fn = b.module.replace('.', '/') + '.py'
            if len(al) == 1 and os.path.exists(os.path.join(self.pkg, fn)):
                return self.class_function(self.parse(fn), al[0].name, meth)
            return None
        if not isinstance(b, ast.ClassDef):
            return None
        hits = [n for n in b.body if isinstance(n, (ast.FunctionDef, ast.AsyncFunctionDef)) and n.name == meth]
        others = [n for n in ast.walk(b) if isinstance(n, ast.Name) and n.id == meth and isinstance(n.ctx, ast.Store)]
        if len(hits) != 1 or others or not isinstance(hits[0], ast.FunctionDef):
            return None
        decs = [ast.unparse(d) for d in hits[0].decorator_list]
        if decs == ['staticmethod']:
            return hits[0], mod, 'static'
        if decs == ['classmethod']:
            return hits[0], mod, 'class'
        return None

    # ---- are the check functions what they are taken to be? ----
    def check_fn_ok(self, name):
        """utils.<name>: `if <x>[.completion_code] != constants.CC_OK: raise CompletionCodeError(<same>, ...)`"""
        mod = self.parse('utils.py')
        fn = [n for n in mod.body if isinstance(n, ast.FunctionDef) and n.name == name]
        if len(fn) != 1 or len(fn[0].args.args) != 1:
            return False
        arg = fn[0].args.args[0].arg
        body = [s for s in fn[0].body if not (isinstance(s, ast.Expr) and isinstance(s.value, ast.Constant))]
        if len(body) != 1 or not isinstance(body[0], ast.If) or body[0].orelse:
            return False
        t = body[0].test
        if not (isinstance(t, ast.Compare) and len(t.ops) == 1 and isinstance(t.ops[0], ast.NotEq)):
            return False
        want = arg if name == 'check_completion_code' else arg + '.completion_code'
        if ast.unparse(t.left) != want or ast.unparse(t.comparators[0]) != 'constants.CC_OK':
            return False
        if not self.const_is('msgs/constants.py', 'CC_OK', 0):
            return False
        ib = body[0].body
        if len(ib) != 1 or not isinstance(ib[0], ast.Raise) or not isinstance(ib[0].exc, ast.Call):
            return False
        c = ib[0].exc
        if ast.unparse(c.func) != 'CompletionCodeError' or not c.args or ast.unparse(c.args[0]) != want:
            return False
        # CompletionCodeError.__init__ stores the code
        err = self.parse('errors.py')
        cls = [n for n in err.body if isinstance(n, ast.ClassDef) and n.name == 'CompletionCodeError']
        if len(cls) != 1:
            return False
        ini = [n for n in cls[0].body if isinstance(n, ast.FunctionDef) and n.name == '__init__']
        if len(ini) != 1 or len(ini[0].args.args) < 2:
            return False
        a1 = ini[0].args.args[1].arg
        return any(isinstance(s, ast.Assign) and ast.unparse(s.targets[0]) == 'self.cc' and ast.unparse(s.value) == a1
                   for s in ini[0].body)

    def const_is(self, fn, name, val):
        mod = self.parse(fn)
        hits = [n for n in mod.body if isinstance(n, ast.Assign) and any(isinstance(t, ast.Name) and t.id == name
                                                                         for t in n.targets)]
        return (len(hits) == 1 and isinstance(hits[0].value, ast.Constant) and hits[0].value.value == val
                and type(hits[0].value.value) is int)

    def imports_from_utils(self, mod, name):
        """`name` is bound in the module by `from .utils import name` and nowhere else at top level"""
        ok = False
        for n in mod.body:
            if isinstance(n, ast.ImportFrom) and n.module == 'utils' and n.level == 1:
                if any(a.name == name and a.asname is None for a in n.names):
                    ok = True
            elif isinstance(n, (ast.FunctionDef, ast.ClassDef)) and n.name == name:
                return False
            elif isinstance(n, ast.Assign) and any(isinstance(t, ast.Name) and t.id == name for t in n.targets):
                return False
        return ok


CATCHES_CC = {'CompletionCodeError', 'Exception', 'BaseException'}


class Shape:
    """walk one method body in execution order and emit steps.

    A call that hands the connection object (`self`) to a module-level function or to a static / class method of a
    class of the package is INLINED: the callee's body is walked in the caller's context with the parameter that
    received `self` in the role of `self`, request variables and constant message names flowing from the arguments.
    `self` (or `self.interface`) escaping in any other way - passed to something that cannot be resolved, stored,
    returned, aliased - is `Untranslated` (fail closed: the operation is downgraded in this run), never skipped."""

    MAX_DEPTH = 6

    def __init__(self, repo, clsname, fn, mod, chk_ok, selfname='self', parent=None):
        self.R, self.clsname, self.fn, self.mod, self.chk_ok = repo, clsname, fn, mod, chk_ok
        self.selfname = selfname
        self.steps = [] if parent is None else parent.steps
        self.stack = [fn] if parent is None else parent.stack + [fn]
        self.reqvar = {}        # local name -> message name | ('param',)
        self.strconst = {}      # parameter of an inlined helper -> the string constant it was called with
        self.params = [a.arg for a in fn.args.args + fn.args.kwonlyargs] if parent is None else []
        self.cond_exit = False if parent is None else parent.cond_exit
        # a conditional return/raise-free exit was seen: later steps are conditional
        self.is_gen = any(isinstance(n, (ast.Yield, ast.YieldFrom)) for n in ast.walk(fn))
        self.parent = {}
        self.tail = (None, None, None)   # inlined helper: (bind, nxt, module) of the call site, for `return <exchange>` in tail position
        self.chkmod = None         # module whose imports decide what the check function of a tail exchange is
        self.returns = []          # inlined helper: message names of the request variables it returns (None = other)

    def ctx(self, c):
        t, l, b = c
        return '(mkCtx %s %s %s)' % tuple('true' if x else 'false' for x in (t, l, b or self.cond_exit))

    def emit(self, s):
        self.steps.append(s)

    def msg_name(self, n):
        """the message name denoted by an expression: a string literal, or a helper parameter bound to one"""
        if isinstance(n, ast.Constant) and isinstance(n.value, str):
            return n.value
        if isinstance(n, ast.Name) and n.id in self.strconst and not self.rebound(n.id):
            return self.strconst[n.id]
        return None

    def rebound(self, name):
        return any(isinstance(n, ast.Name) and n.id == name and isinstance(n.ctx, (ast.Store, ast.Del))
                   for n in ast.walk(self.fn))

    # -- expressions: exchanges in source order --
    def expr(self, e, c, bind=None, nxt=None):
        """e: expression evaluated in context c; bind = name the value is assigned to (for check detection),
        nxt = the statement that follows (to see whether it checks the completion code)"""
        if e is None:
            return
        for node in self.ordered(e):
            if isinstance(node, (ast.Lambda, ast.ListComp, ast.SetComp, ast.DictComp, ast.GeneratorExp)):
                inner = [n for n in ast.walk(node) if self.is_self_attr(n)]
                if any(a.attr in self.R.methods or a.attr == 'interface' for a in inner):
                    self.emit('Other %s' % q('self call inside a lambda/comprehension'))
                elif any(self.is_self_name(n) and not self.is_attr_base(n, node) for n in ast.walk(node)):
                    self.emit('Untranslated %s' % q('the connection object is used as a value inside a lambda/comprehension'))
                continue
            if isinstance(node, ast.Call):
                f = node.func
                top = node is e
                if self.is_self_attr(f):
                    name = f.attr
                    if name == 'send_message' and 'send_message' in self.R.methods:
                        self.exchange(node, c, bind if top else None, nxt if top else None)
                    elif name == 'send_message_with_name' and name in self.R.methods:
                        mn = self.msg_name(node.args[0]) if node.args else None
                        if mn is not None:
                            self.emit('CallName %s %s' % (q(mn), self.ctx(c)))
                        else:
                            self.emit('Untranslated %s' % q('send_message_with_name: message name is not a string literal'))
                    elif name in self.R.methods:
                        self.emit('Call %s %s' % (q(name), self.ctx(c)))
                    else:
                        self.emit('Untranslated %s' % q('no such attribute %s' % name))
                elif (isinstance(f, ast.Attribute) and self.is_self_attr(f.value) and f.value.attr == 'interface'
                      and f.attr in ('send_and_receive', 'send_and_receive_raw')):
                    self.emit('Xfer %s' % self.ctx(c))
                elif self.passes_self(node):
                    if not self.benign_builtin(node):
                        self.inline(node, c, bind if top else None, nxt if top else None)
            elif self.is_self_attr(node) and isinstance(node.ctx, ast.Load):
                par = self.parent.get(id(node))
                if isinstance(par, ast.Call) and par.func is node:
                    continue
                if node.attr == 'interface':
                    if isinstance(par, ast.Attribute):
                        continue
                    if node.attr in self.R.attrs or node.attr in self.R.methods:
                        # the transport object handed to something else: its exchanges cannot be seen from here
                        self.emit('Untranslated %s' % q('%s.interface is used as a value' % self.selfname))
                        continue
                if node.attr in self.R.methods:
                    m = self.R.methods[node.attr][1]
                    if any(ast.unparse(d) == 'property' for d in m.decorator_list):
                        continue
                    self.emit('Other %s' % q('method reference self.%s passed as a value' % node.attr))
                elif node.attr not in self.R.attrs:
                    self.emit('Untranslated %s' % q('no such attribute %s' % node.attr))
            elif self.is_self_name(node) and isinstance(node.ctx, ast.Load):
                par = self.parent.get(id(node))
                if isinstance(par, ast.Attribute) and par.value is node:
                    continue
                if isinstance(par, ast.Call) and par.func is not node and self.passes_self(par) \
                        and not self.is_self_attr(par.func):
                    continue        # handled at the call (inlined or refused there)
                self.emit('Untranslated %s' % q('the connection object is used as a value (%s)'
                                                % ast.unparse(par if par is not None else node)[:60]))

    def ordered(self, e):
        """nodes of e in evaluation (post-)order for calls: arguments before the call itself"""
        out = []

        def rec(n):
            if isinstance(n, (ast.Lambda, ast.ListComp, ast.SetComp, ast.DictComp, ast.GeneratorExp)):
                out.append(n)
                return
            for ch in ast.iter_child_nodes(n):
                self.parent[id(ch)] = n
                rec(ch)
            out.append(n)
        rec(e)
        return out

    def is_self_attr(self, n):
        return isinstance(n, ast.Attribute) and isinstance(n.value, ast.Name) and n.value.id == self.selfname

    def is_self_name(self, n):
        return isinstance(n, ast.Name) and n.id == self.selfname

    @staticmethod
    def is_attr_base(n, root):
        return any(isinstance(p, ast.Attribute) and p.value is n for p in ast.walk(root))

    def benign_builtin(self, call):
        """hasattr(self, '<name>') / isinstance(self, X) / type(self) / id(self), and getattr(self, '<name>'[, default])
        for a name that is a data attribute or a property (not a method, not the transport): no exchange can hide in
        them and the connection object does not escape.  A method fetched by getattr is a method reference (Other)."""
        f = call.func
        if not isinstance(f, ast.Name) or call.keywords or not call.args or not self.is_self_name(call.args[0]):
            return False
        if any(self.is_self_name(a) for a in call.args[1:]):
            return False
        if any(isinstance(n, ast.Name) and n.id == f.id and isinstance(n.ctx, (ast.Store, ast.Del)) for n in ast.walk(self.fn)) \
                or self.R.top_bindings(self.mod, f.id):
            return False            # not the builtin
        if f.id in ('isinstance', 'type', 'id') and len(call.args) <= 2:
            return True
        if f.id in ('hasattr', 'getattr') and len(call.args) in (2, 3) and isinstance(call.args[1], ast.Constant) \
                and isinstance(call.args[1].value, str):
            name = call.args[1].value
            if f.id == 'hasattr':
                return True
            if name == 'interface':
                return False
            if name in self.R.methods:
                m = self.R.methods[name][1]
                if any(ast.unparse(d) == 'property' for d in m.decorator_list):
                    return True
                self.emit('Other %s' % q('method reference self.%s passed as a value' % name))
                return True
            return True
        return False

    def passes_self(self, call):
        return any(self.is_self_name(a) for a in call.args) or any(self.is_self_name(k.value) for k in call.keywords)

    @staticmethod
    def created_name(n):
        """create_request_by_name('<Msg>') -> '<Msg>'"""
        if (isinstance(n, ast.Call) and isinstance(n.func, ast.Name) and n.func.id == 'create_request_by_name'
                and n.args and isinstance(n.args[0], ast.Constant) and isinstance(n.args[0].value, str)):
            return n.args[0].value
        return None

    def made_by(self, n):
        """message name of a request created in place: create_request_by_name(<literal or constant parameter>), or a
        module-level helper that returns a request it created"""
        if isinstance(n, ast.Call) and isinstance(n.func, ast.Name) and n.func.id == 'create_request_by_name' and n.args:
            return self.msg_name(n.args[0])
        if isinstance(n, ast.Call):
            return self.returned_request(n)
        return None

    # -- calls of module-level helpers --
    def resolve_callee(self, call):
        """-> (FunctionDef, module ast, number of leading parameters bound implicitly) or a refusal text"""
        f = call.func
        if isinstance(f, ast.Name):
            if any(isinstance(n, ast.Name) and n.id == f.id and isinstance(n.ctx, (ast.Store, ast.Del))
                   for n in ast.walk(self.fn)) or f.id in [a.arg for a in self.fn.args.args + self.fn.args.kwonlyargs]:
                return 'a local name'
            hit = self.R.module_function(self.mod, f.id)
            if hit is None:
                return 'not a plain function defined once in the package'
            return hit[0], hit[1], 0
        if isinstance(f, ast.Attribute) and isinstance(f.value, ast.Name) and f.value.id != self.selfname:
            hit = self.R.class_function(self.mod, f.value.id, f.attr)
            if hit is None:
                return 'not a static or class method of a class defined once in the package'
            return hit[0], hit[1], (1 if hit[2] == 'class' else 0)
        return 'not a plain function defined once in the package'

    def bind_call(self, h, skip, call):
        """parameter name -> argument node (defaults included); None when the call does not fit"""
        a = h.args
        if a.vararg or a.kwarg or a.kwonlyargs or getattr(a, 'posonlyargs', None):
            return None
        if any(isinstance(x, ast.Starred) for x in call.args) or any(k.arg is None for k in call.keywords):
            return None
        ps = [p.arg for p in a.args][skip:]
        if len(call.args) > len(ps):
            return None
        given = dict(zip(ps, call.args))
        for k in call.keywords:
            if k.arg not in ps or k.arg in given:
                return None
            given[k.arg] = k.value
        dflt = dict(zip(reversed(ps), reversed(a.defaults)))
        for p_ in ps:
            if p_ not in given:
                if p_ not in dflt:
                    return None
                given[p_] = dflt[p_]
        return given

    def sub_shape(self, h, hmod, given, selfparam, share):
        sub = Shape(self.R, self.clsname, h, hmod, self.chk_ok, selfname=selfparam or '<none>',
                    parent=self if share else None)
        if not share:
            sub.stack = self.stack + [h]
            sub.params = []
        for p_, arg in given.items():
            mn = self.msg_name(arg)
            if mn is not None:
                sub.strconst[p_] = mn
            made = self.made_by(arg)
            if made is not None:
                sub.reqvar[p_] = made
            elif isinstance(arg, ast.Name) and arg.id in self.reqvar and not sub.rebound(p_):
                sub.reqvar[p_] = self.reqvar[arg.id]
        return sub

    def inline(self, call, c, bind, nxt):
        hit = self.resolve_callee(call)
        what = ast.unparse(call.func)[:60]
        if isinstance(hit, str):
            self.emit('Untranslated %s' % q('the connection object is passed to %s: %s' % (what, hit)))
            return
        h, hmod, skip = hit
        given = self.bind_call(h, skip, call)
        selfps = [p_ for p_, a in (given or {}).items() if self.is_self_name(a)]
        why = None
        if given is None:
            why = 'arguments do not fit its parameters'
        elif len(selfps) != 1:
            why = 'more than one parameter receives it'
        elif any(isinstance(n, (ast.Yield, ast.YieldFrom)) for n in ast.walk(h)):
            why = 'a generator'
        elif h in self.stack or len(self.stack) > self.MAX_DEPTH:
            why = 'recursive or too deeply nested'
        elif any(isinstance(n, ast.Name) and n.id == selfps[0] and isinstance(n.ctx, (ast.Store, ast.Del)) for n in ast.walk(h)):
            why = 'the parameter that receives it is rebound'
        elif any(isinstance(n, (ast.Global, ast.Nonlocal)) for n in ast.walk(h)):
            why = 'global / nonlocal state'
        if why is not None:
            self.emit('Untranslated %s' % q('the connection object is passed to %s: %s' % (what, why)))
            return
        sub = self.sub_shape(h, hmod, given, selfps[0], share=True)
        sub.tail = (bind, nxt, self.chkmod if self.chkmod is not None else self.mod)
        sub.block(h.body, c)
        # (a conditional return inside the helper ends the helper, not the caller: cond_exit is not propagated)

    def returned_request(self, call):
        """message name of the request object that a call of a module-level helper (not given the connection object)
        returns: every `return` of the helper returns a request variable of one known message; else None"""
        if self.passes_self(call) or len(self.stack) > self.MAX_DEPTH:
            return None
        hit = self.resolve_callee(call) if isinstance(call.func, (ast.Name, ast.Attribute)) else None
        if hit is None or isinstance(hit, str):
            return None
        h, hmod, skip = hit
        if h in self.stack or any(isinstance(n, (ast.Yield, ast.YieldFrom, ast.Global, ast.Nonlocal)) for n in ast.walk(h)):
            return None
        given = self.bind_call(h, skip, call)
        if given is None:
            return None
        sub = self.sub_shape(h, hmod, given, None, share=False)
        sub.block(h.body, (False, False, False))
        if sub.steps or not sub.returns or None in sub.returns or len(set(sub.returns)) != 1:
            return None
        r = sub.returns[0]
        return r if isinstance(r, str) else None

    def exchange(self, call, c, bind, nxt):
        direct = self.made_by(call.args[0]) if call.args else None
        if direct is None and (len(call.args) < 1 or not isinstance(call.args[0], ast.Name)):
            self.emit('Untranslated %s' % q('send_message: request is not a local variable'))
            return
        rv = direct if direct is not None else self.reqvar.get(call.args[0].id)
        chk = 'ChkNone'
        if bind is not None and nxt is not None and isinstance(nxt, ast.Expr) and isinstance(nxt.value, ast.Call):
            k = nxt.value
            mod = self.chkmod if self.chkmod is not None else self.mod
            if isinstance(k.func, ast.Name) and len(k.args) == 1 and not k.keywords:
                if (k.func.id == 'check_completion_code' and ast.unparse(k.args[0]) == bind + '.completion_code'
                        and self.chk_ok.get('check_completion_code')
                        and self.R.imports_from_utils(mod, 'check_completion_code')):
                    chk = 'ChkCC'
                elif (k.func.id == 'check_rsp_completion_code' and ast.unparse(k.args[0]) == bind
                      and self.chk_ok.get('check_rsp_completion_code')
                      and self.R.imports_from_utils(mod, 'check_rsp_completion_code')):
                    chk = 'ChkRsp'
        if rv is None:
            self.emit('Untranslated %s' % q('send_message: request variable %s of unknown message' % call.args[0].id))
        elif rv == ('param',):
            self.emit('ExchParam %s %s' % (chk, self.ctx(c)))
        else:
            self.emit('Exch %s %s %s' % (q(rv), chk, self.ctx(c)))

    # -- statements --
    def block(self, stmts, c):
        for i, s in enumerate(stmts):
            nxt = stmts[i + 1] if i + 1 < len(stmts) else None
            self.stmt(s, c, nxt)

    def const_tuple(self, it):
        """for-iterable that is a literal tuple/list of constants/names (or a local bound once to one)"""
        if isinstance(it, ast.Name):
            binds = [n for n in ast.walk(self.fn) if isinstance(n, ast.Assign)
                     and any(isinstance(t, ast.Name) and t.id == it.id for t in n.targets)]
            stores = [n for n in ast.walk(self.fn) if isinstance(n, ast.Name) and n.id == it.id
                      and isinstance(n.ctx, ast.Store)]
            if len(binds) == 1 and len(stores) == 1:
                it = binds[0].value
            elif not stores:
                # a module-level constant tuple / list (bound exactly once at module level)
                mods = [n for n in self.mod.body if isinstance(n, ast.Assign)
                        and any(isinstance(t, ast.Name) and t.id == it.id for t in n.targets)]
                if len(mods) == 1:
                    it = mods[0].value
        if isinstance(it, (ast.Tuple, ast.List)) and all(isinstance(x, (ast.Constant, ast.Name)) for x in it.elts):
            return len(it.elts)
        return None

    def stmt(self, s, c, nxt):
        t, l, b = c
        if isinstance(s, ast.Assign):
            # request variable bookkeeping
            if len(s.targets) == 1 and isinstance(s.targets[0], ast.Name):
                x = s.targets[0].id
                v = s.value
                if isinstance(v, ast.Call) and isinstance(v.func, ast.Name) and v.func.id == 'create_request_by_name':
                    mn = self.msg_name(v.args[0]) if v.args else None
                    if mn is not None:
                        self.reqvar[x] = mn
                    elif v.args and isinstance(v.args[0], ast.Name) and v.args[0].id in self.params:
                        self.reqvar[x] = ('param',)
                    else:
                        self.reqvar.pop(x, None)
                    return
                made = [self.created_name(a) for a in v.args] if isinstance(v, ast.Call) else []
                made = [m for m in made if m is not None]
                ret = self.returned_request(v) if isinstance(v, ast.Call) and not self.is_self_attr(v.func) else None
                if len(made) == 1 and not (isinstance(v.func, ast.Attribute) and self.is_self_attr(v.func)
                                           and v.func.attr == 'send_message'):
                    # req = led.to_request(create_request_by_name('X')): the request object passes through
                    self.reqvar[x] = made[0]
                elif ret is not None:
                    # req = _new_request('X', ...): a module-level helper that returns the request it created
                    self.reqvar[x] = ret
                elif x in self.reqvar:
                    # req = led.to_request(req): the same request object goes on; anything else forgets it
                    keeps = (isinstance(v, ast.Call) and any(isinstance(a, ast.Name) and a.id == x for a in v.args))
                    if not keeps:
                        self.reqvar.pop(x, None)
                self.expr(v, c, bind=x, nxt=nxt)
                return
            self.expr(s.value, c)
            for tg in s.targets:
                self.expr(tg, c)
        elif isinstance(s, (ast.AugAssign, ast.AnnAssign)):
            self.expr(s.value, c)
        elif isinstance(s, ast.Expr):
            self.expr(s.value, c)
        elif isinstance(s, ast.Return):
            v = s.value
            self.returns.append(self.reqvar.get(v.id) if isinstance(v, ast.Name) else
                                (self.made_by(v) if isinstance(v, ast.Call) and len(self.stack) > 1 else None))
            tb, tn, tm = self.tail
            if tb is not None and self.fn.body and s is self.fn.body[-1]:
                # inlined helper ending in `return <exchange>`: the caller's next statement may check the code
                self.chkmod = tm
                self.expr(v, c, bind=tb, nxt=tn)
                self.chkmod = None
            else:
                self.expr(v, c)
            if b or l or t:
                self.cond_exit = True
        elif isinstance(s, ast.Raise):
            self.expr(s.exc, c)
        elif isinstance(s, ast.If):
            self.expr(s.test, c)
            self.block(s.body, (t, l, True))
            self.block(s.orelse, (t, l, True))
        elif isinstance(s, (ast.For, ast.AsyncFor)):
            self.expr(s.iter, c)
            n = self.const_tuple(s.iter)
            jumps = any(isinstance(x, (ast.Break, ast.Continue)) for x in ast.walk(s))
            if n is not None and not jumps and not s.orelse:
                for _ in range(n):
                    self.block(s.body, c)
            else:
                self.block(s.body, (t, True, b))
                self.block(s.orelse, (t, l, True))
        elif isinstance(s, ast.While):
            self.expr(s.test, (t, True, b))
            self.block(s.body, (t, True, b))
            self.block(s.orelse, (t, l, True))
        elif isinstance(s, ast.Try):
            self.block(s.body, (True if s.handlers else t, l, b))
            for h in s.handlers:
                self.block(h.body, (t, l, True))
            self.block(s.orelse, (t, l, True))
            self.block(s.finalbody, (t, l, b))
        elif isinstance(s, ast.With):
            for it in s.items:
                self.expr(it.context_expr, c)
            self.block(s.body, c)
        elif isinstance(s, (ast.Pass, ast.Break, ast.Continue, ast.Import, ast.ImportFrom, ast.Global, ast.Nonlocal)):
            pass
        elif isinstance(s, (ast.Assert,)):
            self.expr(s.test, c)
        elif isinstance(s, ast.Delete):
            pass
        elif isinstance(s, (ast.FunctionDef, ast.AsyncFunctionDef, ast.ClassDef)):
            inner = [n for n in ast.walk(s) if self.is_self_attr(n) or self.is_self_name(n)]
            if inner:
                self.emit('Untranslated %s' % q('nested definition uses self'))
        else:
            self.emit('Untranslated %s' % q('statement %s' % type(s).__name__))

    PLAIN_DECORATORS = ('staticmethod', 'classmethod', 'property')

    def run(self):
        for d in self.fn.decorator_list:
            txt = ast.unparse(d)
            if txt not in self.PLAIN_DECORATORS and not txt.endswith(('.setter', '.getter', '.deleter')):
                # what runs is the decorator's result, not this body (it may retry, swallow a code, ...)
                self.emit('Untranslated %s' % q('decorated with %s' % txt[:60]))
        if self.is_gen:
            self.emit('Other "generator function"')
        body = self.fn.body
        self.block(body, (False, False, False))
        return self.steps


INFRA = {'__init__', '__enter__', '__exit__'}


def shapes(R):
    chk_ok = {n: R.check_fn_ok(n) for n in ('check_completion_code', 'check_rsp_completion_code')}
    ops = []
    seen = set()
    for modname, cd, mod in R.classes:
        for n in cd.body:
            if not isinstance(n, (ast.FunctionDef, ast.AsyncFunctionDef)):
                continue
            if n.name in INFRA or (n.name, cd.name) in seen:
                continue
            if R.methods[n.name][0] != cd.name:
                continue   # shadowed by an earlier class in the MRO
            seen.add((n.name, cd.name))
            is_static = any(ast.unparse(d) in ('staticmethod', 'classmethod') for d in n.decorator_list)
            steps = Shape(R, cd.name, n, mod, chk_ok).run()
            public = not n.name.startswith('_')
            ops.append({'cls': cd.name, 'name': n.name, 'public': public, 'static': is_static, 'steps': steps,
                        'line': n.lineno, 'module': modname})
    return ops, chk_ok


def emit_shapes(ops, chk_ok, repo):
    out = ['(* GENERATED by gen/gen_api.py from the tree under test - do not edit *)',
           'From Coq Require Import String.', 'From Coq Require Import NArith ZArith List.',
           'From PyIpmi Require Import Lib.Res Lib.Bytes Model.ApiShape.', 'Import ListNotations.',
           'Open Scope string_scope.', '']
    out.append('(* utils.check_completion_code / check_rsp_completion_code have the expected form: %s / %s *)'
               % (chk_ok['check_completion_code'], chk_ok['check_rsp_completion_code']))
    names = []
    for o in ops:
        ident = 'op_%s_%s' % (o['cls'], o['name'])
        names.append(ident)
        body = ';\n    '.join(o['steps'])
        out.append('Definition %s : op := mkOp %s %s %s [%s%s].' % (
            ident, q(o['cls']), q(o['name']), 'true' if o['public'] else 'false',
            '\n    ' if o['steps'] else '', body))
    out.append('')
    out.append('Definition api_ops : list op := [\n  %s].' % ';\n  '.join(names))
    return '\n'.join(out) + '\n'


def write_if_changed(p, txt):
    old = open(p).read() if os.path.exists(p) else None
    if old != txt:
        open(p, 'w').write(txt)
        print('%s rewritten (%d bytes)' % (os.path.basename(p), len(txt)))
    else:
        print('%s unchanged' % os.path.basename(p))


def main():
    ap = argparse.ArgumentParser()
    ap.add_argument('--repo', default=os.environ.get('VERIF_REPO', '/repo'))
    ap.add_argument('--out', required=True)
    ap.add_argument('--json', action='store_true', help='print the shape table as JSON (for the harness)')
    a = ap.parse_args()
    R = Repo(a.repo)
    ops, chk_ok = shapes(R)
    if a.json:
        import json
        print(json.dumps({'ops': ops, 'chk_ok': chk_ok}))
        return
    write_if_changed(os.path.join(a.out, 'ApiOps.v'), emit_shapes(ops, chk_ok, a.repo))
    try:
        import apifrag
    except ImportError:
        apifrag = None
    if apifrag is not None:
        write_if_changed(os.path.join(a.out, 'ApiContent.v'), apifrag.emit_content(R, a.repo))


if __name__ == '__main__':
    main()
