#!/usr/bin/env python3
"""Translator (G): the live message registry of /repo -> coq/Gen/Layouts.v.

Fail-closed: a field class, predicate or length function outside the fragment below
becomes `Untranslated "<reason>"` (which makes `wf_layout` false, so the C01/C02
obligations over the regenerated registry break); a `__fields__` that is not a tuple
of field objects becomes `Malformed` (instantiation raises TypeError in Python).

Fragment:  UnsignedInt | UnsignedIntMask | Timestamp | GroupExtensionIdentifier |
EventMessageRevision | CompletionCode | Bitfield(Bit | ReservedBit) | ByteArray |
VariableByteArray(lambda/def obj: obj.<field>) | String | RemainingBytes |
Optional(f) | Conditional(pred, f) with pred ::= obj.<bitfield>.<bit> == <int> | pred or pred | pred and pred,
optionally preceded by local alias assignments.  Semantic fallbacks (probing the function on objects
of the class): a predicate that provably-by-probing depends only on 1-bit members of earlier plain
bit-fields is tabulated into a DNF; a length function that returns the value of exactly one earlier
integer field.  Every generated layout is executed against its class in the same run.
"""
import argparse
import ast
import inspect
import os
import sys
import textwrap

sys.path.insert(0, os.path.dirname(os.path.abspath(__file__)))
import fieldprobe as P  # noqa: E402


def q(s):
    return '"%s"' % str(s).replace('"', '""')


def hexs(b):
    return '(hx "%s")' % bytes(bytearray(b)).hex()


class Untranslated(Exception):
    pass


def fn_return_expr(fn):
    try:
        src = textwrap.dedent(inspect.getsource(fn))
    except (OSError, TypeError) as e:
        raise Untranslated('no source for function: %s' % e)
    tree = ast.parse(src)
    node = tree.body[0]
    if isinstance(node, ast.FunctionDef):
        body = [s for s in node.body if not (isinstance(s, ast.Expr) and isinstance(s.value, ast.Constant))]
        if not body or not isinstance(body[-1], ast.Return) or len(node.args.args) != 1 or body[-1].value is None:
            raise Untranslated('function body is not [alias assignments;] return <expr>')
        # local aliases `name = <attribute chain on the argument>` are substituted into the return
        aliases = {}
        for st in body[:-1]:
            if not (isinstance(st, ast.Assign) and len(st.targets) == 1 and isinstance(st.targets[0], ast.Name)):
                raise Untranslated('statement before the return is not a simple alias assignment')
            aliases[st.targets[0].id] = _subst(st.value, aliases)
        return node.args.args[0].arg, _subst(body[-1].value, aliases)
    # lambda inside an expression/assignment
    lams = [n for n in ast.walk(tree) if isinstance(n, ast.Lambda)]
    if len(lams) != 1 or len(lams[0].args.args) != 1:
        raise Untranslated('cannot isolate lambda')
    return lams[0].args.args[0].arg, lams[0].body


class _Subst(ast.NodeTransformer):
    def __init__(self, env):
        self.env = env

    def visit_Name(self, node):
        if isinstance(node.ctx, ast.Load) and node.id in self.env:
            return self.env[node.id]
        return node


def _subst(expr, env):
    import copy
    return _Subst(env).visit(copy.deepcopy(expr)) if env else expr


def synth_cond(cls, fs, idx, fn, names, M):
    """Semantic fallback for predicates outside the syntactic fragment: if the predicate is a
    function of 1-bit members of earlier plain Bitfields only (checked by probing every other
    earlier member / integer field for influence), tabulate it over those bits and emit the DNF.
    Anything else stays Untranslated (fail closed)."""
    import itertools
    import random
    rnd = random.Random(12345)
    bits1, others = [], []
    for fi, f in enumerate(fs[:idx]):
        if isinstance(f, M.Bitfield):
            for bi, b in enumerate(P.bits_of(f, M)):
                (bits1 if b.width == 1 else others).append((fi, bi, b))
        elif isinstance(f, M.UnsignedInt) and not isinstance(f, M.CompletionCode):
            others.append((fi, None, f))
    if len(bits1) > 10:
        raise Untranslated('predicate outside the fragment and too many candidate bits to tabulate')

    def probe(assign, noise):
        obj = cls()
        for (fi, bi, b), v in zip(bits1, assign):
            setattr(getattr(obj, fs[fi].name), b.name, v)
        for (fi, bi, b), v in zip(others, noise):
            if bi is None:
                setattr(obj, b.name, v)
            else:
                setattr(getattr(obj, fs[fi].name), b.name, v)
        r = fn(obj)
        if r is not True and r is not False and r not in (0, 1):
            raise Untranslated('predicate does not return a boolean')
        return bool(r)

    def noise():
        return [rnd.randrange(256 ** b.length) if bi is None else rnd.randrange(2 ** b.width) for (fi, bi, b) in others]
    table = {}
    try:
        for assign in itertools.product((0, 1), repeat=len(bits1)):
            vals = {probe(assign, noise()) for _ in range(6)}
            if len(vals) != 1:
                raise Untranslated('predicate depends on something other than 1-bit members of earlier bit-fields')
            table[assign] = vals.pop()
    except Untranslated:
        raise
    except Exception as e:  # noqa
        raise Untranslated('predicate cannot be probed: %s' % type(e).__name__)
    relevant = [i for i in range(len(bits1))
                if any(table[a] != table[a[:i] + (1 - a[i],) + a[i + 1:]] for a in table)]
    if not relevant:
        raise Untranslated('constant predicate')
    terms = []
    seen = set()
    for a, v in table.items():
        key = tuple(a[i] for i in relevant)
        if v and key not in seen:
            seen.add(key)
            atoms = ['(CBit %d %d %d)' % (bits1[i][0], bits1[i][1], a[i]) for i in relevant]
            t = atoms[-1]
            for x in reversed(atoms[:-1]):
                t = '(CAnd %s %s)' % (x, t)
            terms.append(t)
    out = terms[-1]
    for x in reversed(terms[:-1]):
        out = '(COr %s %s)' % (x, out)
    return out


def tr_cond(expr, arg, names, fields, M):
    if isinstance(expr, ast.BoolOp):
        op = 'COr' if isinstance(expr.op, ast.Or) else 'CAnd'
        parts = [tr_cond(v, arg, names, fields, M) for v in expr.values]
        out = parts[-1]
        for p in reversed(parts[:-1]):
            out = '(%s %s %s)' % (op, p, out)
        return out
    if (isinstance(expr, ast.Compare) and len(expr.ops) == 1 and isinstance(expr.ops[0], ast.Eq)
            and isinstance(expr.comparators[0], ast.Constant) and isinstance(expr.comparators[0].value, int)
            and not isinstance(expr.comparators[0].value, bool)
            and isinstance(expr.left, ast.Attribute) and isinstance(expr.left.value, ast.Attribute)
            and isinstance(expr.left.value.value, ast.Name) and expr.left.value.value.id == arg):
        fname, bname = expr.left.value.attr, expr.left.attr
        if fname not in names:
            raise Untranslated('predicate reads unknown field %s' % fname)
        fi = names.index(fname)
        f = fields[fi]
        if not isinstance(f, M.Bitfield):
            raise Untranslated('predicate reads non-bitfield %s' % fname)
        bnames = [b.name for b in P.bits_of(f, M)]
        if bname not in bnames:
            raise Untranslated('predicate reads unknown bit %s.%s' % (fname, bname))
        k = expr.comparators[0].value
        if k < 0:
            raise Untranslated('negative constant in predicate')
        return '(CBit %d %d %d)' % (fi, bnames.index(bname), k)
    raise Untranslated('predicate outside fragment: %s' % ast.dump(expr)[:80])


def kind_of(f, M):
    """The known field class whose encode/decode/create (and _length) the object really uses:
    a subclass that overrides none of them is translated like its base; one that overrides any is
    outside the fragment."""
    t = type(f)
    for K in (M.CompletionCode, M.UnsignedInt, M.Bitfield, M.VariableByteArray, M.ByteArray, M.String,
              M.RemainingBytes):
        if isinstance(f, K):
            names = ['encode', 'decode', 'create'] + (['_length'] if issubclass(K, M.ByteArray) else [])
            if all(getattr(t, n) is getattr(K, n) for n in names):
                return K
            raise Untranslated('%s overrides %s of %s' % (t.__name__, '/'.join(
                n for n in names if getattr(t, n) is not getattr(K, n)), K.__name__))
    raise Untranslated('field class %s outside fragment' % t.__name__)


def tr_base(f, names, fields, M):
    """-> (base term, default val term, bitnames list)"""
    t = kind_of(f, M)
    if t is M.UnsignedInt:
        d = f.default if f.default is not None else 0
        if not isinstance(d, int) or isinstance(d, bool) or d < 0 or not isinstance(f.length, int) or f.length < 0:
            raise Untranslated('UnsignedInt default/length not a natural number')
        return 'BUInt %d' % f.length, '(VInt %d)' % d, []
    if t is M.CompletionCode:
        if f.length != 1:
            raise Untranslated('CompletionCode length != 1')
        d = f.default if f.default is not None else 0
        return 'BCC', '(VInt %d)' % d, []
    if t is M.Bitfield:
        ws, ds, ns = [], [], []
        try:
            measured = P.bits_of(f, M)
        except P.ProbeError as e:
            raise Untranslated('bit layout could not be measured: %s' % e)
        for b in measured:
            d = b.default if b.default is not None else 0
            if not isinstance(b.width, int) or b.width < 0 or not isinstance(d, int) or d < 0:
                raise Untranslated('bit width/default not natural')
            ws.append(b.width)
            ds.append(d)
            ns.append(b.name)
        return ('BBits %d [%s]' % (f.length, '; '.join(map(str, ws))),
                '(VBits [%s])' % '; '.join(map(str, ds)), ns)
    if t is M.ByteArray:
        d = list(f.default) if f.default is not None else [0] * f.length
        return 'BBytes %d' % f.length, '(VBytes %s)' % hexs(d), []
    if t is M.VariableByteArray:
        try:
            arg, expr = fn_return_expr(P.length_fn(f, M))
            if not (isinstance(expr, ast.Attribute) and isinstance(expr.value, ast.Name) and expr.value.id == arg):
                raise Untranslated('length function outside fragment')
            if expr.attr not in names:
                raise Untranslated('length function reads unknown field %s' % expr.attr)
            return 'BVar %d' % names.index(expr.attr), 'VNone', []
        except Untranslated:
            if CLS_CTX[0] is None:
                raise
            j = synth_varlen(CLS_CTX[0], fields, [inner_of(g, M) for g in fields].index(f), P.length_fn(f, M), M)
            return 'BVar %d' % j, 'VNone', []
    if t is M.String:
        d = f.default if f.default is not None else ''
        if isinstance(d, str):
            d = d.encode()
        return 'BStr %d' % f.length, '(VBytes %s)' % hexs(d), []
    if t is M.RemainingBytes:
        return 'BRem', '(VBytes [])', []
    raise Untranslated('field class %s outside fragment' % t.__name__)


CLS_CTX = [None]     # the class being translated (for the semantic fallbacks)


def synth_varlen(cls, fs, idx, fn, M):
    """Semantic fallback for length functions: the earlier plain integer field whose value the
    function returns, found by probing with three different assignments."""
    import random
    rnd = random.Random(54321)
    cands = [j for j, g in enumerate(fs[:idx]) if isinstance(g, M.UnsignedInt) and not isinstance(g, M.CompletionCode)]
    alive = set(cands)
    for _ in range(4):
        obj = cls()
        vals = {}
        for j in cands:
            vals[j] = rnd.randrange(1, 256 ** fs[j].length)
            setattr(obj, fs[j].name, vals[j])
        try:
            r = fn(obj)
        except Exception as e:  # noqa
            raise Untranslated('length function cannot be probed: %s' % type(e).__name__)
        alive = {j for j in alive if vals[j] == r}
    if len(alive) != 1:
        raise Untranslated('length function is not the value of one earlier integer field')
    return alive.pop()


# Message.__init__ runs `self.data = ''` AFTER _create_fields: the attribute of a field
# called "data" holds '' (no bytes) after construction, whatever its create() returned.
CLOBBERED = {'data': '(VBytes [])'}


def tr_field(f, names, fields, M):
    if isinstance(f, M.Optional):
        g = P.wrapped(f, M)
        b, _, bn = tr_base(g, names, fields, M)
        d = CLOBBERED.get(g.name, 'VNone')
        return 'mkFld %s KOpt (%s) %s [%s]' % (q(g.name), b, d, '; '.join(map(q, bn)))
    if isinstance(f, M.Conditional):
        g = P.wrapped(f, M)
        try:
            arg, expr = fn_return_expr(P.condition_fn(f, M))
            c = tr_cond(expr, arg, names, fields, M)
        except Untranslated:
            if CLS_CTX[0] is None:
                raise
            c = synth_cond(CLS_CTX[0], fields, fields.index(f), P.condition_fn(f, M), names, M)
        b, d, bn = tr_base(g, names, fields, M)
        d = CLOBBERED.get(g.name, d)
        return 'mkFld %s (KCond %s) (%s) %s [%s]' % (q(g.name), c, b, d, '; '.join(map(q, bn)))
    b, d, bn = tr_base(f, names, fields, M)
    d = CLOBBERED.get(f.name, d)
    return 'mkFld %s KPlain (%s) %s [%s]' % (q(f.name), b, d, '; '.join(map(q, bn)))


def inner_of(f, M):
    return P.wrapped(f, M)


def field_name(f, M):
    if P.is_wrapper(f, M):
        return getattr(P.wrapped(f, M), 'name', None)
    return getattr(f, 'name', None)


def tr_layout(cls, M):
    if '__fields__' not in dir(cls):
        return 'NoFields'
    fs = cls.__fields__
    if not isinstance(fs, (tuple, list)):
        return 'Malformed %s' % q('__fields__ is a %s, not a tuple' % type(fs).__name__)
    known = (M.BaseField, M.Optional, M.Conditional)
    if not all(isinstance(f, known) for f in fs):
        return 'Malformed %s' % q('__fields__ holds a non-field object')
    try:
        names = [field_name(f, M) for f in fs]
        CLS_CTX[0] = cls
        items = [tr_field(f, names, list(fs), M) for f in fs]
    except Untranslated as e:
        return 'Untranslated %s' % q(str(e))
    finally:
        CLS_CTX[0] = None
    return 'Fields [\n    %s]' % ';\n    '.join(items)


def ast_class_count(repo):
    n = 0
    d = os.path.join(repo, 'pyipmi', 'msgs')
    for fn in sorted(os.listdir(d)):
        if not fn.endswith('.py'):
            continue
        tree = ast.parse(open(os.path.join(d, fn)).read())
        for node in ast.walk(tree):
            if isinstance(node, ast.ClassDef):
                for dec in node.decorator_list:
                    name = dec.id if isinstance(dec, ast.Name) else getattr(dec, 'attr', None)
                    if name == 'register_message_class':
                        n += 1
    return n


def generate(repo):
    sys.path.insert(0, repo)
    import pyipmi  # noqa
    from pyipmi.msgs import message as M
    from pyipmi.msgs.registry import DEFAULT_REGISTRY as R
    assert os.path.realpath(pyipmi.__file__).startswith(os.path.realpath(repo)), pyipmi.__file__
    names = sorted(k for k in R.registry if isinstance(k, str))
    out = ['(* GENERATED by gen/gen_layouts.py from %s - do not edit *)' % repo,
           'From Coq Require Import String.', 'From Coq Require Import NArith List.',
           'From PyIpmi Require Import Lib.Bytes Model.Codec.', 'Import ListNotations.',
           'Open Scope string_scope.', 'Open Scope N_scope.', '']
    entries, untranslated = [], []
    for n in names:
        cls = R.registry[n]
        lay = tr_layout(cls, M)
        out.append('Definition L_%s : layout := %s.' % (n, lay))
        grp = cls.__group_extension__
        netfn, cmd, lun = cls.__netfn__, cls.__cmdid__, cls.__default_lun__
        e = 'mkMsg %s %d %d %s %d L_%s' % (q(n), netfn, cmd, 'None' if grp is None else '(Some %d)' % grp, lun, n)
        # the id tuple must map back to this class
        if R.registry.get((netfn, cmd, grp)) is not cls:
            e = 'mkMsg %s %d %d %s %d (Malformed "id tuple registered for another class")' % (
                q(n), netfn, cmd, 'None' if grp is None else '(Some %d)' % grp, lun)
        # A layout the translator cannot express is kept OUT of [registry] (no theorem is claimed
        # for that class in this run; the C01 check then requires its implementation oracle to pass
        # for it) so that one exotic class does not take every registry-based obligation down.
        (untranslated if lay.startswith('Untranslated') else entries).append(e)
    out.append('')
    out.append('Definition registry : list msgdef := [\n  %s].' % ';\n  '.join(entries))
    out.append('')
    out.append('(* classes outside the translator\'s fragment in this run: downgraded, decided by the oracle only *)')
    out.append('Definition registry_untranslated : list msgdef := [%s].' % ('\n  ' + ';\n  '.join(untranslated) if untranslated else ''))
    out.append('')
    out.append('(* independent count of @register_message_class classes in the source text *)')
    out.append('Definition ast_class_count : nat := %d.' % ast_class_count(repo))
    return '\n'.join(out) + '\n'


def main():
    ap = argparse.ArgumentParser()
    ap.add_argument('--repo', default=os.environ.get('VERIF_REPO', '/repo'))
    ap.add_argument('--out', required=True)
    a = ap.parse_args()
    txt = generate(a.repo)
    p = os.path.join(a.out, 'Layouts.v')
    old = open(p).read() if os.path.exists(p) else None
    if old != txt:
        open(p, 'w').write(txt)
        print('Layouts.v rewritten (%d bytes)' % len(txt))
    else:
        print('Layouts.v unchanged')


if __name__ == '__main__':
    main()
