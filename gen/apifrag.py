"""Part 2 of gen_api.py (C07): the CONTENT of the straight-line API methods -> coq/Gen/ApiContent.v.

For every public method of the Ipmi mix-ins the body is translated into the statement /
expression types of coq/Model/ApiSem.v.  Calls to other methods of self, to module-level
helpers and to State-class constructors (their __init__ / _from_response) are INLINED (fresh
local names), `for` loops over literal tuples / dict(...) items / range(const) are UNROLLED,
and `return` is brought into tail position.  Everything outside the fragment makes the whole
operation `SUnsupported "<reason>"` (fail closed) - it is then listed as uncovered.

Refused on purpose (C07 purity):  SharedMutable - a result class that mutates a class-level list /
dict in place (ChassisStatus.last_event.append(...) without a prior assignment in the instance), and
constructors of Ipmi with mutable default arguments (listed in `shared_defaults`).

Nothing is imported from /repo; module constants, Enum members and CONVERT_* dictionaries are
evaluated from the ast.
"""
import ast
import os


class Unsupp(Exception):
    pass


def q(s):
    return '"%s"' % str(s).replace('"', '""')


def zlit(n):
    return '(%d)' % n if n < 0 else '%d' % n


# ---------------------------------------------------------------------------------------------
# module information (constants, enums, tables, functions, classes, imports)
# ---------------------------------------------------------------------------------------------
class Mod:
    cache = {}

    def __init__(self, pkg, rel):
        self.pkg, self.rel = pkg, rel
        path = os.path.join(pkg, rel)
        self.tree = ast.parse(open(path).read(), filename=path)
        self.consts = {}       # name -> python constant (int / str / tuple / ('range', lo, hi))
        self.tables = {}       # name -> list of (key const, value const)
        self.enums = {}        # class name -> {member: value}
        self.funcs = {}        # name -> FunctionDef
        self.classes = {}      # name -> ClassDef
        self.imports = {}      # local name -> ('mod', Mod) | ('name', Mod, original)
        self._scan()

    @classmethod
    def get(cls, pkg, rel):
        key = (pkg, rel)
        if key not in cls.cache:
            cls.cache[key] = Mod(pkg, rel)
        return cls.cache[key]

    def _resolve_import(self, module, level):
        base = os.path.dirname(self.rel)
        parts = (module or '').split('.') if module else []
        if level == 0:
            return None
        d = base
        for _ in range(level - 1):
            d = os.path.dirname(d)
        cand = os.path.join(d, *parts)
        for rel in (cand + '.py', os.path.join(cand, '__init__.py')):
            if os.path.exists(os.path.join(self.pkg, rel)):
                return rel
        return None

    def _scan(self):
        for n in self.tree.body:
            if isinstance(n, ast.ImportFrom):
                rel = self._resolve_import(n.module, n.level)
                for a in n.names:
                    local = a.asname or a.name
                    sub = self._resolve_import(((n.module + '.') if n.module else '') + a.name, n.level)
                    if sub is not None and (rel is None or os.path.basename(rel) == '__init__.py'):
                        self.imports[local] = ('mod', sub)
                    elif rel is not None:
                        self.imports[local] = ('name', rel, a.name)
            elif isinstance(n, ast.FunctionDef):
                self.funcs[n.name] = n
            elif isinstance(n, ast.ClassDef):
                self.classes[n.name] = n
                bases = [ast.unparse(b) for b in n.bases]
                if 'Enum' in bases:
                    mem = {}
                    for s in n.body:
                        if isinstance(s, ast.Assign) and len(s.targets) == 1 and isinstance(s.targets[0], ast.Name):
                            try:
                                v = ast.literal_eval(s.value)
                            except Exception:
                                continue
                            if isinstance(v, tuple) and len(v) == 1 and 'str' in bases:
                                v = v[0]          # class X(str, Enum): A = "a",   -> str("a")
                            mem[s.targets[0].id] = v
                    self.enums[n.name] = mem
        for n in self.tree.body:
            if isinstance(n, ast.Assign) and len(n.targets) == 1 and isinstance(n.targets[0], ast.Name):
                name = n.targets[0].id
                if isinstance(n.value, ast.Dict):
                    try:
                        self.tables[name] = [(self.const_of(k), self.const_of(v)) for k, v in zip(n.value.keys, n.value.values)]
                    except Unsupp:
                        pass
                    continue
                try:
                    self.consts[name] = self.const_of(n.value)
                except Unsupp:
                    pass

    def const_of(self, e):
        """python constant denoted by a module-level expression"""
        if isinstance(e, ast.Constant) and isinstance(e.value, (int, str, bool, type(None))):
            return e.value
        if isinstance(e, ast.UnaryOp) and isinstance(e.op, ast.USub):
            return -self.const_of(e.operand)
        if isinstance(e, ast.Name):
            if e.id in self.consts:
                return self.consts[e.id]
            if e.id in self.imports and self.imports[e.id][0] == 'name':
                _, rel, orig = self.imports[e.id]
                m = Mod.get(self.pkg, rel)
                if orig in m.consts:
                    return m.consts[orig]
            raise Unsupp('unknown constant %s' % e.id)
        if isinstance(e, ast.Attribute) and isinstance(e.value, ast.Name):
            base = e.value.id
            if base in self.enums and e.attr in self.enums[base]:
                return self.enums[base][e.attr]
            if base in self.imports and self.imports[base][0] == 'mod':
                m = Mod.get(self.pkg, self.imports[base][1])
                if e.attr in m.consts:
                    return m.consts[e.attr]
            if base in self.imports and self.imports[base][0] == 'name':
                _, rel, orig = self.imports[base]
                m = Mod.get(self.pkg, rel)
                if orig in m.enums and e.attr in m.enums[orig]:
                    return m.enums[orig][e.attr]
                if orig in m.classes:
                    return m.class_const(orig, e.attr)
            if base in self.classes:
                return self.class_const(base, e.attr)
            raise Unsupp('unknown constant %s' % ast.unparse(e))
        if isinstance(e, (ast.Tuple, ast.List)):
            return tuple(self.const_of(x) for x in e.elts)
        if isinstance(e, ast.BinOp):
            a, b = self.const_of(e.left), self.const_of(e.right)
            ops = {ast.Add: lambda: a + b, ast.Sub: lambda: a - b, ast.Mult: lambda: a * b, ast.BitOr: lambda: a | b,
                   ast.LShift: lambda: a << b, ast.BitAnd: lambda: a & b}
            if type(e.op) in ops and isinstance(a, int) and isinstance(b, int):
                return ops[type(e.op)]()
        if (isinstance(e, ast.Call) and ast.unparse(e.func) == 'list' and len(e.args) == 1
                and isinstance(e.args[0], ast.Call) and ast.unparse(e.args[0].func) == 'range'):
            r = [self.const_of(x) for x in e.args[0].args]
            if len(r) == 2:
                return ('range', r[0], r[1])
            if len(r) == 1:
                return ('range', 0, r[0])
        raise Unsupp('constant expression %s' % ast.unparse(e)[:40])

    def class_const(self, cname, attr):
        cd = self.classes[cname]
        for s in cd.body:
            if isinstance(s, ast.Assign) and len(s.targets) == 1 and isinstance(s.targets[0], ast.Name) \
                    and s.targets[0].id == attr:
                return self.const_of(s.value)
        raise Unsupp('unknown class constant %s.%s' % (cname, attr))


def pv_of(c):
    if isinstance(c, bool):
        return '(PBool %s)' % ('true' if c else 'false')
    if isinstance(c, int):
        return '(PInt %s)' % zlit(c)
    if c is None:
        return 'PNone'
    if isinstance(c, str):
        if any(ord(ch) > 126 or (ord(ch) < 32 and ord(ch) != 0) for ch in c):
            raise Unsupp('non-ASCII string constant')
        if '\x00' in c:
            # Coq string with NUL characters
            parts = ' ++ '.join('(String (Ascii.ascii_of_N 0) "")' if ch == '\x00' else q(ch) for ch in c)
            return '(PStr (%s))' % parts
        return '(PStr %s)' % q(c)
    if isinstance(c, tuple) and len(c) == 3 and c[0] == 'range':
        raise Unsupp('range constant used as a value')
    if isinstance(c, tuple):
        return '(PList [%s])' % '; '.join(pv_of(x) for x in c)
    raise Unsupp('constant of type %s' % type(c).__name__)


BINOPS = {ast.Add: 'Add', ast.Sub: 'Sub', ast.Mult: 'Mul', ast.FloorDiv: 'FloorDiv', ast.Mod: 'Mod',
          ast.BitAnd: 'BitAnd', ast.BitOr: 'BitOr', ast.BitXor: 'BitXor', ast.LShift: 'LShift', ast.RShift: 'RShift'}
CMPOPS = {ast.Eq: 'Eq', ast.NotEq: 'NotEq', ast.Lt: 'Lt', ast.LtE: 'LtE', ast.Gt: 'Gt', ast.GtE: 'GtE',
          ast.In: 'In', ast.NotIn: 'NotIn', ast.Is: 'Is', ast.IsNot: 'IsNot'}
ERRS = {'TypeError': '(OtherError TypeError)', 'ValueError': '(OtherError ValueError)',
        'AssertionError': '(OtherError AssertionError)', 'DecodingError': 'DecodingError',
        'EncodingError': 'EncodingError', 'HpmError': 'HpmError', 'NotImplementedError': '(OtherError NotImplementedErr)',
        'RetryError': 'RetryError', 'KeyError': '(OtherError KeyError)', 'IndexError': '(OtherError IndexError)'}
IDIOMS = [
    ("'.'.join(map(str, %s))", 'join_dot_str'),
    ("':'.join([f'{i:02x}' for i in %s])", 'join_colon_hex'),
]
# classes whose behaviour is modelled BY HAND in Model/ApiSem.v (builtins version_field, component_property):
# the translator uses the builtin only while the class source is what was modelled (ast fingerprint)
HAND_FP = {
    ('fields.py', ('VersionField',)): '9e6f00531324f629',
    ('hpm.py', ('ComponentProperty', 'ComponentPropertyGeneral', 'ComponentPropertyCurrentVersion',
                'ComponentPropertyDescriptionString', 'ComponentPropertyRollbackVersion',
                'ComponentPropertyDeferredVersion')): '7bdf559fab1cd412',
}


def fingerprint(path, names):
    import hashlib
    t = ast.parse(open(path).read())
    out = []
    for n in t.body:
        if isinstance(n, ast.ClassDef) and n.name in names:
            for x in ast.walk(n):
                if (isinstance(x, (ast.FunctionDef, ast.ClassDef)) and x.body and isinstance(x.body[0], ast.Expr)
                        and isinstance(x.body[0].value, ast.Constant) and isinstance(x.body[0].value.value, str)):
                    x.body = x.body[1:] or [ast.Pass()]
            out.append(ast.dump(n))
    return hashlib.sha256('\n'.join(out).encode()).hexdigest()[:16]


def hand_ok(pkg, rel):
    for (r, names), want in HAND_FP.items():
        if r == rel and fingerprint(os.path.join(pkg, r), set(names)) != want:
            return False
    return True


GUID_FMT = '%02x%02x%02x%02x-%02x%02x-%02x%02x-%02x%02x-%02x%02x%02x%02x%02x%02x'
MAX_INLINE = 6


class Ctx:
    """translation context of one (possibly inlined) function body"""

    def __init__(self, T, mod, depth, selfkind, cls=None):
        self.T, self.mod, self.depth, self.selfkind, self.cls = T, mod, depth, selfkind, cls
        self.names = {}        # python local name -> coq local name
        self.msgs = {}         # python name -> coq message variable name
        self.subst = {}        # python name -> ast node (loop unrolling, dict(...) literals)
        self.objcls = {}       # python name -> class name of the instance bound to it (when known)
        self.dicts = {}        # python name -> list of (key str, ast value) for x = dict(a=a, ...)
        self.tuples = {}       # python name -> list of ast nodes for x = (c1, c2, ...)
        self.ret = None
        self.retinfo = {'msgs': set(), 'other': False}

    def child_copy(self):
        c = Ctx(self.T, self.mod, self.depth, self.selfkind, self.cls)
        # one Python function has one flat scope: the local-name map is shared by all branches
        c.names, c.msgs, c.subst = self.names, dict(self.msgs), dict(self.subst)
        c.objcls, c.dicts, c.tuples, c.ret = dict(self.objcls), dict(self.dicts), dict(self.tuples), self.ret
        c.retinfo = self.retinfo
        return c

    def local(self, name):
        if name not in self.names:
            self.names[name] = self.T.fresh(name)
        return self.names[name]


class Translator:
    def __init__(self, R):
        self.R = R
        self.pkg = R.pkg
        self.counter = 0
        self.tables_used = {}     # coq table name -> entries
        self.nstmts = 0

    def fresh(self, base):
        self.counter += 1
        return '%s$%d' % (base, self.counter)

    # ---- expressions ----
    def expr(self, e, c, pre):
        """-> coq pexp (a string); statements needed first (inlined calls) are appended to `pre`"""
        v = self.expr_m(e, c, pre)
        if isinstance(v, tuple):
            return '(EMsg %s)' % q(v[1])
        return v

    def expr_m(self, e, c, pre):
        """like expr, but a message object is returned as ('msg', coq message variable)"""
        if isinstance(e, ast.Constant):
            if isinstance(e.value, (int, str, bool, type(None))):
                return '(EConst %s)' % pv_of(e.value)
            raise Unsupp('constant %r' % (e.value,))
        if isinstance(e, ast.Name):
            if e.id in c.subst:
                return self.expr_m(c.subst[e.id], c, pre)
            if e.id in c.msgs:
                return ('msg', c.msgs[e.id])
            if e.id in c.names:
                return '(EVar %s)' % q(c.names[e.id])
            try:
                k = c.mod.const_of(e)
            except Unsupp:
                raise Unsupp('unknown name %s' % e.id)
            return self.const_expr(k)
        if isinstance(e, ast.Attribute):
            return self.attribute(e, c, pre)
        if isinstance(e, ast.Subscript):
            if isinstance(e.value, ast.Name) and e.value.id in c.mod.tables and not isinstance(e.slice, ast.Slice):
                return '(ETable %s %s None)' % (q(self.table(c.mod, e.value.id)), self.expr(e.slice, c, pre))
            v = self.expr(e.value, c, pre)
            if isinstance(e.slice, ast.Slice):
                if e.slice.step is not None:
                    raise Unsupp('slice with step')
                lo = 'None' if e.slice.lower is None else '(Some %s)' % self.expr(e.slice.lower, c, pre)
                hi = 'None' if e.slice.upper is None else '(Some %s)' % self.expr(e.slice.upper, c, pre)
                return '(ESlice %s %s %s)' % (v, lo, hi)
            return '(EIndex %s %s)' % (v, self.expr(e.slice, c, pre))
        if (isinstance(e, ast.BinOp) and isinstance(e.op, ast.Mod) and isinstance(e.left, ast.Constant)
                and e.left.value == GUID_FMT and ast.unparse(e.right).startswith('tuple(reversed(')
                and isinstance(e.right, ast.Call) and len(e.right.args) == 1 and len(e.right.args[0].args) == 1):
            return '(ECall "guid_string" [%s])' % self.expr(e.right.args[0].args[0], c, pre)
        if isinstance(e, ast.BinOp):
            if type(e.op) not in BINOPS:
                raise Unsupp('operator %s' % type(e.op).__name__)
            return '(EBin %s %s %s)' % (BINOPS[type(e.op)], self.expr(e.left, c, pre), self.expr(e.right, c, pre))
        if isinstance(e, ast.Compare):
            if len(e.ops) != 1:
                raise Unsupp('chained comparison')
            return '(ECmp %s %s %s)' % (CMPOPS[type(e.ops[0])], self.expr(e.left, c, pre),
                                        self.expr(e.comparators[0], c, pre))
        if isinstance(e, ast.UnaryOp):
            if isinstance(e.op, ast.Not):
                return '(ENot %s)' % self.expr(e.operand, c, pre)
            if isinstance(e.op, ast.USub) and isinstance(e.operand, ast.Constant):
                return '(EConst %s)' % pv_of(-e.operand.value)
            raise Unsupp('unary operator %s' % type(e.op).__name__)
        if isinstance(e, ast.BoolOp):
            sub = []
            vals = [self.expr(v, c, sub) for v in e.values]
            if sub:
                raise Unsupp('call inside and/or')
            op = 'EAnd' if isinstance(e.op, ast.And) else 'EOr'
            out = vals[-1]
            for v in reversed(vals[:-1]):
                out = '(%s %s %s)' % (op, v, out)
            return out
        if isinstance(e, ast.IfExp):
            sub = []
            r = '(EIf %s %s %s)' % (self.expr(e.test, c, sub), self.expr(e.body, c, sub), self.expr(e.orelse, c, sub))
            if sub:
                raise Unsupp('call inside a conditional expression')
            return r
        if isinstance(e, (ast.Tuple, ast.List)):
            return '(EList [%s])' % '; '.join(self.expr(x, c, pre) for x in e.elts)
        if isinstance(e, ast.Call):
            return self.call(e, c, pre)
        raise Unsupp('expression %s' % type(e).__name__)


    def const_expr(self, k):
        if isinstance(k, tuple) and len(k) == 3 and k[0] == 'range':
            return '(ERange %s %s)' % (zlit(k[1]), zlit(k[2]))
        return '(EConst %s)' % pv_of(k)

    def table(self, mod, name):
        tn = '%s.%s' % (os.path.splitext(os.path.basename(mod.rel))[0], name)
        if tn not in self.tables_used:
            self.tables_used[tn] = mod.tables[name]
        return tn

    def attribute(self, e, c, pre):
        # message fields: x.a / x.a.b
        chain = []
        n = e
        while isinstance(n, ast.Attribute):
            chain.append(n.attr)
            n = n.value
        chain.reverse()
        if isinstance(n, ast.Name):
            base = n.id
            if base in c.subst and isinstance(c.subst[base], ast.Name):
                base = c.subst[base].id
            if base in c.msgs:
                if len(chain) > 2:
                    raise Unsupp('message attribute chain %s' % ast.unparse(e))
                return '(EField %s [%s])' % (q(c.msgs[base]), '; '.join(q(x) for x in chain))
            if base == 'self' and c.selfkind == 'ipmi':
                if len(chain) == 1:
                    # class-level constant of a mix-in (self.ACTIVATION_LOCK_SET)
                    for modname, cd, _ in self.R.classes:
                        for s in cd.body:
                            if isinstance(s, ast.Assign) and any(isinstance(t, ast.Name) and t.id == chain[0] for t in s.targets):
                                m = Mod.get(self.pkg, modname + '.py')
                                return self.const_expr(m.const_of(s.value))
                raise Unsupp('attribute of the connection object: %s' % ast.unparse(e))
            if base == 'self' and c.selfkind == 'obj':
                # class constant, else instance attribute
                if len(chain) == 1:
                    try:
                        return self.const_expr(c.mod.class_const(c.cls, chain[0]))
                    except Unsupp:
                        pass
                out = '(EVar %s)' % q(c.names['self'])
                for a in chain:
                    out = '(EAttr %s %s)' % (out, q(a))
                return out
            if base in c.names:
                out = '(EVar %s)' % q(c.names[base])
                for a in chain:
                    out = '(EAttr %s %s)' % (out, q(a))
                return out
            try:
                return self.const_expr(c.mod.const_of(e))
            except Unsupp:
                pass
        raise Unsupp('attribute %s' % ast.unparse(e)[:50])

    def const_name(self, key, c):
        """attribute name given to setattr/getattr/hasattr: a string constant, a loop variable bound to one by
        unrolling, or '<fmt>' % <such constants> (folded)"""
        if isinstance(key, ast.Name) and key.id in c.subst:
            return self.const_name(c.subst[key.id], c)
        if isinstance(key, ast.Constant) and isinstance(key.value, (str, int)) and not isinstance(key.value, bool):
            return key.value
        if isinstance(key, ast.BinOp) and isinstance(key.op, ast.Mod):
            fmt = self.const_name(key.left, c)
            if isinstance(key.right, ast.Tuple):
                args = tuple(self.const_name(x, c) for x in key.right.elts)
            else:
                args = self.const_name(key.right, c)
            if isinstance(fmt, str) and fmt is not None and args is not None and (not isinstance(args, tuple) or None not in args):
                try:
                    return fmt % args
                except (TypeError, ValueError):
                    return None
        return None

    def call(self, e, c, pre):
        f = e.func
        src = ast.unparse(e)
        # known idioms matched textually
        for pat, name in IDIOMS:
            if len(e.args) == 1 or True:
                for cand in list(c.names) + list(c.subst):
                    if src == pat % cand:
                        return '(ECall %s [%s])' % (q(name), self.expr(ast.Name(id=cand, ctx=ast.Load()), c, pre))
        if isinstance(f, ast.Name):
            name = f.id
            if name in ('bool', 'int', 'len', 'list', 'tuple', 'reversed') and len(e.args) == 1 and not e.keywords:
                return '(ECall %s [%s])' % (q(name), self.expr(e.args[0], c, pre))
            if name == 'isinstance' and len(e.args) == 2 and isinstance(e.args[1], ast.Name) and e.args[1].id in ('bool', 'int'):
                return '(ECall %s [%s])' % (q('isinstance_' + e.args[1].id), self.expr(e.args[0], c, pre))
            if name == 'ByteBuffer' and len(e.args) == 1:
                a = e.args[0]
                if ast.unparse(a).startswith('map(int, ') and ast.unparse(a).endswith(".split('.'))"):
                    inner = a.args[1].func.value
                    return '(ECall "split_dot_int" [%s])' % self.expr(inner, c, pre)
                return '(ECall "bytebuffer" [%s])' % self.expr(a, c, pre)
            if name == 'VersionField' and len(e.args) == 1 and isinstance(e.args[0], ast.Tuple) and len(e.args[0].elts) == 2:
                if not hand_ok(self.pkg, 'fields.py'):
                    raise Unsupp('fields.VersionField differs from the hand-modelled source')
                return '(ECall "version_field" [%s; %s])' % tuple(self.expr(x, c, pre) for x in e.args[0].elts)
            if name in ('hasattr', 'getattr') and len(e.args) in (2, 3):
                key = self.const_name(e.args[1], c)
                if not isinstance(key, str):
                    raise Unsupp('%s with a non-constant name' % name)
                tgt = ast.Attribute(value=e.args[0], attr=key, ctx=ast.Load())
                r = self.attribute(tgt, c, pre)
                if name == 'hasattr' or len(e.args) == 3:
                    if not r.startswith('(EField '):
                        raise Unsupp('%s on a non-message object' % name)
                    has = '(EHasField ' + r[len('(EField '):]
                    if name == 'hasattr':
                        if len(e.args) != 2:
                            raise Unsupp('hasattr with 3 arguments')
                        return has
                    # getattr(msg, name, default): the field of the message class when it has one
                    return '(EIf %s %s %s)' % (has, r, self.expr(e.args[2], c, pre))
                return r
            if name in c.mod.funcs:
                return self.inline_function(c.mod, c.mod.funcs[name], e, c, pre, selfkind=None)
            cls = self.find_class(c.mod, name)
            if cls is not None:
                return self.construct(cls[0], cls[1], e, c, pre)
            raise Unsupp('call of %s' % name)
        if isinstance(f, ast.Attribute):
            # self.method(...)
            if isinstance(f.value, ast.Name) and f.value.id == 'self' and c.selfkind == 'ipmi':
                if f.attr == 'send_message':
                    raise Unsupp('send_message used as an expression')
                if f.attr == 'send_message_with_name':
                    return self.send_with_name(e, c, pre)
                if f.attr in self.R.methods:
                    clsname, fn, modname, _ = self.R.methods[f.attr]
                    return self.inline_function(Mod.get(self.pkg, modname + '.py'), fn, e, c, pre, selfkind='ipmi')
                raise Unsupp('no such attribute %s' % f.attr)
            # ComponentProperty.from_data(selector, data): hand-modelled (builtin component_property)
            if (isinstance(f.value, ast.Name) and f.value.id == 'ComponentProperty' and f.attr == 'from_data'
                    and len(e.args) == 2 and not e.keywords and c.mod.rel == 'hpm.py'):
                if not (hand_ok(self.pkg, 'hpm.py') and hand_ok(self.pkg, 'fields.py')):
                    raise Unsupp('hpm.ComponentProperty classes differ from the hand-modelled source')
                return '(ECall "component_property" [%s; %s])' % (self.expr(e.args[0], c, pre), self.expr(e.args[1], c, pre))
            # table.get(k, d)
            if f.attr == 'get' and isinstance(f.value, ast.Name) and f.value.id in c.mod.tables and len(e.args) == 2:
                return '(ETable %s %s (Some %s))' % (q(self.table(c.mod, f.value.id)), self.expr(e.args[0], c, pre),
                                                     self.expr(e.args[1], c, pre))
            if f.attr == 'ljust' and len(e.args) == 2:
                return '(ECall "ljust" [%s; %s; %s])' % (self.expr(f.value, c, pre), self.expr(e.args[0], c, pre),
                                                         self.expr(e.args[1], c, pre))
            # method of an instance argument: resolved by a unique method name among the module's classes
            if isinstance(f.value, ast.Name) and (f.value.id in c.names):
                cn = None
                if f.value.id == 'self' and c.selfkind == 'obj':
                    cn = c.cls
                elif f.value.id in c.objcls:
                    cn = c.objcls[f.value.id]
                else:
                    owners = [k for k, cd in c.mod.classes.items()
                              if any(isinstance(s, ast.FunctionDef) and s.name == f.attr for s in cd.body)]
                    if len(owners) == 1:
                        cn = owners[0]
                hit = self.class_method(c.mod, cn, f.attr) if cn else None
                if hit is not None:
                    m, cd, fn = hit
                    r = self.inline_function(m, fn, e, c, pre, selfkind='obj', cls=cn, self_expr=f.value)
                    return r
            raise Unsupp('call %s' % src[:60])
        raise Unsupp('call %s' % src[:60])

    def find_class(self, mod, name):
        if name in mod.classes:
            return (mod, name)
        if name in mod.imports and mod.imports[name][0] == 'name':
            _, rel, orig = mod.imports[name]
            m = Mod.get(self.pkg, rel)
            if orig in m.classes:
                return (m, orig)
        return None

    # ---- calls that are inlined ----
    def check_swn_form(self):
        """Ipmi.send_message_with_name has the form this translator assumes"""
        fn = self.R.methods.get('send_message_with_name')
        if fn is None:
            return False
        body = [s for s in fn[1].body if not (isinstance(s, ast.Expr) and isinstance(s.value, ast.Constant))]
        want = ['req = create_request_by_name(name)',
                'for key, value in kwargs.items():\n    setattr(req, key, value)',
                'rsp = self.send_message(req)', 'check_rsp_completion_code(rsp)', 'return rsp']
        return [ast.unparse(s) for s in body] == want

    def send_with_name(self, e, c, pre):
        if not self.check_swn_form():
            raise Unsupp('Ipmi.send_message_with_name has an unexpected form')
        if not (e.args and isinstance(e.args[0], ast.Constant) and isinstance(e.args[0].value, str)) or len(e.args) != 1:
            raise Unsupp('send_message_with_name: name is not a literal')
        req, rsp = self.fresh('req'), self.fresh('rsp')
        pre.append('SNewReq %s %s' % (q(req), q(e.args[0].value)))
        for kw in e.keywords:
            if kw.arg is None:
                raise Unsupp('**kwargs')
            pre.append('SSetField %s [%s] %s' % (q(req), q(kw.arg), self.expr(kw.value, c, pre)))
        pre.append('SSend %s %s false' % (q(rsp), q(req)))
        pre.append('SCheck %s' % q(rsp))
        return ('msg', rsp)

    def bind_params(self, fn, call, c, nc, pre, skip_self):
        """bind the parameters of fn in the new context nc from the call's arguments"""
        params = fn.args.args[1:] if skip_self else fn.args.args
        if fn.args.vararg or fn.args.kwarg or fn.args.kwonlyargs:
            raise Unsupp('*args/**kwargs in %s' % fn.name)
        defaults = [None] * (len(params) - len(fn.args.defaults)) + list(fn.args.defaults)
        given = {}
        for p, a in zip(params, call.args):
            given[p.arg] = a
        if len(call.args) > len(params):
            raise Unsupp('too many arguments for %s' % fn.name)
        for kw in call.keywords:
            if kw.arg is None:
                raise Unsupp('**kwargs')
            given[kw.arg] = kw.value
        for p, d in zip(params, defaults):
            a = given.get(p.arg, d)
            if a is None:
                raise Unsupp('missing argument %s of %s' % (p.arg, fn.name))
            in_caller = p.arg in given
            v = self.expr_m(a, c if in_caller else nc, pre)
            if isinstance(v, tuple) and v[0] == 'msg':
                nc.msgs[p.arg] = v[1]
            else:
                pre.append('SLet %s %s' % (q(nc.local(p.arg)), v))
                if isinstance(a, ast.Name) and in_caller and a.id in c.objcls:
                    nc.objcls[p.arg] = c.objcls[a.id]

    def inline_function(self, mod, fn, call, c, pre, selfkind, cls=None, self_expr=None):
        if c.depth >= MAX_INLINE:
            raise Unsupp('inlining depth')
        if any(isinstance(n, (ast.Yield, ast.YieldFrom)) for n in ast.walk(fn)):
            raise Unsupp('generator %s' % fn.name)
        if any(ast.unparse(d) in ('staticmethod', 'classmethod', 'property') for d in fn.decorator_list):
            raise Unsupp('decorated %s' % fn.name)
        nc = Ctx(self, mod, c.depth + 1, selfkind, cls)
        if selfkind == 'obj':
            if isinstance(self_expr, ast.Name) and self_expr.id in c.names:
                nc.names['self'] = c.names[self_expr.id]          # the same object, not a copy
                self.share_state(c, nc)
            else:
                v = self.expr(self_expr, c, pre)
                nc.names['self'] = self.fresh('self')
                pre.append('SLet %s %s' % (q(nc.names['self']), v))
        self.bind_params(fn, call, c, nc, pre, skip_self=selfkind is not None)
        nc.ret = self.fresh('ret')
        pre.append('SLet %s (EConst PNone)' % q(nc.ret))
        body, _ = self.block(self.strip_doc(fn.body), nc)
        pre.extend(body)
        if len(nc.retinfo['msgs']) == 1 and not nc.retinfo['other']:
            return ('msg', list(nc.retinfo['msgs'])[0])
        return '(EVar %s)' % q(nc.ret)

    @staticmethod
    def strip_doc(body):
        return [s for s in body if not (isinstance(s, ast.Expr) and isinstance(s.value, ast.Constant)
                                        and isinstance(s.value.value, str))]

    def class_chain(self, mod, cname):
        """[(mod, ClassDef)] from the class up through its bases defined in the package"""
        out = []
        seen = set()
        todo = [(mod, cname)]
        while todo:
            m, n = todo.pop(0)
            if (m.rel, n) in seen:
                continue
            seen.add((m.rel, n))
            hit = self.find_class(m, n)
            if hit is None:
                continue
            m2, n2 = hit
            cd = m2.classes[n2]
            out.append((m2, cd))
            for b in cd.bases:
                if isinstance(b, ast.Name):
                    todo.append((m2, b.id))
        return out

    def class_method(self, mod, cname, meth):
        for m, cd in self.class_chain(mod, cname):
            for s in cd.body:
                if isinstance(s, ast.FunctionDef) and s.name == meth:
                    return m, cd, s
        return None

    def shared_mutables(self, mod, cname):
        """class-level attributes bound to a mutable display (list / dict / set)"""
        out = set()
        for m, cd in self.class_chain(mod, cname):
            for s in cd.body:
                if isinstance(s, ast.Assign) and isinstance(s.value, (ast.List, ast.Dict, ast.Set)):
                    for t in s.targets:
                        if isinstance(t, ast.Name) and not t.id.startswith('__') and not t.id.isupper() \
                                and not t.id.startswith('_'):
                            out.add(t.id)
        return out

    def construct(self, mod, cname, call, c, pre):
        """Cls(args): instance creation; State subclasses: properties default to None, then _from_response"""
        chain = self.class_chain(mod, cname)
        names = [cd.name for _, cd in chain]
        obj = self.fresh('obj')
        props = []
        for m, cd in chain:
            for s in cd.body:
                if isinstance(s, ast.Assign) and any(isinstance(t, ast.Name) and t.id == '__properties__' for t in s.targets):
                    props = [x.elts[0].value for x in s.value.elts]
                    break
            if props:
                break
        # class-level data attributes are visible through the instance: they are its initial attributes,
        # then DefaultProperties sets the declared properties to None
        inits = {}
        for m, cd in reversed(chain):
            for s in cd.body:
                if isinstance(s, ast.Assign) and len(s.targets) == 1 and isinstance(s.targets[0], ast.Name):
                    n = s.targets[0].id
                    if n.startswith('_') or n.isupper() or n != n.lower():
                        continue
                    if isinstance(s.value, ast.List) and not s.value.elts:
                        inits[n] = '(PList [])'
                    else:
                        try:
                            inits[n] = pv_of(m.const_of(s.value))
                        except Unsupp:
                            pass
        for p_ in props:
            inits[p_] = 'PNone'
        pre.append('SNewObj %s %s [%s]' % (q(obj), q(cname), '; '.join('(%s, %s)' % (q(k), v) for k, v in inits.items())))
        init = self.class_method(mod, cname, '__init__')
        nc = Ctx(self, mod, c.depth + 1, 'obj', cname)
        nc.names['self'] = obj
        nc.objcls['self'] = cname
        nc.fresh_obj = True
        nc.assigned = set()
        nc.shared = self.shared_mutables(mod, cname)
        if init is None or init[1].name in ('State',):
            # State.__init__(self, rsp=None)
            self.state_init(mod, cname, call.args[0] if call.args else None, c, nc, pre)
        else:
            im, icd, ifn = init
            nc.mod = im
            self.bind_params(ifn, call, c, nc, pre, skip_self=True)
            nc.ret = self.fresh('ret')
            body, _ = self.block(self.strip_doc(ifn.body), nc)
            pre.extend(body)
        return '(EVar %s)' % q(obj)

    def state_init(self, mod, cname, arg, c, nc, pre):
        """DefaultProperties.__init__ (done by SNewObj) ; `if rsp: self._from_response(rsp)`"""
        if arg is None:
            return
        v = self.expr_m(arg, c, pre)
        if not (isinstance(v, tuple) and v[0] == 'msg'):
            # a non-message argument (SelEntry(data), ...): outside the fragment
            raise Unsupp('%s constructed from a non-message value' % cname)
        mv = v[1]
        fr = self.class_method(mod, cname, '_from_response') or self.class_method(mod, cname, '_from_rsp')
        if fr is None:
            raise Unsupp('%s has no _from_response' % cname)
        fm, fcd, ffn = fr
        nc2 = Ctx(self, fm, nc.depth, 'obj', cname)
        nc2.names['self'] = nc.names['self']
        nc2.objcls['self'] = cname
        nc2.assigned = nc.assigned
        nc2.shared = nc.shared
        nc2.msgs[ffn.args.args[1].arg] = mv
        nc2.ret = self.fresh('ret')
        body, _ = self.block(self.strip_doc(ffn.body), nc2)
        pre.extend(body)

    # ---- statements ----
    def block(self, stmts, c):
        """-> (coq statements, always_returns)"""
        out = []
        for i, s in enumerate(stmts):
            self.nstmts += 1
            if isinstance(s, ast.Return):
                if s.value is None:
                    c.retinfo['other'] = True
                    out.append('SLet %s (EConst PNone)' % q(c.ret))
                else:
                    v = self.expr_m(s.value, c, out)
                    if isinstance(v, tuple):
                        c.retinfo['msgs'].add(v[1])
                        v = '(EMsg %s)' % q(v[1])
                    else:
                        c.retinfo['other'] = True
                    out.append('SLet %s %s' % (q(c.ret), v))
                return out, True
            if isinstance(s, ast.Raise):
                out.append(self.raise_stmt(s, c))
                return out, True
            if isinstance(s, ast.If):
                test = self.expr(s.test, c, out)
                ca, cb = c.child_copy(), c.child_copy()
                self.share_state(c, ca), self.share_state(c, cb)
                a, ra = self.block(s.body, ca)
                b, rb = self.block(s.orelse, cb)
                rest = stmts[i + 1:]
                if ra or rb:
                    if not ra:
                        x, ra = self.block(rest, ca)
                        a += x
                    if not rb:
                        x, rb = self.block(rest, cb)
                        b += x
                    out.append('SIf %s [%s] [%s]' % (test, '; '.join(a), '; '.join(b)))
                    return out, ra and rb
                # names bound in a branch stay visible afterwards
                for cc in (ca, cb):
                    for k, v in cc.names.items():
                        c.names.setdefault(k, v)
                    for k, v in cc.objcls.items():
                        c.objcls.setdefault(k, v)
                out.append('SIf %s [%s] [%s]' % (test, '; '.join(a), '; '.join(b)))
                continue
            out.extend(self.simple(s, c))
        return out, False

    @staticmethod
    def share_state(c, cc):
        for k in ('assigned', 'shared', 'fresh_obj'):
            if hasattr(c, k):
                setattr(cc, k, getattr(c, k))

    def raise_stmt(self, s, c):
        if s.exc is None:
            raise Unsupp('bare raise')
        n = s.exc.func if isinstance(s.exc, ast.Call) else s.exc
        name = n.id if isinstance(n, ast.Name) else getattr(n, 'attr', None)
        if name not in ERRS:
            raise Unsupp('raise %s' % name)
        return 'SRaise %s' % ERRS[name]

    def simple(self, s, c):
        out = []
        if isinstance(s, ast.Pass):
            return out
        if isinstance(s, ast.Expr):
            v = s.value
            if isinstance(v, ast.Call):
                f = v.func
                if isinstance(f, ast.Name) and f.id in ('check_completion_code', 'check_rsp_completion_code') and len(v.args) == 1:
                    a = v.args[0]
                    if f.id == 'check_completion_code':
                        if not (isinstance(a, ast.Attribute) and a.attr == 'completion_code' and isinstance(a.value, ast.Name)
                                and a.value.id in c.msgs):
                            raise Unsupp('check_completion_code of %s' % ast.unparse(a))
                        out.append('SCheck %s' % q(c.msgs[a.value.id]))
                    else:
                        if not (isinstance(a, ast.Name) and a.id in c.msgs):
                            raise Unsupp('check_rsp_completion_code of %s' % ast.unparse(a))
                        out.append('SCheck %s' % q(c.msgs[a.id]))
                    return out
                if isinstance(f, ast.Name) and f.id == 'setattr' and len(v.args) == 3:
                    key = self.const_name(v.args[1], c)
                    if not isinstance(key, str):
                        raise Unsupp('setattr with a non-constant name')
                    tgt = ast.Attribute(value=v.args[0], attr=key, ctx=ast.Store())
                    return self.assign(tgt, v.args[2], c)
                if isinstance(f, ast.Attribute) and f.attr == 'append' and len(v.args) == 1:
                    tgt = f.value
                    val = self.expr(v.args[0], c, out)
                    if isinstance(tgt, ast.Attribute) and isinstance(tgt.value, ast.Name) and tgt.value.id == 'self' \
                            and c.selfkind == 'obj':
                        if tgt.attr in getattr(c, 'shared', ()) and tgt.attr not in getattr(c, 'assigned', ()):
                            raise Unsupp('SharedMutable: %s.%s is a class-level list mutated in place' % (c.cls, tgt.attr))
                        out.append('SAppendAttr %s %s %s' % (q(c.names['self']), q(tgt.attr), val))
                        return out
                    if isinstance(tgt, ast.Name) and tgt.id in c.names:
                        out.append('SAppend %s %s' % (q(c.names[tgt.id]), val))
                        return out
                    raise Unsupp('append on %s' % ast.unparse(tgt))
                if isinstance(f, ast.Attribute) and isinstance(f.value, ast.Call) and ast.unparse(f.value.func) == 'super' \
                        and f.attr == '__init__':
                    # super(X, self).__init__(rsp)
                    self.state_init(c.mod, c.cls, v.args[0] if v.args else None, c, c, out)
                    return out
                r = self.expr(v, c, out)        # inlined call, result dropped
                return out
            if isinstance(v, ast.Constant):
                return out
            raise Unsupp('expression statement %s' % ast.unparse(v)[:40])
        if isinstance(s, ast.Assign):
            if len(s.targets) != 1:
                raise Unsupp('multiple assignment targets')
            return self.assign(s.targets[0], s.value, c)
        if isinstance(s, ast.AugAssign):
            if type(s.op) not in BINOPS:
                raise Unsupp('augmented %s' % type(s.op).__name__)
            cur = ast.copy_location(ast.BinOp(left=self.load(s.target), op=s.op, right=s.value), s)
            return self.assign(s.target, cur, c)
        if isinstance(s, ast.For):
            return self.unroll(s, c)
        raise Unsupp('statement %s' % type(s).__name__)

    @staticmethod
    def load(t):
        t2 = ast.parse(ast.unparse(t), mode='eval').body
        return t2

    def assign(self, t, value, c):
        out = []
        # request creation / exchanges bind message variables
        if isinstance(t, ast.Name) and isinstance(value, ast.Call):
            f = value.func
            if isinstance(f, ast.Name) and f.id == 'create_request_by_name':
                if not (len(value.args) == 1 and isinstance(value.args[0], ast.Constant) and isinstance(value.args[0].value, str)):
                    raise Unsupp('create_request_by_name with a non-literal name')
                mv = self.fresh(t.id)
                c.msgs[t.id] = mv
                c.names.pop(t.id, None)
                out.append('SNewReq %s %s' % (q(mv), q(value.args[0].value)))
                return out
            if (isinstance(f, ast.Attribute) and isinstance(f.value, ast.Name) and f.value.id == 'self'
                    and f.attr == 'send_message' and c.selfkind == 'ipmi'):
                if not (len(value.args) == 1 and isinstance(value.args[0], ast.Name) and value.args[0].id in c.msgs):
                    raise Unsupp('send_message of an unknown request')
                mv = self.fresh(t.id)
                out.append('SSend %s %s false' % (q(mv), q(c.msgs[value.args[0].id])))
                c.msgs[t.id] = mv
                c.names.pop(t.id, None)
                return out
            if isinstance(f, ast.Name) and f.id == 'dict' and not value.args and value.keywords:
                c.dicts[t.id] = [(kw.arg, kw.value) for kw in value.keywords]
                return out
        if isinstance(t, ast.Name) and isinstance(value, ast.Tuple) and all(isinstance(x, ast.Constant) for x in value.elts):
            c.tuples[t.id] = list(value.elts)
            # also usable as a value
        if isinstance(t, ast.Name) and isinstance(value, ast.Dict) and not value.keys:
            lv = c.local(t.id)
            out.append('SNewObj %s "dict" []' % q(lv))
            return out
        v = self.expr_m(value, c, out)
        if isinstance(t, ast.Name):
            if isinstance(v, tuple) and v[0] == 'msg':
                c.msgs[t.id] = v[1]
                c.names.pop(t.id, None)
                return out
            c.msgs.pop(t.id, None)
            out.append('SLet %s %s' % (q(c.local(t.id)), v))
            if isinstance(value, ast.Call) and isinstance(value.func, ast.Name):
                hit = self.find_class(c.mod, value.func.id)
                if hit:
                    c.objcls[t.id] = hit[1]
            return out
        if isinstance(v, tuple):
            v = '(EMsg %s)' % q(v[1])
        if isinstance(t, ast.Tuple):
            if not all(isinstance(x, ast.Name) for x in t.elts):
                raise Unsupp('tuple target')
            tmp = self.fresh('tup')
            out.append('SLet %s %s' % (q(tmp), v))
            for i, x in enumerate(t.elts):
                out.append('SLet %s (EIndex (EVar %s) (EConst (PInt %d)))' % (q(c.local(x.id)), q(tmp), i))
            return out
        if isinstance(t, ast.Attribute):
            chain = []
            n = t
            while isinstance(n, ast.Attribute):
                chain.append(n.attr)
                n = n.value
            chain.reverse()
            if isinstance(n, ast.Name):
                base = n.id
                if base in c.msgs:
                    if len(chain) > 2:
                        raise Unsupp('assignment to %s' % ast.unparse(t))
                    out.append('SSetField %s [%s] %s' % (q(c.msgs[base]), '; '.join(q(x) for x in chain), v))
                    return out
                if base == 'self' and c.selfkind == 'obj' and len(chain) == 1:
                    if hasattr(c, 'assigned'):
                        c.assigned.add(chain[0])
                    out.append('SSetAttr %s %s %s' % (q(c.names['self']), q(chain[0]), v))
                    return out
                if base in c.names and len(chain) == 1:
                    out.append('SSetAttr %s %s %s' % (q(c.names[base]), q(chain[0]), v))
                    return out
            raise Unsupp('assignment to %s' % ast.unparse(t))
        if isinstance(t, ast.Subscript) and isinstance(t.value, ast.Name) and t.value.id in c.names:
            key = t.slice
            if isinstance(key, ast.Name) and key.id in c.subst:
                key = c.subst[key.id]
            if isinstance(key, ast.Constant) and isinstance(key.value, str):
                out.append('SSetKey %s %s %s' % (q(c.names[t.value.id]), q(key.value), v))
                return out
        raise Unsupp('assignment to %s' % ast.unparse(t)[:40])

    def unroll(self, s, c):
        if s.orelse or any(isinstance(x, (ast.Break, ast.Continue)) for x in ast.walk(s)):
            raise Unsupp('loop with break/continue/else')
        it = s.iter
        items = None          # list of {name: ast node}
        if isinstance(it, ast.Name) and it.id in c.tuples and isinstance(s.target, ast.Name):
            items = [{s.target.id: e} for e in c.tuples[it.id]]
        elif isinstance(it, (ast.Tuple, ast.List)) and isinstance(s.target, ast.Name) \
                and all(isinstance(x, (ast.Constant, ast.Name)) for x in it.elts):
            items = [{s.target.id: e} for e in it.elts]
        elif (isinstance(it, ast.Call) and isinstance(it.func, ast.Attribute) and it.func.attr == 'items'
              and isinstance(it.func.value, ast.Name) and it.func.value.id in c.dicts
              and isinstance(s.target, ast.Tuple) and len(s.target.elts) == 2):
            k, v = s.target.elts
            items = [{k.id: ast.Constant(value=key), v.id: val} for key, val in c.dicts[it.func.value.id]]
        elif isinstance(it, ast.Call) and ast.unparse(it.func) == 'range' and isinstance(s.target, ast.Name) \
                and all(isinstance(a, ast.Constant) for a in it.args) and 1 <= len(it.args) <= 2:
            r = range(*[a.value for a in it.args])
            if len(r) > 64:
                raise Unsupp('range too long to unroll')
            items = [{s.target.id: ast.Constant(value=i)} for i in r]
        elif (isinstance(it, ast.Call) and isinstance(it.func, ast.Attribute) and it.func.attr == 'keys'
              and ast.unparse(it.func.value).startswith('self.') and c.selfkind == 'obj' and isinstance(s.target, ast.Name)):
            attr = it.func.value.attr
            keys = None
            for m, cd in self.class_chain(c.mod, c.cls):
                for st in cd.body:
                    if isinstance(st, ast.Assign) and isinstance(st.value, ast.Dict) and \
                            any(isinstance(t, ast.Name) and t.id == attr for t in st.targets):
                        keys = st.value.keys
            if keys is None or not all(isinstance(k, ast.Constant) for k in keys):
                raise Unsupp('loop over %s' % ast.unparse(it))
            items = [{s.target.id: k} for k in keys]
        if items is None:
            raise Unsupp('loop over %s' % ast.unparse(it)[:40])
        out = []
        saved = dict(c.subst)
        for binding in items:
            c.subst.update(binding)
            body, ret = self.block(s.body, c)
            if ret:
                raise Unsupp('return inside a loop')
            out.extend(body)
        c.subst = saved
        return out

    # ---- one operation ----
    def operation(self, clsname, fn, modname):
        mod = Mod.get(self.pkg, modname + '.py')
        params = []
        try:
            if fn.args.vararg or fn.args.kwarg or fn.args.kwonlyargs:
                raise Unsupp('*args/**kwargs')
            c = Ctx(self, mod, 0, 'ipmi')
            ps = fn.args.args[1:]
            defaults = [None] * (len(ps) - len(fn.args.defaults)) + list(fn.args.defaults)
            for p, d in zip(ps, defaults):
                c.names[p.arg] = p.arg
                if d is None:
                    params.append('(%s, None)' % q(p.arg))
                else:
                    params.append('(%s, Some %s)' % (q(p.arg), pv_of(mod.const_of(d))))
            c.ret = 'ret$'
            self.nstmts = 0
            body, _ = self.block(self.strip_doc(fn.body), c)
            body = ['SLet "ret$" (EConst PNone)'] + body
        except Unsupp as e:
            body = ['SUnsupported %s' % q(str(e))]
        except RecursionError:
            body = ['SUnsupported "recursion"']
        import re
        fuel = 2 * sum(len(re.findall(r'\bS(?:Let|NewReq|SetField|Send|Check|NewObj|SetAttr|AppendAttr|Append|SetKey|If|Raise|Unsupported)\b', b))
                       for b in body) + 8
        return ('mkCop %s %s [%s]\n    [%s]\n    (EVar "ret$") %d'
                % (q(clsname), q(fn.name), '; '.join(params), ';\n     '.join(body), min(fuel, 4000)))


def mutable_defaults(R):
    """constructor defaults of Ipmi that are mutable objects shared by all instances"""
    out = []
    init = [n for n in R.ipmi.body if isinstance(n, ast.FunctionDef) and n.name == '__init__']
    if not init:
        return out
    fn = init[0]
    ps = fn.args.args[1:]
    defaults = [None] * (len(ps) - len(fn.args.defaults)) + list(fn.args.defaults)
    for p, d in zip(ps, defaults):
        if d is None or isinstance(d, ast.Constant):
            continue
        if isinstance(d, (ast.List, ast.Dict, ast.Set)):
            out.append('Ipmi.__init__(%s=%s)' % (p.arg, ast.unparse(d)))
        elif isinstance(d, ast.Call) and isinstance(d.func, ast.Name):
            if class_has_state(R, d.func.id):
                out.append('Ipmi.__init__(%s=%s)' % (p.arg, ast.unparse(d)))
        else:
            out.append('Ipmi.__init__(%s=%s)' % (p.arg, ast.unparse(d)))
    return out


def class_has_state(R, name):
    """does class `name` (defined in or imported into pyipmi/__init__.py) have instance or class-level mutable state"""
    mod = Mod.get(R.pkg, '__init__.py')
    hit = None
    if name in mod.classes:
        hit = mod.classes[name]
    elif name in mod.imports and mod.imports[name][0] == 'name':
        m = Mod.get(R.pkg, mod.imports[name][1])
        hit = m.classes.get(mod.imports[name][2])
    if hit is None:
        return True
    for n in ast.walk(hit):
        if isinstance(n, ast.Attribute) and isinstance(n.value, ast.Name) and n.value.id == 'self' and isinstance(n.ctx, ast.Store):
            return True
    for s in hit.body:
        if isinstance(s, ast.Assign) and isinstance(s.value, (ast.List, ast.Dict, ast.Set)):
            return True
    return False


def emit_content(R, repo):
    T = Translator(R)
    out = ['(* GENERATED by gen/gen_api.py (apifrag) from %s - do not edit *)' % repo,
           'From Coq Require Import String Ascii.', 'From Coq Require Import NArith ZArith List.',
           'From PyIpmi Require Import Lib.Res Lib.Bytes Model.Codec Model.ApiSem.', 'Import ListNotations.',
           'Open Scope string_scope.', 'Open Scope Z_scope.', '']
    names = []
    for modname, cd, mod in R.classes:
        if cd is R.ipmi:
            continue
        for n in cd.body:
            if not isinstance(n, ast.FunctionDef) or n.name.startswith('_'):
                continue
            if R.methods[n.name][0] != cd.name:
                continue
            ident = 'cop_%s_%s' % (cd.name, n.name)
            names.append(ident)
            out.append('Definition %s : cop := %s.' % (ident, T.operation(cd.name, n, modname)))
    out.append('')
    out.append('Definition api_content : list cop := [\n  %s].' % ';\n  '.join(names))
    out.append('')
    tabs = []
    for tn, entries in sorted(T.tables_used.items()):
        tabs.append('(%s, [%s])' % (q(tn), '; '.join('(%s, %s)' % (pv_of(k), pv_of(v)) for k, v in entries)))
    out.append('Definition api_tables : list (string * table) := [\n  %s].' % ';\n  '.join(tabs))
    out.append('')
    out.append('(* constructor defaults of Ipmi that are mutable objects shared by every instance *)')
    out.append('Definition shared_defaults : list string := [%s].' % '; '.join(q(x) for x in mutable_defaults(R)))
    return '\n'.join(out) + '\n'
