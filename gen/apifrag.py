"""Part 2 of gen_api.py (C07): the CONTENT of the straight-line API methods -> coq/Gen/ApiContent.v.

For every public method of the Ipmi mix-ins the body is translated into the statement /
expression types of coq/Model/ApiSem.v.  Calls to other methods of self, to module-level
helpers and to State-class constructors (their __init__ / _from_response) are INLINED (fresh
local names), `for` loops over literal tuples / dict(...) items / range(const) are UNROLLED,
and `return` is brought into tail position.  Everything outside the fragment makes the whole
operation `SUnsupported "<reason>"` (fail closed) - it is then listed as uncovered.

Refused on purpose (C07 purity):  SharedMutable - a result class that mutates a class-level list /
dict in place (ChassisStatus.last_event.append(...) without a prior assignment in the instance), and
constructors of Ipmi with mutable default arguments (listed in `shared_defaults`).

Nothing is imported from /repo; module constants, Enum members and CONVERT_* dictionaries are
evaluated from the ast.
"""
import ast
import os


class Unsupp(Exception):
    pass


def q(s):
    return '"%s"' % str(s).replace('"', '""')


def zlit(n):
    return '(%d)' % n if n < 0 else '%d' % n


# ---------------------------------------------------------------------------------------------
# module information (constants, enums, tables, functions, classes, imports)
# ---------------------------------------------------------------------------------------------
class Mod:
    cache = {}

    def __init__(self, pkg, rel):
        self.pkg, self.rel = pkg, rel
        path = os.path.join(pkg, rel)
        self.tree = ast.parse(open(path).read(), filename=path)
        self.consts = {}       # name -> python constant (int / str / tuple / ('range', lo, hi))
        self.tables = {}       # name -> list of (key const, value const)
        self.enums = {}        # class name -> {member: value}
        self.funcs = {}        # name -> FunctionDef
        self.classes = {}      # name -> ClassDef
        self.imports = {}      # local name -> ('mod', Mod) | ('name', Mod, original)
        self._scan()

    @classmethod
    def get(cls, pkg, rel):
        key = (pkg, rel)
        if key not in cls.cache:
            cls.cache[key] = Mod(pkg, rel)
        return cls.cache[key]

    def _resolve_import(self, module, level):
        base = os.path.dirname(self.rel)
        parts = (module or '').split('.') if module else []
        if level == 0:
            return None
        d = base
        for _ in range(level - 1):
            d = os.path.dirname(d)
        cand = os.path.join(d, *parts)
        for rel in (cand + '.py', os.path.join(cand, '__init__.py')):
            if os.path.exists(os.path.join(self.pkg, rel)):
                return rel
        return None

    def _scan(self):
        for n in self.tree.body:
            if isinstance(n, ast.ImportFrom):
                rel = self._resolve_import(n.module, n.level)
                for a in n.names:
                    local = a.asname or a.name
                    sub = self._resolve_import(((n.module + '.') if n.module else '') + a.name, n.level)
                    if sub is not None and (rel is None or os.path.basename(rel) == '__init__.py'):
                        self.imports[local] = ('mod', sub)
                    elif rel is not None:
                        self.imports[local] = ('name', rel, a.name)
            elif isinstance(n, ast.FunctionDef):
                self.funcs[n.name] = n
            elif isinstance(n, ast.ClassDef):
                self.classes[n.name] = n
                bases = [ast.unparse(b) for b in n.bases]
                if 'Enum' in bases:
                    mem = {}
                    for s in n.body:
                        if isinstance(s, ast.Assign) and len(s.targets) == 1 and isinstance(s.targets[0], ast.Name):
                            try:
                                v = ast.literal_eval(s.value)
                            except Exception:
                                continue
                            if isinstance(v, tuple) and len(v) == 1 and 'str' in bases:
                                v = v[0]          # class X(str, Enum): A = "a",   -> str("a")
                            mem[s.targets[0].id] = v
                    self.enums[n.name] = mem
        for n in self.tree.body:
            if isinstance(n, ast.Assign) and len(n.targets) == 1 and isinstance(n.targets[0], ast.Name):
                name = n.targets[0].id
                if isinstance(n.value, ast.Dict):
                    try:
                        self.tables[name] = [(self.const_of(k), self.const_of(v)) for k, v in zip(n.value.keys, n.value.values)]
                    except Unsupp:
                        pass
                    continue
                if isinstance(n.value, ast.DictComp) or (isinstance(n.value, ast.Call) and isinstance(n.value.func, ast.Name)
                                                          and n.value.func.id == 'dict'):
                    # a table derived from other tables / constants ({v: k for k, v in OTHER.items()}, dict(zip(..)))
                    try:
                        v = self.safe_eval(n.value, want_dict=True)
                        self.tables[name] = [(self.freeze(k), self.freeze(x)) for k, x in v.items()]
                    except Unsupp:
                        pass
                    continue
                try:
                    self.consts[name] = self.const_of(n.value)
                except Unsupp:
                    pass

    def const_of(self, e):
        """python constant denoted by a module-level expression"""
        if isinstance(e, ast.Constant) and isinstance(e.value, (int, str, bool, type(None))):
            return e.value
        if isinstance(e, ast.UnaryOp) and isinstance(e.op, ast.USub):
            return -self.const_of(e.operand)
        if isinstance(e, ast.Name):
            if e.id in self.consts:
                return self.consts[e.id]
            if e.id in self.imports and self.imports[e.id][0] == 'name':
                _, rel, orig = self.imports[e.id]
                m = Mod.get(self.pkg, rel)
                if orig in m.consts:
                    return m.consts[orig]
            raise Unsupp('unknown constant %s' % e.id)
        if isinstance(e, ast.Attribute) and isinstance(e.value, ast.Name):
            base = e.value.id
            if base in self.enums and e.attr in self.enums[base]:
                return self.enums[base][e.attr]
            if base in self.imports and self.imports[base][0] == 'mod':
                m = Mod.get(self.pkg, self.imports[base][1])
                if e.attr in m.consts:
                    return m.consts[e.attr]
            if base in self.imports and self.imports[base][0] == 'name':
                _, rel, orig = self.imports[base]
                m = Mod.get(self.pkg, rel)
                if orig in m.enums and e.attr in m.enums[orig]:
                    return m.enums[orig][e.attr]
                if orig in m.classes:
                    return m.class_const(orig, e.attr)
            if base in self.classes:
                return self.class_const(base, e.attr)
            raise Unsupp('unknown constant %s' % ast.unparse(e))
        if isinstance(e, (ast.Tuple, ast.List)):
            return tuple(self.const_of(x) for x in e.elts)
        if isinstance(e, ast.BinOp):
            a, b = self.const_of(e.left), self.const_of(e.right)
            ops = {ast.Add: lambda: a + b, ast.Sub: lambda: a - b, ast.Mult: lambda: a * b, ast.BitOr: lambda: a | b,
                   ast.LShift: lambda: a << b, ast.BitAnd: lambda: a & b}
            if type(e.op) in ops and isinstance(a, int) and isinstance(b, int):
                return ops[type(e.op)]()
        if (isinstance(e, ast.Call) and ast.unparse(e.func) == 'list' and len(e.args) == 1
                and isinstance(e.args[0], ast.Call) and ast.unparse(e.args[0].func) == 'range'):
            r = [self.const_of(x) for x in e.args[0].args]
            if len(r) == 2:
                return ('range', r[0], r[1])
            if len(r) == 1:
                return ('range', 0, r[0])
        return self.safe_eval(e)

    SAFE_BUILTINS = {'range': range, 'tuple': tuple, 'list': list, 'dict': dict, 'len': len, 'sum': sum, 'min': min,
                     'max': max, 'str': str, 'int': int, 'bool': bool, 'sorted': sorted, 'reversed': reversed,
                     'enumerate': enumerate, 'zip': zip, 'set': set, 'frozenset': frozenset, 'abs': abs}
    SAFE_METHODS = {'join', 'format', 'upper', 'lower', 'ljust', 'rjust', 'strip', 'split', 'replace', 'keys', 'values',
                    'items', 'get'}
    SAFE_NODES = (ast.Constant, ast.Name, ast.Load, ast.Store, ast.BinOp, ast.UnaryOp, ast.BoolOp, ast.Compare, ast.IfExp,
                  ast.Tuple, ast.List, ast.Dict, ast.Set, ast.Subscript, ast.Slice, ast.Attribute, ast.Call, ast.keyword,
                  ast.GeneratorExp, ast.ListComp, ast.SetComp, ast.DictComp, ast.comprehension, ast.operator, ast.unaryop,
                  ast.boolop, ast.cmpop, ast.JoinedStr, ast.FormattedValue, ast.Lambda, ast.arguments, ast.arg)

    def safe_eval(self, e, want_dict=False):
        """value of a pure constant expression (literals, known constants, pure builtins, str methods,
        comprehensions): evaluated from the ast with no access to anything else"""
        bound = set()
        for n in ast.walk(e):
            if not isinstance(n, self.SAFE_NODES):
                raise Unsupp('constant expression %s' % ast.unparse(e)[:40])
            if isinstance(n, ast.Name) and isinstance(n.ctx, ast.Store):
                bound.add(n.id)
            if isinstance(n, ast.arg):
                bound.add(n.arg)
            if isinstance(n, ast.arguments) and (n.vararg or n.kwarg or n.kwonlyargs or n.defaults or n.kw_defaults):
                raise Unsupp('constant expression %s' % ast.unparse(e)[:40])
            if isinstance(n, ast.Call):
                f = n.func
                if isinstance(f, ast.Name):
                    if f.id in bound:
                        raise Unsupp('constant expression calls the bound name %s' % f.id)
                    if f.id not in self.SAFE_BUILTINS:
                        raise Unsupp('constant expression calls %s' % f.id)
                elif not (isinstance(f, ast.Attribute) and f.attr in self.SAFE_METHODS):
                    raise Unsupp('constant expression %s' % ast.unparse(e)[:40])
        env = {}
        for n in ast.walk(e):
            if isinstance(n, ast.Name) and isinstance(n.ctx, ast.Load) and n.id not in bound \
                    and n.id not in self.SAFE_BUILTINS and n.id not in env:
                if n.id in self.tables and n.id not in self.consts:
                    try:
                        env[n.id] = dict(self.tables[n.id])
                        continue
                    except TypeError:
                        raise Unsupp('table %s has unhashable keys' % n.id)
                v = self.const_of(n)
                if isinstance(v, tuple) and len(v) == 3 and v[0] == 'range':
                    v = list(range(v[1], v[2]))
                env[n.id] = v
            if isinstance(n, ast.Attribute) and isinstance(n.value, ast.Name) and n.value.id not in bound \
                    and n.attr not in self.SAFE_METHODS:
                # X.Y: a constant of another module / an Enum member / a class constant
                key = '__attr_%s_%s' % (n.value.id, n.attr)
                env[key] = self.const_of(n) if (n.value.id in self.imports or n.value.id in self.enums
                                                or n.value.id in self.classes) else None
        class Rw(ast.NodeTransformer):
            def visit_Attribute(self2, n):
                if isinstance(n.value, ast.Name) and ('__attr_%s_%s' % (n.value.id, n.attr)) in env:
                    return ast.copy_location(ast.Name(id='__attr_%s_%s' % (n.value.id, n.attr), ctx=ast.Load()), n)
                return self2.generic_visit(n)
        tree = ast.Expression(body=Rw().visit(ast.parse(ast.unparse(e), mode='eval').body))
        ast.fix_missing_locations(tree)
        try:
            v = eval(compile(tree, '<const>', 'eval'), {'__builtins__': dict(self.SAFE_BUILTINS)}, env)
        except Unsupp:
            raise
        except Exception as ex:  # noqa
            raise Unsupp('constant expression %s: %s' % (ast.unparse(e)[:40], type(ex).__name__))
        if want_dict:
            if not isinstance(v, dict):
                raise Unsupp('constant expression %s is not a dict' % ast.unparse(e)[:40])
            return v
        return self.freeze(v)

    @staticmethod
    def freeze(v):
        if isinstance(v, (list, tuple)):
            return tuple(Mod.freeze(x) for x in v)
        if isinstance(v, (set, frozenset)):
            return tuple(sorted(Mod.freeze(x) for x in v))
        if isinstance(v, dict):
            return tuple((Mod.freeze(k), Mod.freeze(x)) for k, x in v.items())
        if isinstance(v, (int, str, bool, type(None))):
            return v
        raise Unsupp('constant of type %s' % type(v).__name__)

    def class_const(self, cname, attr):
        cd = self.classes[cname]
        for s in cd.body:
            if isinstance(s, ast.Assign) and len(s.targets) == 1 and isinstance(s.targets[0], ast.Name) \
                    and s.targets[0].id == attr:
                return self.const_of(s.value)
        raise Unsupp('unknown class constant %s.%s' % (cname, attr))


def pv_of(c):
    if isinstance(c, bool):
        return '(PBool %s)' % ('true' if c else 'false')
    if isinstance(c, int):
        return '(PInt %s)' % zlit(c)
    if c is None:
        return 'PNone'
    if isinstance(c, str):
        if any(ord(ch) > 126 or (ord(ch) < 32 and ord(ch) != 0) for ch in c):
            raise Unsupp('non-ASCII string constant')
        if '\x00' in c:
            # Coq string with NUL characters
            parts = ' ++ '.join('(String (Ascii.ascii_of_N 0) "")' if ch == '\x00' else q(ch) for ch in c)
            return '(PStr (%s))' % parts
        return '(PStr %s)' % q(c)
    if isinstance(c, tuple) and len(c) == 3 and c[0] == 'range':
        raise Unsupp('range constant used as a value')
    if isinstance(c, tuple):
        return '(PList [%s])' % '; '.join(pv_of(x) for x in c)
    raise Unsupp('constant of type %s' % type(c).__name__)


BINOPS = {ast.Add: 'Add', ast.Sub: 'Sub', ast.Mult: 'Mul', ast.FloorDiv: 'FloorDiv', ast.Mod: 'Mod',
          ast.BitAnd: 'BitAnd', ast.BitOr: 'BitOr', ast.BitXor: 'BitXor', ast.LShift: 'LShift', ast.RShift: 'RShift'}
CMPOPS = {ast.Eq: 'Eq', ast.NotEq: 'NotEq', ast.Lt: 'Lt', ast.LtE: 'LtE', ast.Gt: 'Gt', ast.GtE: 'GtE',
          ast.In: 'In', ast.NotIn: 'NotIn', ast.Is: 'Is', ast.IsNot: 'IsNot'}
ERRS = {'TypeError': '(OtherError TypeError)', 'ValueError': '(OtherError ValueError)',
        'AssertionError': '(OtherError AssertionError)', 'DecodingError': 'DecodingError',
        'EncodingError': 'EncodingError', 'HpmError': 'HpmError', 'NotImplementedError': '(OtherError NotImplementedErr)',
        'RetryError': 'RetryError', 'KeyError': '(OtherError KeyError)', 'IndexError': '(OtherError IndexError)'}
# Classes whose behaviour is modelled BY HAND in Model/ApiSem.v (builtins version_field, component_property).
# Guard: on every run the REAL class of the tree under test is evaluated on a fixed probe set and compared with the
# Python twin of the builtin below (the twin itself is tied to the Gallina builtin by the C07 correspondence run).
# A behavioural difference refuses the operations that use the builtin; a change of the source text alone does not.
def twin_bcd_minor(b):
    if b == 0xff:
        return ('ok', 0xff)
    if b > 0x99:
        return ('exc', 'DecodingError')
    hi, lo = b >> 4, b & 0xf
    if lo < 10:
        return ('ok', hi * 10 + lo)
    if lo == 10:
        return ('ok', hi)                  # "d " : int() strips the blank
    return ('exc', 'ValueError')


def twin_version_field(ma, mi):
    r = twin_bcd_minor(mi)
    return ('ok', (ma, r[1])) if r[0] == 'ok' else r


def twin_component_property(sel, data):
    def version(cls):
        if not data:
            return ('ok', (cls, {}))
        if len(data) < 2:
            return ('exc', 'IndexError')
        r = twin_bcd_minor(data[1])
        return ('ok', (cls, {'version': (data[0], r[1])})) if r[0] == 'ok' else r
    if sel == 0:
        if not data:
            return ('ok', ('ComponentPropertyGeneral', {}))
        cap = data[0]
        g = [['rollback_backup_not_supported', 'rollback_is_supported', 'rollback_is_supported', 'reserved'][cap & 3]]
        g += [n for i, n in ((2, 'prepartion'), (3, 'comparison'), (4, 'deferred_activation'),
                             (5, 'payload_cold_reset_required')) if cap >> i & 1]
        return ('ok', ('ComponentPropertyGeneral', {'general': g}))
    if sel == 1:
        return version('ComponentPropertyCurrentVersion')
    if sel == 2:
        if not data:
            return ('ok', ('ComponentPropertyDescriptionString', {}))
        return ('ok', ('ComponentPropertyDescriptionString', {'description': ''.join(chr(x) for x in data if x)}))
    if sel == 3:
        return version('ComponentPropertyRollbackVersion')
    if sel == 4:
        return version('ComponentPropertyDeferredVersion')
    if 192 <= sel < 255:
        return ('exc', 'NotImplementedError')
    return ('ok', None)


_BEHAVIOUR = {}


def behaviour_ok(repo, which):
    """does the real class behave like the twin on the probe set? -> (bool, first difference)"""
    if (repo, which) in _BEHAVIOUR:
        return _BEHAVIOUR[(repo, which)]
    import sys
    from array import array
    saved = list(sys.path)
    sys.path.insert(0, repo)
    try:
        for m in [m for m in sys.modules if m == 'pyipmi' or m.startswith('pyipmi.')]:
            del sys.modules[m]
        import pyipmi.fields as fields
        import pyipmi.hpm as hpm

        def canon_v(v):
            return (v.major, v.minor)

        def attempt(f):
            try:
                return ('ok', f())
            except Exception as e:  # noqa
                return ('exc', type(e).__name__)
        res = (True, None)
        if which == 'version_field':
            for ma in (0, 1, 127, 255):
                for mi in range(256):
                    got = attempt(lambda: canon_v(fields.VersionField((ma, mi))))
                    if got != twin_version_field(ma, mi):
                        res = (False, 'VersionField((%d, %d)) gives %r, the builtin %r' % (ma, mi, got, twin_version_field(ma, mi)))
                        break
                if not res[0]:
                    break
        else:
            probes = []
            for sel in (0, 1, 2, 3, 4, 5, 100, 192, 254, 255):
                probes += [(sel, []), (sel, [7]), (sel, [1, 0x23, 0, 0, 0, 1]), (sel, [66, 79, 79, 84, 0, 0, 0, 0, 0, 0, 0, 0])]
            probes += [(0, [x]) for x in range(256)]
            probes += [(sel, [3, mi, 9, 8, 7, 6]) for sel in (1, 3, 4) for mi in range(256)]
            probes += [(sel, [3, mi]) for sel in (1, 3) for mi in (0, 0x10, 0x99, 0xff, 0x1a, 0x1b, 0xa0)]
            probes += [(2, [65 + (i * 7) % 26 for i in range(n)] + [0] * (12 - n)) for n in range(13)]

            def canon_p(o):
                if o is None:
                    return None
                d = {}
                for k, v in vars(o).items():
                    d[k] = canon_v(v) if type(v).__name__ == 'VersionField' else list(v) if isinstance(v, (list, tuple)) else v
                return (type(o).__name__, d)
            for sel, data in probes:
                got = attempt(lambda: canon_p(hpm.ComponentProperty.from_data(sel, array('B', data))))
                want = twin_component_property(sel, data)
                if got != want:
                    res = (False, 'ComponentProperty.from_data(%d, %r) gives %r, the builtin %r' % (sel, data, got, want))
                    break
    except Exception as e:  # noqa
        res = (False, 'probe failed: %s: %s' % (type(e).__name__, e))
    finally:
        sys.path[:] = saved
    _BEHAVIOUR[(repo, which)] = res
    return res


GUID_FMT = '%02x%02x%02x%02x-%02x%02x-%02x%02x-%02x%02x-%02x%02x%02x%02x%02x%02x'
MAX_INLINE = 6


class Ctx:
    """translation context of one (possibly inlined) function body"""

    def __init__(self, T, mod, depth, selfkind, cls=None):
        self.T, self.mod, self.depth, self.selfkind, self.cls = T, mod, depth, selfkind, cls
        self.names = {}        # python local name -> coq local name
        self.msgs = {}         # python name -> coq message variable name
        self.subst = {}        # python name -> ast node (loop unrolling, dict(...) literals)
        self.objcls = {}       # python name -> class name of the instance bound to it (when known)
        self.dicts = {}        # python name -> list of (key str, ast value) for x = dict(a=a, ...)
        self.tuples = {}       # python name -> list of ast nodes for x = (c1, c2, ...)
        self.ret = None
        self.retinfo = {'msgs': set(), 'other': False}
        self.aliases = {}      # python name -> (python message variable, field): x = msg.field
        self.fn = None         # the FunctionDef being translated (for "assigned once, never mutated" checks)
        self.ipmi = 'self' if selfkind == 'ipmi' else None     # python name of the connection object in this body
        self.clsnames = {}     # python name -> (Mod, class name): the `cls` parameter of an inlined classmethod

    def child_copy(self):
        c = Ctx(self.T, self.mod, self.depth, self.selfkind, self.cls)
        # one Python function has one flat scope: the local-name map is shared by all branches
        c.names, c.msgs, c.subst = self.names, dict(self.msgs), dict(self.subst)
        c.objcls, c.dicts, c.tuples, c.ret = dict(self.objcls), dict(self.dicts), dict(self.tuples), self.ret
        c.retinfo = self.retinfo
        c.fn = self.fn
        c.aliases = self.aliases
        c.ipmi, c.clsnames = self.ipmi, self.clsnames
        if hasattr(self, 'clsmod'):
            c.clsmod = self.clsmod
        return c

    def local(self, name):
        if name not in self.names:
            self.names[name] = self.T.fresh(name)
        return self.names[name]


class Translator:
    def __init__(self, R):
        self.R = R
        self.pkg = R.pkg
        self.counter = 0
        self.tables_used = {}     # coq table name -> entries
        self.nstmts = 0
        self.widened = False      # second attempt of an operation: constant tests folded, None arguments propagated

    def fresh(self, base):
        self.counter += 1
        return '%s$%d' % (base, self.counter)

    # ---- expressions ----
    def expr(self, e, c, pre):
        """-> coq pexp (a string); statements needed first (inlined calls) are appended to `pre`"""
        v = self.expr_m(e, c, pre)
        if isinstance(v, tuple):
            return '(EMsg %s)' % q(v[1])
        return v

    def expr_m(self, e, c, pre):
        """like expr, but a message object is returned as ('msg', coq message variable)"""
        if isinstance(e, ast.Constant):
            if isinstance(e.value, (int, str, bool, type(None))):
                return '(EConst %s)' % pv_of(e.value)
            raise Unsupp('constant %r' % (e.value,))
        if isinstance(e, ast.Name):
            if e.id in c.subst:
                return self.expr_m(c.subst[e.id], c, pre)
            if e.id in c.msgs:
                return ('msg', c.msgs[e.id])
            if e.id in c.aliases and c.aliases[e.id][0] in c.msgs:
                # a name for a sub-object of a message, read as a value: its content at this moment
                return '(EField %s [%s])' % (q(c.msgs[c.aliases[e.id][0]]), q(c.aliases[e.id][1]))
            if e.id in c.names:
                return '(EVar %s)' % q(c.names[e.id])
            if c.ipmi is not None and e.id == c.ipmi:
                raise Unsupp('the connection object is used as a value')
            try:
                k = c.mod.const_of(e)
            except Unsupp:
                raise Unsupp('unknown name %s' % e.id)
            return self.const_expr(k)
        if isinstance(e, ast.Attribute):
            return self.attribute(e, c, pre)
        if isinstance(e, ast.Subscript):
            if isinstance(e.value, ast.Name) and e.value.id in c.mod.tables and not isinstance(e.slice, ast.Slice):
                return '(ETable %s %s None)' % (q(self.table(c.mod, e.value.id)), self.expr(e.slice, c, pre))
            v = self.expr(e.value, c, pre)
            if isinstance(e.slice, ast.Slice):
                if e.slice.step is not None:
                    raise Unsupp('slice with step')
                lo = 'None' if e.slice.lower is None else '(Some %s)' % self.expr(e.slice.lower, c, pre)
                hi = 'None' if e.slice.upper is None else '(Some %s)' % self.expr(e.slice.upper, c, pre)
                return '(ESlice %s %s %s)' % (v, lo, hi)
            return '(EIndex %s %s)' % (v, self.expr(e.slice, c, pre))
        if (isinstance(e, ast.BinOp) and isinstance(e.op, ast.Mod) and self.const_name(e.left, c) == GUID_FMT
                and ast.unparse(e.right).startswith('tuple(reversed(')
                and isinstance(e.right, ast.Call) and len(e.right.args) == 1 and len(e.right.args[0].args) == 1):
            return '(ECall "guid_string" [%s])' % self.expr(e.right.args[0].args[0], c, pre)
        if isinstance(e, ast.BinOp):
            if type(e.op) not in BINOPS:
                raise Unsupp('operator %s' % type(e.op).__name__)
            return '(EBin %s %s %s)' % (BINOPS[type(e.op)], self.expr(e.left, c, pre), self.expr(e.right, c, pre))
        if isinstance(e, ast.Compare):
            if len(e.ops) != 1:
                raise Unsupp('chained comparison')
            return '(ECmp %s %s %s)' % (CMPOPS[type(e.ops[0])], self.expr(e.left, c, pre),
                                        self.expr(e.comparators[0], c, pre))
        if isinstance(e, ast.UnaryOp):
            if isinstance(e.op, ast.Not):
                return '(ENot %s)' % self.expr(e.operand, c, pre)
            if isinstance(e.op, ast.USub) and isinstance(e.operand, ast.Constant):
                return '(EConst %s)' % pv_of(-e.operand.value)
            raise Unsupp('unary operator %s' % type(e.op).__name__)
        if isinstance(e, ast.BoolOp):
            sub = []
            vals = [self.expr(v, c, sub) for v in e.values]
            if sub:
                raise Unsupp('call inside and/or')
            op = 'EAnd' if isinstance(e.op, ast.And) else 'EOr'
            out = vals[-1]
            for v in reversed(vals[:-1]):
                out = '(%s %s %s)' % (op, v, out)
            return out
        if isinstance(e, ast.IfExp):
            sub = []
            r = '(EIf %s %s %s)' % (self.expr(e.test, c, sub), self.expr(e.body, c, sub), self.expr(e.orelse, c, sub))
            if sub:
                raise Unsupp('call inside a conditional expression')
            return r
        if isinstance(e, (ast.Tuple, ast.List)):
            return '(EList [%s])' % '; '.join(self.expr(x, c, pre) for x in e.elts)
        if isinstance(e, ast.Call):
            return self.call(e, c, pre)
        if isinstance(e, (ast.ListComp, ast.GeneratorExp)) and len(e.generators) == 1 and not e.generators[0].is_async:
            g = e.generators[0]
            items = self.static_items(g.iter, c)
            if items is None:
                raise Unsupp('comprehension over %s' % ast.unparse(g.iter)[:40])
            # [elt for target in <static items> if cond]: unrolled list building
            tmp = self.fresh('comp')
            pre.append('SLet %s (EList [])' % q(tmp))
            saved = dict(c.subst)
            for it in items:
                c.subst.update(self.destructure(g.target, it))
                body = []
                v = self.expr(e.elt, c, body)
                body.append('SAppend %s %s' % (q(tmp), v))
                for cond in reversed(g.ifs):
                    cpre = []
                    t = self.expr(cond, c, cpre)
                    if cpre:
                        raise Unsupp('call inside a comprehension condition')
                    body = ['SIf %s [%s] []' % (t, '; '.join(body))]
                pre.extend(body)
            c.subst = saved
            return '(EVar %s)' % q(tmp)
        if isinstance(e, ast.DictComp) and len(e.generators) == 1 and not e.generators[0].is_async:
            # {key: value for target in <static items> if cond} with constant string keys: unrolled dict building
            g = e.generators[0]
            items = self.static_items(g.iter, c)
            if items is None:
                raise Unsupp('comprehension over %s' % ast.unparse(g.iter)[:40])
            tmp = self.fresh('comp')
            pre.append('SNewObj %s "dict" []' % q(tmp))
            saved = dict(c.subst)
            for it in items:
                c.subst.update(self.destructure(g.target, it))
                key = self.const_name(e.key, c)
                if not isinstance(key, str):
                    raise Unsupp('dict comprehension with a non-constant key')
                body = []
                v = self.expr(e.value, c, body)
                body.append('SSetKey %s %s %s' % (q(tmp), q(key), v))
                for cond in reversed(g.ifs):
                    cpre = []
                    t = self.expr(cond, c, cpre)
                    if cpre:
                        raise Unsupp('call inside a comprehension condition')
                    body = ['SIf %s [%s] []' % (t, '; '.join(body))]
                pre.extend(body)
            c.subst = saved
            return '(EVar %s)' % q(tmp)
        raise Unsupp('expression %s' % type(e).__name__)

    @staticmethod
    def elementwise(a):
        """map(f, X) / (f(v) for v in X) / [f(v) for v in X] with f in str, int, two-digit hex -> (kind, X)"""
        if isinstance(a, ast.Call) and isinstance(a.func, ast.Name) and a.func.id == 'map' and len(a.args) == 2 \
                and isinstance(a.args[0], ast.Name) and a.args[0].id in ('str', 'int'):
            return (a.args[0].id, a.args[1])
        if isinstance(a, (ast.GeneratorExp, ast.ListComp)) and len(a.generators) == 1:
            g = a.generators[0]
            if g.ifs or not isinstance(g.target, ast.Name):
                return None
            v, elt = g.target.id, a.elt
            if isinstance(elt, ast.Call) and isinstance(elt.func, ast.Name) and not elt.keywords:
                if elt.func.id in ('str', 'int') and len(elt.args) == 1 and isinstance(elt.args[0], ast.Name) and elt.args[0].id == v:
                    return (elt.func.id, g.iter)
                if elt.func.id == 'format' and len(elt.args) == 2 and isinstance(elt.args[0], ast.Name) and elt.args[0].id == v \
                        and isinstance(elt.args[1], ast.Constant) and elt.args[1].value == '02x':
                    return ('hex2', g.iter)
            if isinstance(elt, ast.JoinedStr) and len(elt.values) == 1 and isinstance(elt.values[0], ast.FormattedValue):
                fv = elt.values[0]
                if isinstance(fv.value, ast.Name) and fv.value.id == v and fv.format_spec is not None \
                        and ast.unparse(fv.format_spec) in ("f'02x'", "'02x'"):
                    return ('hex2', g.iter)
        return None


    def const_expr(self, k):
        if isinstance(k, tuple) and len(k) == 3 and k[0] == 'range':
            return '(ERange %s %s)' % (zlit(k[1]), zlit(k[2]))
        return '(EConst %s)' % pv_of(k)

    def table(self, mod, name):
        tn = '%s.%s' % (os.path.splitext(os.path.basename(mod.rel))[0], name)
        if tn not in self.tables_used:
            self.tables_used[tn] = mod.tables[name]
        return tn

    def attribute(self, e, c, pre):
        # message fields: x.a / x.a.b
        chain = []
        n = e
        while isinstance(n, ast.Attribute):
            chain.append(n.attr)
            n = n.value
        chain.reverse()
        if isinstance(n, ast.Call):
            # <call>.a[.b]: a message returned by an inlined helper / method, or an instance value
            v = self.expr_m(n, c, pre)
            if isinstance(v, tuple) and v[0] == 'msg':
                if len(chain) > 2:
                    raise Unsupp('message attribute chain %s' % ast.unparse(e)[:60])
                return '(EField %s [%s])' % (q(v[1]), '; '.join(q(x) for x in chain))
            out = v
            for a in chain:
                out = '(EAttr %s %s)' % (out, q(a))
            return out
        if isinstance(n, ast.Name):
            base = n.id
            if base in c.subst and isinstance(c.subst[base], ast.Name):
                base = c.subst[base].id
            if base in c.aliases:
                base, fld = c.aliases[base]
                chain = [fld] + chain
            if base in c.msgs:
                if len(chain) > 2:
                    raise Unsupp('message attribute chain %s' % ast.unparse(e))
                return '(EField %s [%s])' % (q(c.msgs[base]), '; '.join(q(x) for x in chain))
            if c.ipmi is not None and base == c.ipmi:
                if len(chain) == 1:
                    # class-level constant of a mix-in (self.ACTIVATION_LOCK_SET)
                    for modname, cd, _ in self.R.classes:
                        for s in cd.body:
                            if isinstance(s, ast.Assign) and any(isinstance(t, ast.Name) and t.id == chain[0] for t in s.targets):
                                m = Mod.get(self.pkg, modname + '.py')
                                return self.const_expr(m.const_of(s.value))
                raise Unsupp('attribute of the connection object: %s' % ast.unparse(e))
            if base == 'self' and c.selfkind == 'obj':
                # class constant, else instance attribute
                if len(chain) == 1:
                    try:
                        return self.const_expr((getattr(c, 'clsmod', None) or c.mod).class_const(c.cls, chain[0]))
                    except (Unsupp, KeyError):
                        pass
                out = '(EVar %s)' % q(c.names['self'])
                for a in chain:
                    out = '(EAttr %s %s)' % (out, q(a))
                return out
            if base in c.names:
                out = '(EVar %s)' % q(c.names[base])
                for a in chain:
                    out = '(EAttr %s %s)' % (out, q(a))
                return out
            try:
                return self.const_expr(c.mod.const_of(e))
            except Unsupp:
                pass
        raise Unsupp('attribute %s' % ast.unparse(e)[:50])

    def const_name(self, key, c):
        """attribute name given to setattr/getattr/hasattr: a string constant, a loop variable bound to one by
        unrolling, or '<fmt>' % <such constants> (folded)"""
        if isinstance(key, ast.Name) and key.id in c.subst:
            return self.const_name(c.subst[key.id], c)
        if isinstance(key, ast.Constant) and isinstance(key.value, (str, int)) and not isinstance(key.value, bool):
            return key.value
        if isinstance(key, (ast.Name, ast.Attribute)) and not (isinstance(key, ast.Name) and (key.id in c.names or key.id in c.msgs)):
            try:
                v = c.mod.const_of(key)
            except Unsupp:
                v = None
            if isinstance(v, (str, int)) and not isinstance(v, bool):
                return v
        if isinstance(key, ast.Subscript) and not isinstance(key.slice, ast.Slice):
            # row[0] with row bound to a literal tuple by unrolling
            row = key.value
            for _ in range(8):
                if isinstance(row, ast.Name) and row.id in c.subst:
                    row = c.subst[row.id]
            i = self.const_name(key.slice, c)
            if isinstance(row, (ast.Tuple, ast.List)) and isinstance(i, int) and not isinstance(i, bool) \
                    and -len(row.elts) <= i < len(row.elts):
                return self.const_name(row.elts[i], c)
            return None
        if isinstance(key, ast.BinOp) and isinstance(key.op, ast.Mod):
            fmt = self.const_name(key.left, c)
            if isinstance(key.right, ast.Tuple):
                args = tuple(self.const_name(x, c) for x in key.right.elts)
            else:
                args = self.const_name(key.right, c)
            if isinstance(fmt, str) and fmt is not None and args is not None and (not isinstance(args, tuple) or None not in args):
                try:
                    return fmt % args
                except (TypeError, ValueError):
                    return None
        return None

    def call(self, e, c, pre):
        f = e.func
        src = ast.unparse(e)
        # '<sep>'.join(<f(v) for v in X>) with f = str / two-digit hex: hand-written builtins
        if (isinstance(f, ast.Attribute) and f.attr == 'join' and isinstance(f.value, ast.Constant)
                and len(e.args) == 1 and not e.keywords):
            ew = self.elementwise(e.args[0])
            if ew is not None and (f.value.value, ew[0]) in (('.', 'str'), (':', 'hex2')):
                return '(ECall %s [%s])' % (q('join_dot_str' if ew[0] == 'str' else 'join_colon_hex'),
                                            self.expr(ew[1], c, pre))
        if isinstance(f, ast.Name) and f.id == 'create_request_by_name':
            name = self.const_name(e.args[0], c) if len(e.args) == 1 and not e.keywords else None
            if not isinstance(name, str):
                raise Unsupp('create_request_by_name with a non-literal name')
            mv = self.fresh('req')
            pre.append('SNewReq %s %s' % (q(mv), q(name)))
            return ('msg', mv)
        if isinstance(f, ast.Name):
            name = f.id
            if name in ('bool', 'int', 'len', 'list', 'tuple', 'reversed') and len(e.args) == 1 and not e.keywords:
                return '(ECall %s [%s])' % (q(name), self.expr(e.args[0], c, pre))
            if name == 'isinstance' and len(e.args) == 2 and isinstance(e.args[1], ast.Name) and e.args[1].id in ('bool', 'int'):
                return '(ECall %s [%s])' % (q('isinstance_' + e.args[1].id), self.expr(e.args[0], c, pre))
            if name == 'ByteBuffer' and len(e.args) == 1:
                a = e.args[0]
                ew = self.elementwise(a)
                if (ew is not None and ew[0] == 'int' and isinstance(ew[1], ast.Call) and isinstance(ew[1].func, ast.Attribute)
                        and ew[1].func.attr == 'split' and len(ew[1].args) == 1 and self.const_name(ew[1].args[0], c) == '.'):
                    return '(ECall "split_dot_int" [%s])' % self.expr(ew[1].func.value, c, pre)
                return '(ECall "bytebuffer" [%s])' % self.expr(a, c, pre)
            if name == 'VersionField' and len(e.args) == 1 and isinstance(e.args[0], ast.Tuple) and len(e.args[0].elts) == 2:
                ok, why = behaviour_ok(self.R.repo, 'version_field')
                if not ok:
                    raise Unsupp('fields.VersionField behaves differently from the hand-written builtin: %s' % why)
                return '(ECall "version_field" [%s; %s])' % tuple(self.expr(x, c, pre) for x in e.args[0].elts)
            if name in ('hasattr', 'getattr') and len(e.args) in (2, 3):
                key = self.const_name(e.args[1], c)
                if not isinstance(key, str):
                    raise Unsupp('%s with a non-constant name' % name)
                if name == 'hasattr' and len(e.args) == 2 and isinstance(e.args[0], ast.Name) and e.args[0].id == 'self' \
                        and c.selfkind == 'obj' and key.startswith('__') and key.endswith('__'):
                    # a class-level protocol attribute (__properties__): decided on the class chain
                    return '(EConst %s)' % pv_of(self.class_level(c, key) is not None)
                tgt = ast.Attribute(value=e.args[0], attr=key, ctx=ast.Load())
                r = self.attribute(tgt, c, pre)
                if name == 'hasattr' or len(e.args) == 3:
                    if not r.startswith('(EField '):
                        raise Unsupp('%s on a non-message object' % name)
                    has = '(EHasField ' + r[len('(EField '):]
                    if name == 'hasattr':
                        if len(e.args) != 2:
                            raise Unsupp('hasattr with 3 arguments')
                        return has
                    # getattr(msg, name, default): the field of the message class when it has one
                    return '(EIf %s %s %s)' % (has, r, self.expr(e.args[2], c, pre))
                return r
            if name in c.names or name in c.msgs or name in c.subst or name in c.aliases:
                raise Unsupp('call of the local %s' % name)
            if name in c.clsnames:
                return self.construct(c.clsnames[name][0], c.clsnames[name][1], e, c, pre)
            if name in c.mod.funcs:
                return self.inline_function(c.mod, c.mod.funcs[name], e, c, pre, selfkind=None)
            cls = self.find_class(c.mod, name)
            if cls is not None:
                return self.construct(cls[0], cls[1], e, c, pre)
            raise Unsupp('call of %s' % name)
        if isinstance(f, ast.Attribute):
            # self.method(...)
            if isinstance(f.value, ast.Name) and c.ipmi is not None and f.value.id == c.ipmi:
                if f.attr == 'send_message':
                    if len(e.args) != 1 or e.keywords:
                        raise Unsupp('send_message with a retry argument')
                    r = self.expr_m(e.args[0], c, pre)
                    if not (isinstance(r, tuple) and r[0] == 'msg'):
                        raise Unsupp('send_message of an unknown request')
                    mv = self.fresh('rsp')
                    pre.append('SSend %s %s false' % (q(mv), q(r[1])))
                    return ('msg', mv)
                if f.attr in self.R.methods:
                    clsname, fn, modname, _ = self.R.methods[f.attr]
                    return self.inline_function(Mod.get(self.pkg, modname + '.py'), fn, e, c, pre, selfkind='ipmi')
                raise Unsupp('no such attribute %s' % f.attr)
            # ComponentProperty.from_data(selector, data): hand-modelled (builtin component_property)
            if (isinstance(f.value, ast.Name) and f.value.id == 'ComponentProperty' and f.attr == 'from_data'
                    and len(e.args) == 2 and not e.keywords and c.mod.rel == 'hpm.py'):
                ok, why = behaviour_ok(self.R.repo, 'component_property')
                if not ok:
                    raise Unsupp('hpm.ComponentProperty behaves differently from the hand-written builtin: %s' % why)
                return '(ECall "component_property" [%s; %s])' % (self.expr(e.args[0], c, pre), self.expr(e.args[1], c, pre))
            # table.get(k, d)
            if f.attr == 'get' and isinstance(f.value, ast.Name) and f.value.id in c.mod.tables and len(e.args) == 2:
                return '(ETable %s %s (Some %s))' % (q(self.table(c.mod, f.value.id)), self.expr(e.args[0], c, pre),
                                                     self.expr(e.args[1], c, pre))
            if f.attr == 'ljust' and len(e.args) == 2:
                return '(ECall "ljust" [%s; %s; %s])' % (self.expr(f.value, c, pre), self.expr(e.args[0], c, pre),
                                                         self.expr(e.args[1], c, pre))
            # Cls.method(...): a static / class method of a class of the package
            if isinstance(f.value, ast.Name) and f.value.id not in c.names and f.value.id not in c.msgs \
                    and f.value.id not in c.subst and f.value.id not in c.aliases:
                hit = c.clsnames.get(f.value.id) or self.find_class(c.mod, f.value.id)
                cm = self.class_method(hit[0], hit[1], f.attr) if hit is not None else None
                if cm is not None:
                    decs = [ast.unparse(d) for d in cm[2].decorator_list]
                    if decs == ['staticmethod']:
                        return self.inline_function(cm[0], cm[2], e, c, pre, selfkind=None, via_class=(hit, 0))
                    if decs == ['classmethod']:
                        return self.inline_function(cm[0], cm[2], e, c, pre, selfkind=None, via_class=(hit, 1))
                    if not decs and c.selfkind == 'obj' and e.args and isinstance(e.args[0], ast.Name) and e.args[0].id == 'self' \
                            and 'self' not in c.subst:
                        # Base.method(self, ...) on the object under translation (constructor chains)
                        e2 = ast.Call(func=f, args=list(e.args[1:]), keywords=list(e.keywords))
                        return self.inline_function(cm[0], cm[2], e2, c, pre, selfkind='obj', cls=c.cls, self_expr=e.args[0],
                                                    clsmod=getattr(c, 'clsmod', None) or c.mod)
            # method of an instance argument: resolved by a unique method name among the module's classes
            if isinstance(f.value, ast.Name) and (f.value.id in c.names):
                cn = None
                if f.value.id == 'self' and c.selfkind == 'obj':
                    cn = c.cls
                elif f.value.id in c.objcls:
                    cn = c.objcls[f.value.id]
                else:
                    owners = [k for k, cd in c.mod.classes.items()
                              if any(isinstance(s, ast.FunctionDef) and s.name == f.attr for s in cd.body)]
                    if len(owners) == 1:
                        cn = owners[0]
                own = f.value.id == 'self' and c.selfkind == 'obj'
                cmod = (getattr(c, 'clsmod', None) or c.mod) if own else c.mod
                hit = self.class_method(cmod, cn, f.attr) if cn else None
                if hit is not None:
                    m, cd, fn = hit
                    r = self.inline_function(m, fn, e, c, pre, selfkind='obj', cls=cn, self_expr=f.value, clsmod=cmod)
                    return r
            raise Unsupp('call %s' % src[:60])
        raise Unsupp('call %s' % src[:60])

    def find_class(self, mod, name):
        if name in mod.classes:
            return (mod, name)
        if name in mod.imports and mod.imports[name][0] == 'name':
            _, rel, orig = mod.imports[name]
            m = Mod.get(self.pkg, rel)
            if orig in m.classes:
                return (m, orig)
        return None

    # ---- calls that are inlined ----
    def check_swn_form(self):
        """Ipmi.send_message_with_name has the form this translator assumes"""
        fn = self.R.methods.get('send_message_with_name')
        if fn is None:
            return False
        body = [s for s in fn[1].body if not (isinstance(s, ast.Expr) and isinstance(s.value, ast.Constant))]
        want = ['req = create_request_by_name(name)',
                'for key, value in kwargs.items():\n    setattr(req, key, value)',
                'rsp = self.send_message(req)', 'check_rsp_completion_code(rsp)', 'return rsp']
        return [ast.unparse(s) for s in body] == want

    def send_with_name(self, e, c, pre):
        if not self.check_swn_form():
            raise Unsupp('Ipmi.send_message_with_name has an unexpected form')
        if not (e.args and isinstance(e.args[0], ast.Constant) and isinstance(e.args[0].value, str)) or len(e.args) != 1:
            raise Unsupp('send_message_with_name: name is not a literal')
        req, rsp = self.fresh('req'), self.fresh('rsp')
        pre.append('SNewReq %s %s' % (q(req), q(e.args[0].value)))
        for kw in e.keywords:
            if kw.arg is None:
                raise Unsupp('**kwargs')
            pre.append('SSetField %s [%s] %s' % (q(req), q(kw.arg), self.expr(kw.value, c, pre)))
        pre.append('SSend %s %s false' % (q(rsp), q(req)))
        pre.append('SCheck %s' % q(rsp))
        return ('msg', rsp)

    PURE_CALLEES = {'len', 'bool', 'int', 'list', 'tuple', 'bytes', 'bytearray', 'str', 'sum', 'min', 'max', 'sorted',
                    'reversed', 'enumerate', 'zip', 'range', 'isinstance', 'ord', 'chr', 'hex', 'format', 'repr', 'abs',
                    'ByteBuffer', 'array', 'any', 'all', 'map', 'filter', 'iter', 'next', 'print', 'type', 'id', 'divmod'}

    @staticmethod
    def static_none(a, c):
        for _ in range(8):
            if isinstance(a, ast.Name) and a.id in c.subst:
                a = c.subst[a.id]
        return isinstance(a, ast.Constant) and a.value is None

    def handed_on(self, fn, name):
        """the parameter is handed on as an argument of a call of a method / constructor / helper inside fn"""
        for n in ast.walk(fn):
            if isinstance(n, ast.Call) and not (isinstance(n.func, ast.Name) and n.func.id in self.PURE_CALLEES) \
                    and any(isinstance(a, ast.Name) and a.id == name for a in list(n.args) + [k.value for k in n.keywords]):
                return True
        return False

    def used_as_object(self, fn, name):
        """is the local / parameter `name` of fn used as an OBJECT (attribute access, setattr/getattr/hasattr, handed on
        to something that is not a pure builtin)?  Then a message sub-object bound to it is bound by reference."""
        for n in ast.walk(fn):
            if isinstance(n, ast.Attribute) and isinstance(n.value, ast.Name) and n.value.id == name:
                return True
            if isinstance(n, ast.Call):
                args = list(n.args) + [k.value for k in n.keywords]
                if any(isinstance(a, ast.Name) and a.id == name for a in args) or \
                        any(isinstance(a, ast.Starred) and isinstance(a.value, ast.Name) and a.value.id == name for a in args):
                    if not (isinstance(n.func, ast.Name) and n.func.id in self.PURE_CALLEES):
                        return True
        return False

    def callee_param(self, call, c, name):
        """(FunctionDef, parameter) that receives the local `name` in this call, when the callee can be resolved"""
        f = call.func
        fn, skip = None, 0
        if isinstance(f, ast.Name) and f.id in c.mod.funcs and f.id not in c.names:
            fn = c.mod.funcs[f.id]
        elif isinstance(f, ast.Attribute) and isinstance(f.value, ast.Name):
            if c.ipmi is not None and f.value.id == c.ipmi:
                if f.attr in self.R.methods:
                    fn, skip = self.R.methods[f.attr][1], 1
            elif f.value.id not in c.names and f.value.id not in c.msgs:
                hit = c.clsnames.get(f.value.id) or self.find_class(c.mod, f.value.id)
                cm = self.class_method(hit[0], hit[1], f.attr) if hit is not None else None
                if cm is not None:
                    fn = cm[2]
                    skip = 1 if any(ast.unparse(d) == 'classmethod' for d in fn.decorator_list) else 0
        if fn is None:
            return None
        ps = [p.arg for p in fn.args.args][skip:]
        for p_, a in zip(ps, call.args):
            if isinstance(a, ast.Name) and a.id == name:
                return fn, p_
        for k in call.keywords:
            if isinstance(k.value, ast.Name) and k.value.id == name and k.arg in ps:
                return fn, k.arg
        return None

    def local_used_as_object(self, c, name):
        """the local `name` (bound to an attribute of a message) is used as an object in this body: attribute access,
        setattr / getattr / hasattr, or handed to a helper that uses its parameter as an object"""
        for n in ast.walk(c.fn):
            if isinstance(n, ast.Attribute) and isinstance(n.value, ast.Name) and n.value.id == name:
                return True
            if isinstance(n, ast.Call):
                if isinstance(n.func, ast.Name) and n.func.id in ('setattr', 'getattr', 'hasattr', 'delattr') and n.args \
                        and isinstance(n.args[0], ast.Name) and n.args[0].id == name:
                    return True
                hit = self.callee_param(n, c, name)
                if hit is not None and self.used_as_object(hit[0], hit[1]):
                    return True
        return False

    def msg_field_ref(self, a, c, seen=0):
        """(python message variable of c, field) when the expression denotes the attribute `field` of a message object -
        possibly a mutable sub-object (bit-field group) that Python passes by reference; else None"""
        if seen > 8:
            return None
        if isinstance(a, ast.Name):
            if a.id in c.subst:
                return self.msg_field_ref(c.subst[a.id], c, seen + 1)
            if a.id in c.aliases and c.aliases[a.id][0] in c.msgs:
                return c.aliases[a.id]
            return None
        if isinstance(a, ast.Attribute) and isinstance(a.value, ast.Name):
            base = a.value.id
            if base in c.subst and isinstance(c.subst[base], ast.Name):
                base = c.subst[base].id
            if base in c.msgs and base not in c.aliases:
                return (base, a.attr)
        return None

    def bind_params(self, fn, call, c, nc, pre, skip_self):
        """bind the parameters of fn in the new context nc from the call's arguments.  Constant arguments are
        propagated statically (when the callee never rebinds the parameter); surplus keyword arguments go to **kwargs
        as a statically known dict (so that `for k, v in kwargs.items(): setattr(req, k, v)` unrolls).  The connection
        object and sub-objects of messages (req.link_info) are bound BY REFERENCE (the parameter becomes another name
        for them) when the callee uses the parameter as an object; a parameter that is rebound in that case is refused."""
        params = fn.args.args[skip_self:]
        if fn.args.kwonlyargs:
            raise Unsupp('keyword-only parameters in %s' % fn.name)
        defaults = [None] * (len(params) - len(fn.args.defaults)) + list(fn.args.defaults)
        given = {}
        for p, a in zip(params, call.args):
            given[p.arg] = a
        if len(call.args) > len(params):
            raise Unsupp('too many arguments for %s' % fn.name)
        extra = []
        pnames = {p.arg for p in params}
        for kw in call.keywords:
            if kw.arg is None:
                raise Unsupp('**kwargs in a call')
            if kw.arg in pnames:
                given[kw.arg] = kw.value
            elif fn.args.kwarg is not None:
                extra.append((kw.arg, kw.value))
            else:
                raise Unsupp('unexpected keyword argument %s for %s' % (kw.arg, fn.name))
        rebound = {n.id for n in ast.walk(fn) if isinstance(n, ast.Name) and isinstance(n.ctx, (ast.Store, ast.Del))}
        for p, d in zip(params, defaults):
            a = given.get(p.arg, d)
            if a is None:
                raise Unsupp('missing argument %s of %s' % (p.arg, fn.name))
            in_caller = p.arg in given
            src = c if in_caller else nc
            if in_caller and isinstance(a, ast.Name) and c.ipmi is not None and a.id == c.ipmi and a.id not in c.subst:
                # the connection object itself
                if p.arg in rebound:
                    raise Unsupp('%s rebinds the parameter that receives the connection object' % fn.name)
                if nc.ipmi is not None:
                    raise Unsupp('%s receives the connection object twice' % fn.name)
                nc.ipmi = p.arg
                continue
            ref = self.msg_field_ref(a, c) if in_caller else None
            if ref is not None and self.used_as_object(fn, p.arg):
                if p.arg in rebound:
                    raise Unsupp('%s rebinds a parameter bound to a sub-object of a message' % fn.name)
                hidden = '%s$of$%s' % (p.arg, ref[0])
                nc.msgs[hidden] = c.msgs[ref[0]]
                nc.aliases[p.arg] = (hidden, ref[1])
                continue
            if p.arg not in rebound:
                k = self.const_name(a, src)
                if isinstance(k, (str, int)) and not isinstance(a, ast.Name):
                    nc.subst[p.arg] = ast.Constant(value=k)
                    continue
                if self.widened and self.static_none(a, src) and self.handed_on(fn, p.arg):
                    # None for a parameter that the callee hands on (`if rsp: self.decode(rsp)`): known statically
                    nc.subst[p.arg] = ast.Constant(value=None)
                    continue
            v = self.expr_m(a, src, pre)
            if isinstance(v, tuple) and v[0] == 'msg':
                nc.msgs[p.arg] = v[1]
            else:
                pre.append('SLet %s %s' % (q(nc.local(p.arg)), v))
                if isinstance(a, ast.Name) and in_caller and a.id in c.objcls:
                    nc.objcls[p.arg] = c.objcls[a.id]
        if fn.args.kwarg is not None:
            entries = []
            for kname, vnode in extra:
                v = self.expr_m(vnode, c, pre)
                if isinstance(v, tuple):
                    raise Unsupp('message passed through **kwargs')
                tmp = '%s$%s' % (fn.args.kwarg.arg, kname)
                pre.append('SLet %s %s' % (q(nc.local(tmp)), v))
                entries.append((kname, ast.Name(id=tmp, ctx=ast.Load())))
            if fn.args.kwarg.arg in rebound:
                raise Unsupp('**kwargs rebound in %s' % fn.name)
            nc.dicts[fn.args.kwarg.arg] = entries

    def inline_function(self, mod, fn, call, c, pre, selfkind, cls=None, self_expr=None, via_class=None, clsmod=None):
        """via_class = ((Mod, class name), n): fn is a static (n = 0) / class (n = 1) method called as Cls.fn(...)"""
        if c.depth >= MAX_INLINE:
            raise Unsupp('inlining depth')
        if any(isinstance(n, (ast.Yield, ast.YieldFrom)) for n in ast.walk(fn)):
            raise Unsupp('generator %s' % fn.name)
        if fn.decorator_list and via_class is None:
            raise Unsupp('decorated %s' % fn.name)
        if getattr(fn.args, 'posonlyargs', None):
            raise Unsupp('positional-only parameters in %s' % fn.name)
        nc = Ctx(self, mod, c.depth + 1, selfkind, cls)
        nc.fn = fn
        if clsmod is not None:
            nc.clsmod = clsmod          # the module in which the dynamic class of self is defined (mod = where fn is)
        if via_class is not None and via_class[1] == 1:
            clsparam = fn.args.args[0].arg if fn.args.args else None
            if clsparam is None or any(isinstance(n, ast.Name) and n.id == clsparam and isinstance(n.ctx, (ast.Store, ast.Del))
                                       for n in ast.walk(fn)):
                raise Unsupp('class method %s rebinds its class parameter' % fn.name)
            nc.clsnames[clsparam] = via_class[0]
        if selfkind == 'obj':
            if isinstance(self_expr, ast.Name) and self_expr.id in c.names:
                nc.names['self'] = c.names[self_expr.id]          # the same object, not a copy
                self.share_state(c, nc)
            else:
                v = self.expr(self_expr, c, pre)
                nc.names['self'] = self.fresh('self')
                pre.append('SLet %s %s' % (q(nc.names['self']), v))
        self.bind_params(fn, call, c, nc, pre, skip_self=(1 if selfkind is not None else 0) + (via_class[1] if via_class else 0))
        nc.ret = self.fresh('ret')
        pre.append('SLet %s (EConst PNone)' % q(nc.ret))
        pre.extend(self.block(self.strip_doc(fn.body), nc))
        if len(nc.retinfo['msgs']) == 1 and not nc.retinfo['other']:
            return ('msg', list(nc.retinfo['msgs'])[0])
        return '(EVar %s)' % q(nc.ret)

    @staticmethod
    def strip_doc(body):
        return [s for s in body if not (isinstance(s, ast.Expr) and isinstance(s.value, ast.Constant)
                                        and isinstance(s.value.value, str))]

    def class_chain(self, mod, cname):
        """[(mod, ClassDef)] from the class up through its bases defined in the package"""
        out = []
        seen = set()
        todo = [(mod, cname)]
        while todo:
            m, n = todo.pop(0)
            if (m.rel, n) in seen:
                continue
            seen.add((m.rel, n))
            hit = self.find_class(m, n)
            if hit is None:
                continue
            m2, n2 = hit
            cd = m2.classes[n2]
            out.append((m2, cd))
            for b in cd.bases:
                if isinstance(b, ast.Name):
                    todo.append((m2, b.id))
        return out

    def class_method(self, mod, cname, meth):
        for m, cd in self.class_chain(mod, cname):
            for s in cd.body:
                if isinstance(s, ast.FunctionDef) and s.name == meth:
                    return m, cd, s
        return None

    def shared_mutables(self, mod, cname):
        """class-level attributes bound to a mutable display (list / dict / set)"""
        out = set()
        for m, cd in self.class_chain(mod, cname):
            for s in cd.body:
                if isinstance(s, ast.Assign) and isinstance(s.value, (ast.List, ast.Dict, ast.Set)):
                    for t in s.targets:
                        if isinstance(t, ast.Name) and not t.id.startswith('__') and not t.id.isupper() \
                                and not t.id.startswith('_'):
                            out.add(t.id)
        return out

    def construct(self, mod, cname, call, c, pre):
        """Cls(args): instance creation; State subclasses: properties default to None, then _from_response"""
        chain = self.class_chain(mod, cname)
        names = [cd.name for _, cd in chain]
        obj = self.fresh('obj')
        props = []
        for m, cd in chain:
            for s in cd.body:
                if isinstance(s, ast.Assign) and any(isinstance(t, ast.Name) and t.id == '__properties__' for t in s.targets):
                    if not (isinstance(s.value, (ast.List, ast.Tuple)) and all(
                            isinstance(x, (ast.Tuple, ast.List)) and x.elts and isinstance(x.elts[0], ast.Constant)
                            and isinstance(x.elts[0].value, str) for x in s.value.elts)):
                        raise Unsupp('%s.__properties__ is not a literal list of (name, ...) tuples' % cd.name)
                    props = [x.elts[0].value for x in s.value.elts]
                    break
            if props:
                break
        # class-level data attributes are visible through the instance: they are its initial attributes,
        # then DefaultProperties sets the declared properties to None
        inits = {}
        for m, cd in reversed(chain):
            for s in cd.body:
                if isinstance(s, ast.Assign) and len(s.targets) == 1 and isinstance(s.targets[0], ast.Name):
                    n = s.targets[0].id
                    if n.startswith('_') or n.isupper() or n != n.lower():
                        continue
                    if isinstance(s.value, ast.List) and not s.value.elts:
                        inits[n] = '(PList [])'
                    else:
                        try:
                            inits[n] = pv_of(m.const_of(s.value))
                        except Unsupp:
                            pass
        for p_ in props:
            inits[p_] = 'PNone'
        pre.append('SNewObj %s %s [%s]' % (q(obj), q(cname), '; '.join('(%s, %s)' % (q(k), v) for k, v in inits.items())))
        init = self.class_method(mod, cname, '__init__')
        nc = Ctx(self, mod, c.depth + 1, 'obj', cname)
        nc.names['self'] = obj
        nc.objcls['self'] = cname
        nc.fresh_obj = True
        nc.assigned = set()
        nc.shared = self.shared_mutables(mod, cname)
        decoder = self.state_decoder(init) if init is not None else None
        if init is None:
            # no constructor anywhere in the class chain: object.__init__ takes no arguments
            if call.args or call.keywords:
                raise Unsupp('%s() takes no arguments' % cname)
        elif decoder is not None:
            # FAST PATH - the constructor reached has the known form of state.State.__init__ (verified on the source, the
            # name of the decoding method read from it): declared properties None (SNewObj above), then `if rsp: decode`
            if len(call.args) > 1 or call.keywords:
                raise Unsupp('%s constructed with other arguments than one response' % cname)
            self.state_init(mod, cname, call.args[0] if call.args else None, c, nc, pre, decoder)
        else:
            # FALLBACK - any other constructor is translated from its source like every other method
            im, icd, ifn = init
            nc.mod = im
            nc.clsmod = mod
            self.bind_params(ifn, call, c, nc, pre, skip_self=1)
            nc.ret = self.fresh('ret')
            nc.fn = ifn
            pre.extend(self.block(self.strip_doc(ifn.body), nc))
        return '(EVar %s)' % q(obj)

    STATE_FORM = {
        'defaults': "if hasattr(self, '__properties__'):\n    for prop in self.__properties__:\n        setattr(self, prop[0], None)",
    }

    def state_decoder(self, init):
        """init = (Mod, ClassDef, FunctionDef) of the constructor that Cls(rsp) reaches.  If it has the form
               def __init__(self, rsp=None): A.__init__(self); B.__init__(self, rsp)
        with A.__init__(self) = 'declared properties become None' and B.__init__(self, rsp=None) = `if rsp: self.<m>(rsp)`,
        return the name <m> of the decoding method (read from the source, not assumed); else None."""
        key = (init[0].rel, init[1].name)
        cache = self.__dict__.setdefault('_state_forms', {})
        if key in cache:
            return cache[key]
        cache[key] = None
        im, icd, ifn = init
        a = ifn.args
        if a.vararg or a.kwarg or a.kwonlyargs or ifn.decorator_list or len(a.args) != 2 or len(a.defaults) != 1 \
                or ast.unparse(a.defaults[0]) != 'None' or a.args[0].arg != 'self':
            return None
        rsp = a.args[1].arg
        body = self.strip_doc(ifn.body)
        if len(body) != 2 or not all(isinstance(x, ast.Expr) and isinstance(x.value, ast.Call) for x in body):
            return None
        bases = [b.id for b in icd.bases if isinstance(b, ast.Name)]
        calls = []
        for x in body:
            f = x.value.func
            if not (isinstance(f, ast.Attribute) and f.attr == '__init__' and isinstance(f.value, ast.Name)
                    and f.value.id in bases and not x.value.keywords):
                return None
            hit = self.find_class(im, f.value.id)
            cm = self.class_method(hit[0], hit[1], '__init__') if hit else None
            if cm is None or cm[1].name != f.value.id or cm[2].decorator_list:
                return None
            calls.append(([ast.unparse(y) for y in x.value.args], cm[2]))
        (a1, f1), (a2, f2) = calls
        if a1 != ['self'] or a2 != ['self', rsp]:
            return None
        if [p.arg for p in f1.args.args] != ['self'] or f1.args.vararg or f1.args.kwarg or f1.args.kwonlyargs:
            return None
        if '\n'.join(ast.unparse(x) for x in self.strip_doc(f1.body)) != self.STATE_FORM['defaults']:
            return None
        g = f2.args
        if g.vararg or g.kwarg or g.kwonlyargs or len(g.args) != 2 or g.args[0].arg != 'self' or len(g.defaults) != 1 \
                or ast.unparse(g.defaults[0]) != 'None':
            return None
        r2 = g.args[1].arg
        b2 = self.strip_doc(f2.body)
        if len(b2) != 1 or not isinstance(b2[0], ast.If) or b2[0].orelse or ast.unparse(b2[0].test) != r2 or len(b2[0].body) != 1:
            return None
        st = b2[0].body[0]
        if not (isinstance(st, ast.Expr) and isinstance(st.value, ast.Call) and isinstance(st.value.func, ast.Attribute)
                and isinstance(st.value.func.value, ast.Name) and st.value.func.value.id == 'self'
                and [ast.unparse(y) for y in st.value.args] == [r2] and not st.value.keywords):
            return None
        cache[key] = st.value.func.attr
        return cache[key]

    def state_init(self, mod, cname, arg, c, nc, pre, decoder):
        """the known form of State.__init__: declared properties None (done by SNewObj) ; `if rsp: self.<decoder>(rsp)`"""
        if arg is None:
            return
        v = self.expr_m(arg, c, pre)
        if not (isinstance(v, tuple) and v[0] == 'msg'):
            # a non-message argument (SelEntry(data), ...): outside the fragment
            raise Unsupp('%s constructed from a non-message value' % cname)
        mv = v[1]
        fr = self.class_method(mod, cname, decoder)
        if fr is None:
            raise Unsupp('%s has no %s' % (cname, decoder))
        fm, fcd, ffn = fr
        if ffn.decorator_list or len(ffn.args.args) != 2 or ffn.args.vararg or ffn.args.kwarg or ffn.args.kwonlyargs:
            raise Unsupp('%s.%s has an unexpected signature' % (cname, decoder))
        nc2 = Ctx(self, fm, nc.depth, 'obj', cname)
        nc2.names['self'] = nc.names['self']
        nc2.objcls['self'] = cname
        nc2.assigned = nc.assigned
        nc2.shared = nc.shared
        nc2.msgs[ffn.args.args[1].arg] = mv
        nc2.ret = self.fresh('ret')
        nc2.fn = ffn
        pre.extend(self.block(self.strip_doc(ffn.body), nc2))

    def next_init(self, c):
        """the constructor that super().__init__ reaches from the constructor being translated (single inheritance along
        the chain: the first __init__ among the classes after the defining class)"""
        if c.selfkind != 'obj' or c.fn is None or c.fn.name != '__init__':
            return None
        chain = self.class_chain(getattr(c, 'clsmod', None) or c.mod, c.cls)
        idx = [i for i, (m, cd) in enumerate(chain) if c.fn in cd.body]
        if len(idx) != 1:
            return None
        for m, cd in chain[idx[0] + 1:]:
            for s_ in cd.body:
                if isinstance(s_, ast.FunctionDef) and s_.name == '__init__':
                    return m, cd, s_
        return None

    # ---- statements ----
    @staticmethod
    def has_jump(stmts):
        """does the statement list contain a return, or a break/continue that belongs to an enclosing loop"""
        def walk(n, in_loop):
            if isinstance(n, ast.Return):
                return True
            if isinstance(n, (ast.Break, ast.Continue)):
                return not in_loop
            if isinstance(n, (ast.FunctionDef, ast.Lambda, ast.ClassDef)):
                return False
            inner = in_loop or isinstance(n, (ast.For, ast.While))
            for ch in ast.iter_child_nodes(n):
                if isinstance(n, (ast.For, ast.While)) and ch in getattr(n, 'orelse', []):
                    if walk(ch, in_loop):
                        return True
                elif walk(ch, inner):
                    return True
            return False
        return any(walk(x, False) for x in stmts)

    def block(self, stmts, c, k=None, brk=None, cont=None):
        """statements, followed by the continuation k (ctx -> coq statements: what runs after this block on the
        same path; None = nothing).  brk / cont: continuations of break / continue of the enclosing unrolled loop.
        A branch that contains a jump (return / break / continue) gets the rest of the block pushed into both
        branches of its `if` (tail form); blocks without jumps stay sequential."""
        out = []
        for i, s in enumerate(stmts):
            self.nstmts += 1
            if self.nstmts > 6000:
                raise Unsupp('unrolled code too large')
            rest = stmts[i + 1:]
            if isinstance(s, ast.Return):
                if s.value is None:
                    c.retinfo['other'] = True
                    out.append('SLet %s (EConst PNone)' % q(c.ret))
                else:
                    v = self.expr_m(s.value, c, out)
                    if isinstance(v, tuple):
                        c.retinfo['msgs'].add(v[1])
                        v = '(EMsg %s)' % q(v[1])
                    else:
                        c.retinfo['other'] = True
                    out.append('SLet %s %s' % (q(c.ret), v))
                return out
            if isinstance(s, ast.Raise):
                out.append(self.raise_stmt(s, c))
                return out
            if isinstance(s, ast.Break):
                if brk is None:
                    raise Unsupp('break outside an unrolled loop')
                return out + brk(c)
            if isinstance(s, ast.Continue):
                if cont is None:
                    raise Unsupp('continue outside an unrolled loop')
                return out + cont(c)
            if isinstance(s, ast.If):
                test = self.expr(s.test, c, out)
                static = {'(EConst (PBool true))': True, '(EConst (PBool false))': False, '(EConst PNone)': False}.get(test)
                if static is not None and self.widened:
                    # the test is a constant of the translation (hasattr on the class chain, a None default): the other
                    # branch is dead code and need not be in the fragment
                    live = s.body if static else s.orelse
                    return out + self.block(list(live) + list(rest), c, k, brk, cont)
                ca, cb = c.child_copy(), c.child_copy()
                self.share_state(c, ca), self.share_state(c, cb)
                if self.has_jump([s]):
                    kk = (lambda rest_: lambda cc: self.block(rest_, cc, k, brk, cont))(rest)
                    a = self.block(s.body, ca, kk, brk, cont)
                    b = self.block(s.orelse, cb, kk, brk, cont)
                    out.append('SIf %s [%s] [%s]' % (test, '; '.join(a), '; '.join(b)))
                    return out
                a = self.block(s.body, ca)
                b = self.block(s.orelse, cb)
                for cc in (ca, cb):
                    for kx, v in cc.objcls.items():
                        c.objcls.setdefault(kx, v)
                out.append('SIf %s [%s] [%s]' % (test, '; '.join(a), '; '.join(b)))
                continue
            if isinstance(s, ast.For):
                items = self.static_items(s.iter, c)
                if items is None:
                    raise Unsupp('loop over %s' % ast.unparse(s.iter)[:40])
                if len(items) > 64:
                    raise Unsupp('loop too long to unroll')
                binds = [self.destructure(s.target, it) for it in items]
                if self.has_jump(s.body) or s.orelse:
                    after = (lambda rest_: lambda cc: self.block(rest_, cc, k, brk, cont))(rest)

                    def run_iter(j, cc):
                        if j == len(binds):
                            return self.block(list(s.orelse) + list(rest), cc, k, brk, cont)
                        cj = cc.child_copy()
                        self.share_state(cc, cj)
                        cj.subst.update(binds[j])
                        nxt = (lambda j_: lambda c2: run_iter(j_ + 1, self.unbind(c2, binds[j_], cc)))(j)
                        return self.block(s.body, cj, nxt, lambda c2: after(self.unbind(c2, binds[j], cc)), nxt)
                    return out + run_iter(0, c)
                saved = dict(c.subst)
                for bnd in binds:
                    c.subst.update(bnd)
                    out.extend(self.block(s.body, c))
                c.subst = saved
                continue
            out.extend(self.simple(s, c))
        if k is not None:
            out += k(c)
        return out

    @staticmethod
    def unbind(c2, bnd, outer):
        """leave an unrolled iteration: the loop variables are no longer substituted"""
        for name in bnd:
            if name in outer.subst:
                c2.subst[name] = outer.subst[name]
            else:
                c2.subst.pop(name, None)
        return c2

    # ---- statically known iterables ----
    @staticmethod
    def to_ast(v):
        if isinstance(v, tuple) and len(v) == 3 and v[0] == 'range':
            return ast.Tuple(elts=[ast.Constant(value=i) for i in range(v[1], v[2])], ctx=ast.Load())
        if isinstance(v, tuple):
            return ast.Tuple(elts=[Translator.to_ast(x) for x in v], ctx=ast.Load())
        return ast.Constant(value=v)

    def assigned_once(self, c, name):
        """the local `name` is bound exactly once in the function and never mutated through a method call"""
        if c.fn is None:
            return False
        stores = [n for n in ast.walk(c.fn) if isinstance(n, ast.Name) and n.id == name and isinstance(n.ctx, (ast.Store, ast.Del))]
        mut = [n for n in ast.walk(c.fn) if isinstance(n, ast.Call) and isinstance(n.func, ast.Attribute)
               and isinstance(n.func.value, ast.Name) and n.func.value.id == name
               and n.func.attr in ('append', 'extend', 'insert', 'pop', 'remove', 'clear', 'sort', 'reverse', 'update')]
        return len(stores) == 1 and not mut

    def class_level(self, c, attr):
        """the class-level assignment `attr = <expr>` visible as self.attr (value node), or None"""
        if c.selfkind == 'obj':
            chain = self.class_chain(getattr(c, 'clsmod', None) or c.mod, c.cls)
        else:
            chain = [(Mod.get(self.pkg, modname + '.py'), cd) for modname, cd, _ in self.R.classes]
        for m, cd in chain:
            for st in cd.body:
                if isinstance(st, ast.Assign) and any(isinstance(t, ast.Name) and t.id == attr for t in st.targets):
                    return m, st.value
        return None

    def static_items(self, it, c):
        """the elements of an iterable that is known at translation time, as ast nodes; None if it is not"""
        if isinstance(it, ast.Name) and it.id in c.subst:
            return self.static_items(c.subst[it.id], c)
        if isinstance(it, (ast.Tuple, ast.List)):
            return list(it.elts)
        if isinstance(it, ast.Name) and it.id in c.tuples and self.assigned_once(c, it.id):
            return list(c.tuples[it.id])
        if isinstance(it, ast.Call):
            f = it.func
            if isinstance(f, ast.Name) and f.id == 'range' and not it.keywords:
                vals = [self.const_name(a, c) for a in it.args]
                if all(isinstance(v, int) and not isinstance(v, bool) for v in vals) and 1 <= len(vals) <= 3:
                    return [ast.Constant(value=i) for i in range(*vals)]
                return None
            if isinstance(f, ast.Name) and f.id == 'enumerate' and 1 <= len(it.args) <= 2 and not it.keywords:
                inner = self.static_items(it.args[0], c)
                start = self.const_name(it.args[1], c) if len(it.args) == 2 else 0
                if inner is None or not isinstance(start, int):
                    return None
                return [ast.Tuple(elts=[ast.Constant(value=start + i), x], ctx=ast.Load()) for i, x in enumerate(inner)]
            if isinstance(f, ast.Name) and f.id == 'zip' and it.args and not it.keywords:
                cols = [self.static_items(a, c) for a in it.args]
                if any(x is None for x in cols):
                    return None
                return [ast.Tuple(elts=list(row), ctx=ast.Load()) for row in zip(*cols)]
            if isinstance(f, ast.Name) and f.id in ('list', 'tuple', 'reversed', 'sorted') and len(it.args) == 1 and not it.keywords:
                inner = self.static_items(it.args[0], c)
                if inner is None:
                    return None
                if f.id == 'reversed':
                    return list(reversed(inner))
                if f.id == 'sorted':
                    if not all(isinstance(x, ast.Constant) for x in inner):
                        return None
                    return sorted(inner, key=lambda x: x.value)
                return inner
            if isinstance(f, ast.Name) and f.id == 'getattr' and len(it.args) == 3 and not it.keywords \
                    and isinstance(it.args[0], ast.Name) and it.args[0].id == 'self' and c.selfkind == 'obj':
                key = self.const_name(it.args[1], c)
                if isinstance(key, str) and key.startswith('__') and key.endswith('__'):
                    if self.class_level(c, key) is None:
                        return self.static_items(it.args[2], c)
                    return self.static_items(ast.Attribute(value=it.args[0], attr=key, ctx=ast.Load()), c)
                return None
            if not it.args and not it.keywords:
                # a parameterless method of self / module-level function whose body is `return <literal tuple / list>`
                # (the rows may mention self.<CONST> / module constants: evaluated where they are used - same names here)
                lit = None
                if isinstance(f, ast.Name) and f.id in c.mod.funcs and f.id not in c.names and f.id not in c.subst:
                    lit = c.mod.funcs[f.id]
                    if lit.args.args:
                        lit = None
                elif isinstance(f, ast.Attribute) and isinstance(f.value, ast.Name) and f.value.id == 'self':
                    if c.selfkind == 'ipmi' and c.ipmi == 'self' and f.attr in self.R.methods:
                        lit = self.R.methods[f.attr][1]
                        if Mod.get(self.pkg, self.R.methods[f.attr][2] + '.py') is not c.mod:
                            lit = None
                    elif c.selfkind == 'obj':
                        hit = self.class_method(c.mod, c.cls, f.attr)
                        lit = hit[2] if hit is not None and hit[0] is c.mod else None
                    if lit is not None and len(lit.args.args) != 1:
                        lit = None
                if lit is not None and not lit.decorator_list and not (lit.args.vararg or lit.args.kwarg or lit.args.kwonlyargs):
                    body = self.strip_doc(lit.body)
                    if len(body) == 1 and isinstance(body[0], ast.Return) and isinstance(body[0].value, (ast.Tuple, ast.List)):
                        return list(body[0].value.elts)
            if isinstance(f, ast.Attribute) and f.attr in ('items', 'keys', 'values') and not it.args:
                d = self.static_dict(f.value, c)
                if d is None:
                    return None
                if f.attr == 'keys':
                    return [kx for kx, _ in d]
                if f.attr == 'values':
                    return [v for _, v in d if v is not None] if all(v is not None for _, v in d) else None
                if any(v is None for _, v in d):
                    return None
                return [ast.Tuple(elts=[kx, v], ctx=ast.Load()) for kx, v in d]
        d = self.static_dict(it, c)
        if d is not None:
            return [kx for kx, _ in d]          # iterating a dict yields its keys
        # a constant sequence: module constant, imported constant, class constant (also through self.)
        node = it
        if self.is_self(it) and isinstance(it, ast.Attribute):
            hit = self.class_level(c, it.attr)
            if hit is None:
                return None
            m, node = hit
            if isinstance(node, (ast.Tuple, ast.List)) and c.selfkind == 'obj':
                return list(node.elts)          # elements may mention self.<CONST>: evaluated where they are used
            try:
                v = m.const_of(node)
            except Unsupp:
                return None
        else:
            try:
                v = c.mod.const_of(node)
            except Unsupp:
                return None
        if isinstance(v, tuple) and not (len(v) == 3 and v[0] == 'range' and isinstance(v[1], int)):
            return [self.to_ast(x) for x in v]
        if isinstance(v, tuple):
            return [ast.Constant(value=i) for i in range(v[1], v[2])]
        if isinstance(v, str):
            return [ast.Constant(value=ch) for ch in v]
        return None

    @staticmethod
    def is_self(n):
        return isinstance(n, ast.Attribute) and isinstance(n.value, ast.Name) and n.value.id == 'self'

    def static_dict(self, node, c):
        """[(key node, value node or None)] of a dict known at translation time"""
        if isinstance(node, ast.Name) and node.id in c.subst:
            return self.static_dict(c.subst[node.id], c)
        if isinstance(node, ast.Name) and node.id in c.dicts:
            return [(ast.Constant(value=kx), v) for kx, v in c.dicts[node.id]]
        if isinstance(node, ast.Dict) and all(kx is not None for kx in node.keys):
            return list(zip(node.keys, node.values))
        if isinstance(node, ast.Name) and node.id in c.mod.tables:
            return [(self.to_ast(kx), self.to_ast(v)) for kx, v in c.mod.tables[node.id]]
        if self.is_self(node):
            hit = self.class_level(c, node.attr)
            if hit is not None and isinstance(hit[1], ast.Dict) and all(kx is not None for kx in hit[1].keys):
                return [(kx, None) for kx in hit[1].keys]      # values may be arbitrary expressions: keys only
        return None

    def destructure(self, target, item):
        """bind the loop target pattern to one item: {python name: ast node}"""
        if isinstance(target, ast.Name):
            return {target.id: item}
        if isinstance(target, (ast.Tuple, ast.List)):
            if isinstance(item, ast.Constant) and isinstance(item.value, tuple):
                item = self.to_ast(item.value)
            if not isinstance(item, (ast.Tuple, ast.List)) or len(item.elts) != len(target.elts):
                raise Unsupp('cannot destructure %s' % ast.unparse(item)[:40])
            out = {}
            for t, x in zip(target.elts, item.elts):
                out.update(self.destructure(t, x))
            return out
        raise Unsupp('loop target %s' % ast.unparse(target)[:40])

    @staticmethod
    def share_state(c, cc):
        for k in ('assigned', 'shared', 'fresh_obj'):
            if hasattr(c, k):
                setattr(cc, k, getattr(c, k))

    def raise_stmt(self, s, c):
        if s.exc is None:
            raise Unsupp('bare raise')
        n = s.exc.func if isinstance(s.exc, ast.Call) else s.exc
        name = n.id if isinstance(n, ast.Name) else getattr(n, 'attr', None)
        if name not in ERRS:
            raise Unsupp('raise %s' % name)
        return 'SRaise %s' % ERRS[name]

    def simple(self, s, c):
        out = []
        if isinstance(s, ast.Pass):
            return out
        if isinstance(s, ast.Expr):
            v = s.value
            if isinstance(v, ast.Call):
                f = v.func
                if isinstance(f, ast.Name) and f.id in ('check_completion_code', 'check_rsp_completion_code') and len(v.args) == 1:
                    a = v.args[0]
                    if f.id == 'check_completion_code':
                        if not (isinstance(a, ast.Attribute) and a.attr == 'completion_code' and isinstance(a.value, ast.Name)
                                and a.value.id in c.msgs):
                            raise Unsupp('check_completion_code of %s' % ast.unparse(a))
                        out.append('SCheck %s' % q(c.msgs[a.value.id]))
                    else:
                        if not (isinstance(a, ast.Name) and a.id in c.msgs):
                            raise Unsupp('check_rsp_completion_code of %s' % ast.unparse(a))
                        out.append('SCheck %s' % q(c.msgs[a.id]))
                    return out
                if isinstance(f, ast.Name) and f.id == 'setattr' and len(v.args) == 3:
                    key = self.const_name(v.args[1], c)
                    if not isinstance(key, str):
                        raise Unsupp('setattr with a non-constant name')
                    tgt = ast.Attribute(value=v.args[0], attr=key, ctx=ast.Store())
                    return self.assign(tgt, v.args[2], c)
                if isinstance(f, ast.Attribute) and f.attr == 'append' and len(v.args) == 1:
                    tgt = f.value
                    val = self.expr(v.args[0], c, out)
                    if isinstance(tgt, ast.Attribute) and isinstance(tgt.value, ast.Name) and tgt.value.id == 'self' \
                            and c.selfkind == 'obj':
                        if tgt.attr in getattr(c, 'shared', ()) and tgt.attr not in getattr(c, 'assigned', ()):
                            raise Unsupp('SharedMutable: %s.%s is a class-level list mutated in place' % (c.cls, tgt.attr))
                        out.append('SAppendAttr %s %s %s' % (q(c.names['self']), q(tgt.attr), val))
                        return out
                    if isinstance(tgt, ast.Name) and tgt.id in c.names:
                        out.append('SAppend %s %s' % (q(c.names[tgt.id]), val))
                        return out
                    raise Unsupp('append on %s' % ast.unparse(tgt))
                if isinstance(f, ast.Attribute) and isinstance(f.value, ast.Call) and ast.unparse(f.value.func) == 'super' \
                        and f.attr == '__init__':
                    # super(X, self).__init__(rsp) inside the constructor of class X: the next constructor in the chain
                    nxt = self.next_init(c)
                    decoder = self.state_decoder(nxt) if nxt is not None else None
                    if nxt is not None and decoder is None:
                        # any other constructor: translated from its source, on the same object
                        self.inline_function(nxt[0], nxt[2], v, c, out, selfkind='obj', cls=c.cls,
                                             self_expr=ast.Name(id='self', ctx=ast.Load()),
                                             clsmod=getattr(c, 'clsmod', None) or c.mod)
                        return out
                    if decoder is None or len(v.args) > 1 or v.keywords:
                        raise Unsupp('super().__init__ reaches a constructor outside the fragment')
                    self.state_init(getattr(c, 'clsmod', None) or c.mod, c.cls, v.args[0] if v.args else None, c, c, out, decoder)
                    return out
                r = self.expr(v, c, out)        # inlined call, result dropped
                return out
            if isinstance(v, ast.Constant):
                return out
            raise Unsupp('expression statement %s' % ast.unparse(v)[:40])
        if isinstance(s, ast.Assign):
            if len(s.targets) != 1:
                raise Unsupp('multiple assignment targets')
            return self.assign(s.targets[0], s.value, c)
        if isinstance(s, ast.AugAssign):
            if type(s.op) not in BINOPS:
                raise Unsupp('augmented %s' % type(s.op).__name__)
            cur = ast.copy_location(ast.BinOp(left=self.load(s.target), op=s.op, right=s.value), s)
            return self.assign(s.target, cur, c)
        raise Unsupp('statement %s' % type(s).__name__)

    @staticmethod
    def load(t):
        t2 = ast.parse(ast.unparse(t), mode='eval').body
        return t2

    def assign(self, t, value, c):
        out = []
        # request creation / exchanges bind message variables
        if isinstance(t, ast.Name) and isinstance(value, ast.Call):
            f = value.func
            if isinstance(f, ast.Name) and f.id == 'create_request_by_name':
                name = self.const_name(value.args[0], c) if len(value.args) == 1 else None
                if not isinstance(name, str):
                    raise Unsupp('create_request_by_name with a non-literal name')
                mv = self.fresh(t.id)
                c.msgs[t.id] = mv
                c.names.pop(t.id, None)
                out.append('SNewReq %s %s' % (q(mv), q(name)))
                return out
            if isinstance(f, ast.Name) and f.id == 'dict' and not value.args and value.keywords:
                c.dicts[t.id] = [(kw.arg, kw.value) for kw in value.keywords]
                return out
        if isinstance(t, ast.Name) and isinstance(value, (ast.Tuple, ast.List)):
            c.tuples[t.id] = list(value.elts)
            # also usable as a value
        if isinstance(t, ast.Name) and isinstance(value, ast.Dict) and not value.keys:
            lv = c.local(t.id)
            out.append('SNewObj %s "dict" []' % q(lv))
            return out
        if (isinstance(t, ast.Name) and isinstance(value, ast.Attribute) and isinstance(value.value, ast.Name)
                and value.value.id in c.msgs and value.value.id not in c.aliases and c.fn is not None
                and self.local_used_as_object(c, t.id)):
            # a name for a sub-object (bit-field) of a message: later x.bit means msg.field.bit - it is the same object
            if not self.assigned_once(c, t.id):
                raise Unsupp('alias %s of a message field is rebound' % t.id)
            c.aliases[t.id] = (value.value.id, value.attr)
            return out
        v = self.expr_m(value, c, out)
        if isinstance(t, ast.Name):
            if isinstance(v, tuple) and v[0] == 'msg':
                c.msgs[t.id] = v[1]
                c.names.pop(t.id, None)
                return out
            c.msgs.pop(t.id, None)
            out.append('SLet %s %s' % (q(c.local(t.id)), v))
            if isinstance(value, ast.Call) and isinstance(value.func, ast.Name):
                hit = self.find_class(c.mod, value.func.id)
                if hit:
                    c.objcls[t.id] = hit[1]
            return out
        if isinstance(v, tuple):
            v = '(EMsg %s)' % q(v[1])
        if isinstance(t, (ast.Tuple, ast.List)):
            tmp_py = self.fresh('tup').replace('$', '_')
            tmp = c.local(tmp_py)
            out.append('SLet %s %s' % (q(tmp), v))
            for i, x in enumerate(t.elts):
                out.extend(self.assign(x, ast.Subscript(value=ast.Name(id=tmp_py, ctx=ast.Load()),
                                                        slice=ast.Constant(value=i), ctx=ast.Load()), c))
            return out
        if isinstance(t, ast.Attribute):
            chain = []
            n = t
            while isinstance(n, ast.Attribute):
                chain.append(n.attr)
                n = n.value
            chain.reverse()
            if isinstance(n, ast.Name):
                base = n.id
                if base in c.aliases:
                    base, fld = c.aliases[base]
                    chain = [fld] + chain
                if base in c.msgs:
                    if len(chain) > 2:
                        raise Unsupp('assignment to %s' % ast.unparse(t))
                    out.append('SSetField %s [%s] %s' % (q(c.msgs[base]), '; '.join(q(x) for x in chain), v))
                    return out
                if base == 'self' and c.selfkind == 'obj' and len(chain) == 1:
                    if hasattr(c, 'assigned'):
                        c.assigned.add(chain[0])
                    out.append('SSetAttr %s %s %s' % (q(c.names['self']), q(chain[0]), v))
                    return out
                if base in c.names and len(chain) == 1:
                    out.append('SSetAttr %s %s %s' % (q(c.names[base]), q(chain[0]), v))
                    return out
            raise Unsupp('assignment to %s' % ast.unparse(t))
        if isinstance(t, ast.Subscript) and isinstance(t.value, ast.Name) and t.value.id in c.names:
            key = t.slice
            if isinstance(key, ast.Name) and key.id in c.subst:
                key = c.subst[key.id]
            if isinstance(key, ast.Constant) and isinstance(key.value, str):
                out.append('SSetKey %s %s %s' % (q(c.names[t.value.id]), q(key.value), v))
                return out
        raise Unsupp('assignment to %s' % ast.unparse(t)[:40])

    # ---- by-value copies of message objects must not be mutated ----
    @staticmethod
    def check_copies(body):
        """FAIL CLOSED on reference semantics.  `SLet x (EField m [f])` / `SLet x (EMsg m)` bind x to a COPY of what may be a
        mutable object in Python (a bit-field group of a message, the message itself).  Where the translator knows that
        the name is used as an object it binds it by reference instead (aliases); if nevertheless a statement mutates such
        a copy (SSetAttr / SAppend / SAppendAttr / SSetKey on it, or on a local it was copied to), the Python code changes
        the message and the model would not: the operation is refused.  Local names are unique within an operation, so
        the analysis is flow-insensitive."""
        import re
        txt = '\n'.join(body)
        tainted = set(re.findall(r'SLet "([^"]+)" \((?:EField "[^"]+" \["[^"]+"\]|EMsg "[^"]+")\)', txt))
        moves = re.findall(r'SLet "([^"]+)" \(EVar "([^"]+)"\)', txt)
        # conditional expressions / and-or chains / list displays that may carry the copy on
        carries = re.findall(r'SLet "([^"]+)" (\((?:EIf|EOr|EAnd|EList|EIndex) .*)', txt)
        changed = True
        while changed:
            changed = False
            for x, y in moves:
                if y in tainted and x not in tainted:
                    tainted.add(x)
                    changed = True
            for x, rhs in carries:
                if x not in tainted and any(('(EVar %s)' % q(y)) in rhs.split('\n')[0] for y in tainted):
                    tainted.add(x)
                    changed = True
        for kind, x in re.findall(r'\b(SSetAttr|SAppendAttr|SAppend|SSetKey) "([^"]+)"', txt):
            if x in tainted:
                raise Unsupp('a by-value copy of a message sub-object (%s) is mutated: reference semantics outside the fragment'
                             % x.split('$')[0])
        # the other direction: a local list / object stored into a message field (or an attribute of an instance) is
        # stored BY VALUE in the model; Python stores the reference - a mutation of the local AFTER the store (textual
        # order = execution order, loops being unrolled) would change the stored object too
        stored = {}
        for m in re.finditer(r'\b(?:SSetField "[^"]+" \[[^\]]*\]|SSetAttr "[^"]+" "[^"]+") \(EVar "([^"]+)"\)', txt):
            stored.setdefault(m.group(1), m.start())
        for m in re.finditer(r'\b(SSetAttr|SAppendAttr|SAppend|SSetKey) "([^"]+)"', txt):
            x = m.group(2)
            if x in stored and m.start() > stored[x]:
                raise Unsupp('%s is mutated after it was stored in a message field / attribute: reference semantics outside '
                             'the fragment' % x.split('$')[0])

    # ---- one operation ----
    def operation(self, clsname, fn, modname):
        mod = Mod.get(self.pkg, modname + '.py')
        params = []
        try:
            if fn.args.vararg or fn.args.kwarg or fn.args.kwonlyargs:
                raise Unsupp('*args/**kwargs')
            for d in fn.decorator_list:
                if ast.unparse(d) not in ('staticmethod', 'classmethod', 'property'):
                    # what runs is the decorator's result, not this body
                    raise Unsupp('decorated with %s' % ast.unparse(d)[:60])
            c = Ctx(self, mod, 0, 'ipmi')
            ps = fn.args.args[1:]
            defaults = [None] * (len(ps) - len(fn.args.defaults)) + list(fn.args.defaults)
            for p, d in zip(ps, defaults):
                c.names[p.arg] = p.arg
                if d is None:
                    params.append('(%s, None)' % q(p.arg))
                else:
                    params.append('(%s, Some %s)' % (q(p.arg), pv_of(mod.const_of(d))))
            c.ret = 'ret$'
            c.fn = fn
            body = None
            for widened in (False, True):
                # second attempt (only after a refusal): dead branches of tests that are constants of the translation are
                # dropped and None arguments that a callee hands on are propagated - a restructured constructor chain
                # (state.State) then still translates.  The first refusal is the one reported when both attempts fail.
                self.widened = widened
                self.nstmts = 0
                ctry = Ctx(self, mod, 0, 'ipmi')
                ctry.names, ctry.ret, ctry.fn = dict(c.names), c.ret, fn
                tables_before = dict(self.tables_used)
                try:
                    body = ['SLet "ret$" (EConst PNone)'] + self.block(self.strip_doc(fn.body), ctry)
                    self.check_copies(body)
                    break
                except (Unsupp, RecursionError) as e:
                    body = None
                    if not widened:
                        first = e
                        after_first = self.counter
                    else:
                        self.tables_used = tables_before
            self.widened = False
            if body is None:
                self.counter = after_first
                raise first
        except Unsupp as e:
            body = ['SUnsupported %s' % q(str(e))]
        except RecursionError:
            body = ['SUnsupported "recursion"']
        import re
        fuel = 2 * sum(len(re.findall(r'\bS(?:Let|NewReq|SetField|Send|Check|NewObj|SetAttr|AppendAttr|Append|SetKey|If|Raise|Unsupported)\b', b))
                       for b in body) + 8
        return ('mkCop %s %s [%s]\n    [%s]\n    (EVar "ret$") %d'
                % (q(clsname), q(fn.name), '; '.join(params), ';\n     '.join(body), min(fuel, 4000)))


def mutable_defaults(R):
    """constructor defaults of Ipmi that are mutable objects shared by all instances"""
    out = []
    init = [n for n in R.ipmi.body if isinstance(n, ast.FunctionDef) and n.name == '__init__']
    if not init:
        return out
    fn = init[0]
    ps = fn.args.args[1:]
    defaults = [None] * (len(ps) - len(fn.args.defaults)) + list(fn.args.defaults)
    for p, d in zip(ps, defaults):
        if d is None or isinstance(d, ast.Constant):
            continue
        if isinstance(d, (ast.List, ast.Dict, ast.Set)):
            out.append('Ipmi.__init__(%s=%s)' % (p.arg, ast.unparse(d)))
        elif isinstance(d, ast.Call) and isinstance(d.func, ast.Name):
            if class_has_state(R, d.func.id):
                out.append('Ipmi.__init__(%s=%s)' % (p.arg, ast.unparse(d)))
        else:
            out.append('Ipmi.__init__(%s=%s)' % (p.arg, ast.unparse(d)))
    return out


def class_has_state(R, name):
    """does class `name` (defined in or imported into pyipmi/__init__.py) have instance or class-level mutable state"""
    mod = Mod.get(R.pkg, '__init__.py')
    hit = None
    if name in mod.classes:
        hit = mod.classes[name]
    elif name in mod.imports and mod.imports[name][0] == 'name':
        m = Mod.get(R.pkg, mod.imports[name][1])
        hit = m.classes.get(mod.imports[name][2])
    if hit is None:
        return True
    for n in ast.walk(hit):
        if isinstance(n, ast.Attribute) and isinstance(n.value, ast.Name) and n.value.id == 'self' and isinstance(n.ctx, ast.Store):
            return True
    for s in hit.body:
        if isinstance(s, ast.Assign) and isinstance(s.value, (ast.List, ast.Dict, ast.Set)):
            return True
    return False


def emit_content(R, repo):
    T = Translator(R)
    out = ['(* GENERATED by gen/gen_api.py (apifrag) from the tree under test - do not edit *)',
           'From Coq Require Import String Ascii.', 'From Coq Require Import NArith ZArith List.',
           'From PyIpmi Require Import Lib.Res Lib.Bytes Model.Codec Model.ApiSem.', 'Import ListNotations.',
           'Open Scope string_scope.', 'Open Scope Z_scope.', '']
    names = []
    for modname, cd, mod in R.classes:
        if cd is R.ipmi:
            continue
        for n in cd.body:
            if not isinstance(n, ast.FunctionDef) or n.name.startswith('_'):
                continue
            if R.methods[n.name][0] != cd.name:
                continue
            ident = 'cop_%s_%s' % (cd.name, n.name)
            names.append(ident)
            out.append('Definition %s : cop := %s.' % (ident, T.operation(cd.name, n, modname)))
    out.append('')
    out.append('Definition api_content : list cop := [\n  %s].' % ';\n  '.join(names))
    out.append('')
    tabs = []
    for tn, entries in sorted(T.tables_used.items()):
        tabs.append('(%s, [%s])' % (q(tn), '; '.join('(%s, %s)' % (pv_of(k), pv_of(v)) for k, v in entries)))
    out.append('Definition api_tables : list (string * table) := [\n  %s].' % ';\n  '.join(tabs))
    out.append('')
    out.append('(* constructor defaults of Ipmi that are mutable objects shared by every instance *)')
    out.append('Definition shared_defaults : list string := [%s].' % '; '.join(q(x) for x in mutable_defaults(R)))
    return '\n'.join(out) + '\n'
